#!/usr/bin/env python3
"""Regenerates /verif/known_findings.json: 'fixed' entries from /repo's fix: commits (mapping below),
'open' entries from the OPEN table. Run by hand; never at check time."""
import json, subprocess, os
ROOT = os.path.dirname(os.path.dirname(os.path.abspath(__file__)))
# commit subject prefix -> (properties, what failed / minimal input)
FIXED = {
 "Arena::alloc wrote past": ("C38", "Arena::with_capacity(0); alloc u8, u64"),
 "IdSet::clone copied raw pointers": ("C37", "IdSet<String>: Fresh CloneDrop DupFirst (heap-use-after-free under ASan)"),
 "IdSet kept duplicate elements of zero-sized": ("C37", "IdSet<()>: Fresh DupFirst => iter() yields two items"),
 "integer ^ truncated": ("C15,C05", "2 ^ 4294967298 = 4; MIN / -1 => division by zero; MIN % -1 => error"),
 "dropping a Runtime leaked": ("C07", "new(string-constants); drop => bytes still allocated"),
 "incremental GC freed objects": ("C06", "let a = [[1],[2]]; let x = a.pop() under schedule M^7 S0 M K0^2 W0^2"),
 "deep copy of an array": ("C01,C08,C09", "task capturing an array / channel read of an array: type-tag fault"),
 "channel queues held pointers": ("C09", "task { c.write([1,2]) }; read after the task finished: use of reclaimed object; writer mutation visible"),
 "bool >= returned false": ("C24", "true >= true is false"),
 "pop on an empty array": ("C26,C01", "let a: array<int> = []; a.pop() panics the host"),
 "core/map and core/set failed": ("C27", "map.insert(MIN, 1) => integer overflow"),
 "float division by a literal zero": ("C16,C05", "1.0 / 0.0 folds to inf; x / 0.0 has no zero check; folded NaN loses its sign"),
 "unary minus of 0.0": ("C16", "let z = 0.0; -z is +0.0"),
 "triple-quoted strings": ("C30,C04", 'let s = """a\\""""; tab-indented blocks lose characters; """rr\\n\\n""" panics the lexer'),
 "the for-loop variable was declared": ("C21,C35,C02", "let i = 100; for i in 3 {}; println(i) prints 2"),
 "an unknown argument name panicked": ("C18,C04", "fn f(a, b = 2); f(1, c = 3) panics the compiler"),
 "default values of parameters": ("C18", "fn f(a: int = g()) panics the translator; Vr(a: int = g()) rejected"),
 "qualified member calls and leading-dot": ("C18", "Ty.m(pb = 2, pa = 1) passes arguments in written order; .Vr(1) with defaulted field faults"),
 "assigning to a for-loop or match binding": ("C20,C04", "for x in [17] { x = 3 } panics the type checker"),
 "assignment to a variable captured by a lambda": ("C20", "var x = 17; let f = () -> { x = 3; x } accepted"),
 "capture analysis missed": ("C03,C19,C20", "lambda in lambda capturing an outer variable; task in function; capture used only as scrutinee / assignment target: compiler panic"),
 "break/continue/? inside a lambda or task": ("C03", "for i in 2 { let g = () -> { break } } accepted then translator panic"),
 "arithmetic operators on a user type implementing Num": ("C03,C22", "user Num type: n + n hits unreachable!()"),
 "a static member function reached through an import alias": ("C21,C03", "use aa as q; q.Ty.tag() panics the translator"),
 "exhaustiveness checking ignored the type arguments": ("C12,C13", "match (x: option<bool>) { .some(true) .. .some(false) .. .none } reported non-exhaustive; option<option<bool>> checker panic"),
 "matches nested in a match scrutinee": ("C12,C13", "non-exhaustive match inside an arm body / task accepted"),
 "float literal patterns were compared by spelling": ("C13", "1.0 ; 1.00 ; _ : second arm not reported redundant"),
 "an arm with two or-patterns": ("C14,C12", "(true|false, true|false) only matches (L,L),(R,R); match on void scrutinee: stack is empty"),
 "arrays of void corrupted": ("C24,C26,C01", "let a: array<void> = [nil]; a == a faults; a[5] = nil not bounds-checked; x = f() with void f never calls f"),
 "source spans were character offsets": ("C32,C33,C35", "40 non-ASCII chars above a failing line: runtime error reports line 1; definition_at returns a shifted range"),
 "host bindings popped and pushed a slot for void": ("C36", "#host fn e(x: (int, void)) -> (int, void) consumes a caller slot"),
 "bindings declared inside a match that is used as another match's scrutinee": ("C12,C14,C03", "match (match x { v -> .. }) { r -> .. } stores v past the frame"),
}
FIXED.update({
 "a block comment ended at the first": ("C29", "let x = /* a*b */ 3: the comment ends at the first '*' and its rest is lexed as code"),
 "a bare return followed by": ("C29", "return; next() is a parse error while return<newline>next() is a bare return"),
 "a generic function whose result type is instantiated to void": ("C02,C01", "id(10) + { let w = (o: option<void>)!; 5 } prints 5"),
 "patterns on enum variants with void fields": ("C02,C01,C14", "match Ev.Va(5, nil) { .Va(n, _) -> n .. } faults; 1 + match En.Dd(nil) { .Dd(_) -> 9 .. } prints 9"),
 "the line reported for a runtime error in a multi-line expression": ("C05,C32", "vh_emit_int(x ^ {\n x\n}) with x = -7: error line differs between optimized and unoptimized builds"),
 "editor queries panicked on any file containing a task block": ("C34", "`task { 1 }`: definition_at / type_at / completions_at hit unimplemented!()"),
 "an interface implementation that lists its methods in another order": ("C22", "interface Tri { one two three }; implement Tri for Pa { two one three }: Tri.one(p) runs `two`"),
 "a lambda capturing values of a generic type shared one code label": ("C22,C01", "fn lamshow(x: T ToString) -> string { let f = () -> \"<\" .. x .. \">\"; f() } called at two types: the second instantiation runs the first one's code (VM type fault)"),
 "a task block capturing values of a generic type crashed the compiler": ("C22,C03", "fn taskshow(x: T ToString) { task { c.write(\"\" .. x) } }: assertion overload_ty.monotype().is_some() in the translator"),
 "exhaustiveness checking panicked on a wildcard arm after a pattern on a generic variant": ("C04,C12", "fn mk() -> result<void, string>; match mk() { .ok(_) -> 1  _ -> 2 }: index out of bounds in pat_exhaustiveness.rs"),
 "a function with two parameters of the same name and a default argument crashed": ("C04", "fn f(a, a, b = 3) = b ; f(1, 2): index out of bounds in calculate_named_arg_order"),
 "parse time was exponential in the nesting depth of parenthesised expressions": ("C04", "(a = (a = ( ... 1))) nested 24 deep does not finish in a minute"),
 "a host function used as a function value returned no value": ("C11,C01", "let f = readline ; let s = f() (zero-parameter host function through a value): the wrapper ends with ReturnVoid and the caller reads a stale slot; let p = print_string ; 10 + { p(\"x\") ; 5 } faults (the argument stays on the stack)"),
 "a lambda or task in a generic function crashed the VM when a captured variable": ("C01,C22", "fn keep(x: T) -> int { let f = () -> { let y = x ; 1 } ; f() } ; keep(nil): internal error store_offset (the lambda body is compiled with T unresolved although x has no slot)"),
 "a name bound inside the target of an assignment": ("C03", "a[match k { .some(i) -> i  .none -> 0 }] = 5: no entry found for key (the binding i has no stack slot)"),
 "looking up an interface implementation panicked": ("C04,C34", 'type Gg = { aa: string = "x"! } ; implement ToString for <undefined type>'),
 "an array type annotation without a type argument": ("C04,C34", "let a: array<> = [1]"),
 "the push/pop peephole underflowed": ("C04", "type Gg = {..}; Gg as an expression statement: subtract with overflow in the optimizer"),
 "'?' on a type whose Try implementation lacks a method": ("C04", "Try impl without from_residual, then `?`"),
 "indexing a function value overflowed the stack": ("C04,C34", "fn f(a) { a }; f[0](1) aborts the compiler (stack overflow)"),
 "lexer errors (bad escape sequence, unrecognized character) pointed at the wrong text": ("C33", 'println("\\qab") underlines bytes 0..2 of the file'),
})
OPEN = [
 ("C04", "root:cyclic-type-unionfind-borrow", "cyclic type: `fn foo(a: int, b) { foo + b }` (a function used as an operand of its own body) makes the union-find re-borrow itself: RefCell already borrowed (no occurs check in the unifier)"),
 ("C34", "root:cyclic-type-unionfind-borrow", "cyclic type: `fn foo(a: int, b) { foo + b }` panics the analysis behind the editor queries: RefCell already borrowed (no occurs check in the unifier)"),
 ("C01", "root:jump-out-of-operand:break", "`break` inside a block used as an operand (e.g. `id(100) + { while .. { acc += id(7) + { if c { break }; 1 } }; acc }`) compiles to a bare jump that leaves the pending operands on the stack: wrong results (23 instead of 116), type-tag faults or operand-stack leaks; confined to the S-jump stratum (`return` and `?` in the same positions are correct)"),
 ("C01", "root:jump-out-of-operand:continue", "`continue` inside a block used as an operand (e.g. `id(100) + { while .. { acc += id(7) + { if c { continue }; 1 } }; acc }`) compiles to a bare jump that leaves the pending operands on the stack: wrong results (23 instead of 116), type-tag faults or operand-stack leaks; confined to the S-jump stratum (`return` and `?` in the same positions are correct)"),
 ("C02", "root:jump-out-of-operand:break", "`break` inside a block used as an operand (e.g. `id(100) + { while .. { acc += id(7) + { if c { break }; 1 } }; acc }`) compiles to a bare jump that leaves the pending operands on the stack: wrong results (23 instead of 116), type-tag faults or operand-stack leaks; confined to the S-jump stratum (`return` and `?` in the same positions are correct)"),
 ("C02", "root:jump-out-of-operand:continue", "`continue` inside a block used as an operand (e.g. `id(100) + { while .. { acc += id(7) + { if c { continue }; 1 } }; acc }`) compiles to a bare jump that leaves the pending operands on the stack: wrong results (23 instead of 116), type-tag faults or operand-stack leaks; confined to the S-jump stratum (`return` and `?` in the same positions are correct)"),
 ("C05", "root:jump-out-of-operand:break", "`break` inside a block used as an operand (e.g. `id(100) + { while .. { acc += id(7) + { if c { break }; 1 } }; acc }`) compiles to a bare jump that leaves the pending operands on the stack: wrong results (23 instead of 116), type-tag faults or operand-stack leaks; confined to the S-jump stratum (`return` and `?` in the same positions are correct)"),
 ("C05", "root:jump-out-of-operand:continue", "`continue` inside a block used as an operand (e.g. `id(100) + { while .. { acc += id(7) + { if c { continue }; 1 } }; acc }`) compiles to a bare jump that leaves the pending operands on the stack: wrong results (23 instead of 116), type-tag faults or operand-stack leaks; confined to the S-jump stratum (`return` and `?` in the same positions are correct)"),
 ("C03", "c03:NumNeg:accepted-then-compiler-panic", "unary minus on a user type implementing Num is accepted by the checker and hits unreachable!() in the translator (Num has no negate/zero); any context"),
 ("C03", "c03:NumNeg:accepted-then-compiler-panic:in-operand", "unary minus on a user Num type (payload inside an operand block): accepted by the checker, unreachable!() in the translator"),
 ("C03", "c03:NumAddAssign:accepted-then-compiler-panic", "`n += n` on a var of a user Num type is accepted and hits unreachable!() in the translator (compound assignment only knows int/float)"),
 ("C03", "c03:NumAddAssign:accepted-then-compiler-panic:in-operand", "`n += n` on a var of a user Num type (payload inside an operand block): accepted, unreachable!() in the translator"),
 ("C03", "c03:IdxAddAssign:accepted-then-compiler-panic", "`m[k] += e` through a user Index implementation is accepted and hits unimplemented!() in the translator"),
 ("C03", "c03:IdxAddAssign:accepted-then-compiler-panic:in-operand", "`m[k] += e` through a user Index implementation (payload inside an operand block): accepted, unimplemented!() in the translator"),
 ("C03", "c03:Continue:accepted-compiled-run-fault:in-operand", "`continue` inside a block used as an operand (`let t = 1 + { continue; 2 }`) leaves the pending operand on the stack: VM fault on a later instruction"),
 ("C03", "c03:Break:accepted-compiled-run-fault:in-operand", "`break` inside a block used as an operand leaves the pending operand on the stack: VM fault"),
 ("C22", "input:f107c16f90b43f63", "direct Rg: `c[0] += 1` through a user Index implementation: translator unimplemented!() (same root as C03 IdxAddAssign)"),
 ("C22", "input:035c116257dddfa0", "direct Bag: `c[0] += 1` through a user Index implementation: translator unimplemented!()"),
 ("C31", "root:negative-literal-is-one-token", "`-2 % 3` / `-7 ^ 2`: a minus sign directly followed by a numeric literal is parsed as one literal term, so it groups tighter than `-x % 3` (documented: unary minus at level 6, below * / % ^); confined to the stratum 'negative literal followed by % or ^'. Not repaired: the straightforward parser change makes `-9223372036854775808 * k` unparsable"),
]
def main():
    log = subprocess.check_output(["git","-C","/repo","log","--format=%h %s"], text=True).splitlines()
    findings = []
    for line in reversed(log):
        h, subj = line.split(" ",1)
        if not subj.startswith("fix:"): continue
        body = subj[4:].strip()
        hit = [k for k in FIXED if body.startswith(k)]
        assert len(hit)==1, (body, hit)
        props, what = FIXED[hit[0]]
        for p in props.split(","):
            findings.append({"property": p, "status": "fixed", "commit": h, "match": "fixed:"+h,
                             "what": f"fixed: property={p} {h} {what}"})
    for p, key, what in OPEN:
        findings.append({"property": p, "status": "open", "match": key, "what": what})
    # input-keyed findings (one enumerated text each), generated from a thorough run and reviewed by root cause
    inp = os.path.join(ROOT, "tools", "known_inputs.json")
    if os.path.exists(inp):
        for e in json.load(open(inp)):
            findings.append({"property": e["property"], "status": "open", "match": e["match"],
                             "what": e["root"] + " | input: " + e["text"].replace("\n", "\\n")})
    doc = {"_comment": "Genuine defects of anandrav/abra found by the checks. status=open: the matching violation becomes a KNOWN-FINDING line (exit 0); status=fixed: repaired by the named /repo commit, suppresses nothing. `match` is compared with the keys of a violation (input:<fnv64 of the case text>, construct-level keys such as c03:<payload>:<failure class>, root:<...>). Never written at run time; regenerate with tools/known.py.",
           "findings": findings}
    json.dump(doc, open(os.path.join(ROOT,"known_findings.json"),"w"), indent=1)
    print(len(findings), "entries;", sum(1 for f in findings if f["status"]=="open"), "open")
main()
