#!/usr/bin/env python3
"""Regenerates /verif/MANIFEST.json from the table below (single source of truth for the interface)."""
import json, os, subprocess, sys
ROOT = os.path.dirname(os.path.dirname(os.path.abspath(__file__)))

# id -> (level category, technique, level text, level note, design ref)
CHECKS = {
 "C10": ("model_checking",
   "stateless deviation-bounded exploration of the embedder (budget per run_n_steps call, host-service delay) on the real runtime, all executions with <= 2 deviations, differential against the default embedder and a hand model",
   "For 63 programs (hand-modelled corpus with host calls, readline, runtime errors, final values and Kahn-style task programs, plus the collector and channel families) every execution with at most two departures from the default embedder (budget 1, immediate host service) is run to completion: a departure is one call with budget 0/2/3/5/64/1000 or leaving a pending host call unserviced for 1-3 further calls; uniform budgets 1..16, 64, 1000, MAX are added. Output, emits, final value, error kind and traceback must equal the default execution, which must equal the hand model.",
   "Bound of 2 deviations only for programs whose default run has <= 30 (quick) / 400 (thorough) calls, 1 otherwise; racing-writer programs are outside the family; u32::MAX budgets only for task-free programs (with a spinning task a huge budget is a multi-minute wait, not a different behaviour).",
   "DESIGN.md §3 C10"),
 "C11": ("model_checking",
   "the C10 deviation-bounded embedder exploration with a status-contract oracle evaluated at every run_n_steps return",
   "At every run_n_steps return of every explored execution: steps_consumed <= budget; for task-free programs the consumed steps sum to the default run's instruction count; completion or a runtime error is reported when main ends and persists on further calls, an error is never reported as completion; final value, output and the arguments received by host functions of arity 0-3 equal the hand model and the host's return value is what the program observes.",
   "Same bounds as C10; hand-computed expectations in corpus.rs are the reference model.",
   "DESIGN.md §3 C11"),
 "C09": ("model_checking",
   "multi-thread product BFS (round-robin mutator steps x collector micro-steps on every green thread's heap, quarantine on task teardown) against a FIFO/exactly-once/copy-at-write channel model",
   "Sixteen producer/consumer programs covering scalar and heap payloads and every timing relation between write, read, task end, mutation after write and collection are first run without collection and compared with the channel model, then explored exhaustively over all interleavings of mutator steps with collector steps of every thread (1/2 cycles per thread) in quarantine mode; no reachable object (including through queues) may be reclaimed and every maximal path must give the model's outcome.",
   "Bounded programs and cycles; the scheduler is the real deterministic round-robin (budgets cannot reorder tasks), host-call delays are C10's job; hooks H3 trusted.",
   "DESIGN.md §3 C09"),
 "C07": ("model_checking",
   "product BFS (mutator x collector micro-steps) with a precision monitor; exhaustive create/run/service/drop histories under a counting allocator; real-pacing allocation loops with a differential-in-n oracle",
   "(a) In every explored schedule of the C06 product search, when a cycle finishes every object that was unreachable at its start has been reclaimed. (b) Allocation loops run under the real maybe_gc pacing keep a maximum heap that does not grow with the iteration count while completed cycles do. (c) Every history up to the bound of creating, running (1/50/all steps), servicing and dropping up to two runtimes over six programs (string constants, blocked tasks, running tasks at main's end, runtime error, pending host call, heap-heavy) returns the process's live heap bytes to the baseline once all runtimes are dropped.",
   "Bounds: listed programs, 2/3 cycles, histories of length <= 4/5, n up to 10^4/10^5; the differential bound of (b) is 1.25x + 64 bytes; the counting allocator and the H3 hooks are trusted.",
   "DESIGN.md §3 C07"),
 "C06": ("model_checking",
   "explicit-state BFS over the product of the real mutator and the real incremental collector (per-object mark/sweep micro-steps), invariant checked in every state",
   "For each program of a purpose-written family the search explores every interleaving of single VM instructions with single collector steps (start cycle, mark one grey object, sweep one object, per green thread, up to 2/3 cycles per thread) on the real VM in manual-GC + quarantine mode; an independent reachability walk must find no reclaimed reachable object in any state, no access may touch a reclaimed object, and every maximal path must produce the outcome of the collection-disabled run. Any real pacing is a coarsening of these micro-steps.",
   "Bounded: the listed programs (20-130 instructions each) and 2/3 cycles per thread; hooks H3 (feature verif) are trusted to call the real start_mark_phase/process_gray/sweep and to quarantine instead of free; state merging on (mutator step count, collector fingerprint) is checked at every merge.",
   "DESIGN.md §3 C06"),
 "C15": ("exploration",
   "exhaustive boundary-grid enumeration (operands x operators x operand forms) on the real compiler+VM against an i128 reference model",
   "Every pair from a 60-value boundary grid is crossed with every integer operator and every operand form (variable/literal on each side, compound assignment), plus unary minus; each case is compiled (dispatcher-batched) and run on the real VM in a fresh runtime and compared with exact i128 arithmetic followed by a range check.",
   "Grid, not all 2^128 pairs (small-scope hypothesis on boundary values); negative exponents of ^ are unspecified and not asserted; host-fed variables are assumed to defeat constant folding (the literal forms cover the folder).",
   "DESIGN.md §3 C15"),
 "C37": ("model_checking",
   "explicit-state BFS over operation histories of the real IdSet against a Vec model; every unit re-executed under AddressSanitizer",
   "All operation histories up to the bound (insert fresh/duplicate/long, clear, clone with original kept/dropped/cleared) on IdSet<T> for four element types are explored breadth-first with value-oblivious state merging; every transition is executed on the real structure and compared with a vector+lookup model, and the whole enumeration is repeated in an ASan build so any use-after-free or overflow inside an explored history aborts and is attributed to that history.",
   "Bounded depth (6 quick / 9 thorough), <=2 clones and <=2 clears per history; merging assumes obliviousness to element values beyond Hash/Eq; ASan and the nightly toolchain are trusted as the memory-safety monitor.",
   "DESIGN.md §3 C37"),
 "C38": ("model_checking",
   "exhaustive enumeration of allocation sequences on the real Arena with containment/alignment/overlap/read-back oracle; re-executed under AddressSanitizer",
   "Every allocation sequence up to the bound over ten (size,align) shapes from five initial capacities is run on the real arena; after each allocation the returned address is checked for alignment, containment in an arena buffer, disjointness from all earlier allocations and intact read-back of all earlier values; the same sequences are repeated in an ASan build.",
   "Bounded length (5 quick / 7 thorough); the read-only hook Arena::verif_buffers is trusted; values larger than 4096 bytes or alignments above 64 are not in the alphabet.",
   "DESIGN.md §3 C38"),
}

NOT_YET = "no check registered in this revision of /verif yet (planned in DESIGN.md §3; the engine module has not been built)"

def main():
    props = [json.loads(l) for l in open(os.path.join(ROOT, "properties.jsonl"))]
    hooks_commits = []
    try:
        out = subprocess.check_output(["git", "-C", "/repo", "log", "--format=%H %s"], text=True)
        hooks_commits = [l.split()[0] for l in out.splitlines() if l.split(" ", 1)[1].startswith("verif hooks")]
    except Exception:
        pass
    checks = []
    for p in props:
        pid = p["id"]
        if pid not in CHECKS:
            continue
        cat, tech, text, note, ref = CHECKS[pid]
        checks.append({
            "property_id": pid,
            "quick_cmd": f"./check {pid} quick",
            "thorough_cmd": f"./check {pid} thorough",
            "evidence_file": f"/verif/evidence/{pid}.json",
            "replay_cmd_template": f"./check {pid} --replay {{path}}",
            "engine": "engine",
            "level_claimed": {"category": cat, "text": text, "design_ref": ref},
            "level_note": note,
            "technique": tech,
        })
    na = [{"property_id": p["id"], "reason": NOT_YET} for p in props if p["id"] not in CHECKS]
    m = {
        "version": 1,
        "setup_cmd": "./check --build asan",
        "hooks": {
            "guard": "cargo feature `verif` on abra_core and utils (off by default; no shipped crate enables it)",
            "enable": "the engine crate depends on /repo/abra_core and /repo/utils by path with features=[\"verif\"]; ./check rebuilds it from /repo's working tree",
            "baseline_off_cmd": "cd /repo && cargo nextest run --workspace --no-fail-fast --test-threads 8 --offline || cargo test --workspace --no-fail-fast --offline",
            "source_commits": hooks_commits,
            "add_only": True,
        },
        "engines": [{
            "name": "engine",
            "path": "/verif/engine",
            "serves_properties": sorted(CHECKS),
            "kind_free_text": "Rust binary linking the real abra_core/utils (feature verif): bounded exhaustive exploration (explicit-state BFS over histories/schedules, deviation-bounded schedule exploration, small-scope universe enumeration against reference models), sharded over worker subprocesses so aborts are attributed to one case; AddressSanitizer build of the same binary for the unsafe containers",
        }],
        "checks": checks,
        "not_applicable": na,
        "notes": "Every check: `./check <ID> <tier>` builds /verif/engine against /repo's current working tree, explores, rewrites evidence/<ID>.json, prints VIOLATION/KNOWN-FINDING lines; exit 0 held, 1 violation, 2 machinery error. Known findings: /verif/known_findings.json.",
    }
    json.dump(m, open(os.path.join(ROOT, "MANIFEST.json"), "w"), indent=1)
    print(f"MANIFEST.json: {len(checks)} checks, {len(na)} not_applicable")

if __name__ == "__main__":
    main()
