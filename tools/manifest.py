#!/usr/bin/env python3
"""Regenerates /verif/MANIFEST.json from the table below (single source of truth for the interface)."""
import json, os, subprocess, sys
ROOT = os.path.dirname(os.path.dirname(os.path.abspath(__file__)))

# id -> (level category, technique, level text, level note, design ref)
CHECKS = {
 "C10": ("model_checking",
   "stateless deviation-bounded exploration of the embedder (budget per run_n_steps call, host-service delay) on the real runtime, all executions with <= 2 deviations, differential against the default embedder and a hand model",
   "For 63 programs (hand-modelled corpus with host calls, readline, runtime errors, final values and Kahn-style task programs, plus the collector and channel families) every execution with at most two departures from the default embedder (budget 1, immediate host service) is run to completion: a departure is one call with budget 0/2/3/5/64/1000 or leaving a pending host call unserviced for 1-3 further calls; uniform budgets 1..16, 64, 1000, MAX are added. Output, emits, final value, error kind and traceback must equal the default execution, which must equal the hand model.",
   "Bound of 2 deviations only for programs whose default run has <= 30 (quick) / 400 (thorough) calls, 1 otherwise; racing-writer programs are outside the family; u32::MAX budgets only for task-free programs (with a spinning task a huge budget is a multi-minute wait, not a different behaviour).",
   "DESIGN.md §3 C10"),
 "C11": ("model_checking",
   "the C10 deviation-bounded embedder exploration with a status-contract oracle evaluated at every run_n_steps return",
   "At every run_n_steps return of every explored execution: the number of VM instructions executed by the call (independent counter hook) is <= the budget and equals steps_consumed; for task-free programs the consumed steps sum to the default run's instruction count; completion or a runtime error is reported when main ends and persists on further calls, an error is never reported as completion; final value, output and the arguments received by host functions of arity 0-3 (called by name, through variables, as a callback and from an array element) equal the hand model and the host's return value is what the program observes.",
   "Same bounds as C10; hand-computed expectations in corpus.rs are the reference model.",
   "DESIGN.md §3 C11"),
 "C09": ("model_checking",
   "multi-thread product BFS (round-robin mutator steps x collector micro-steps on every green thread's heap, quarantine on task teardown) against a FIFO/exactly-once/copy-at-write channel model",
   "Twenty-six producer/consumer programs covering scalar and heap payloads, every timing relation between write, read, task end, mutation after write and collection, and several handles (tasks, the parent, a handle received over another channel) reading one channel in turn, and (under the unmodified runtime only) a writer whose collector frees written messages so that addresses are reused, are first run without collection and compared with the channel model, then explored exhaustively over all interleavings of mutator steps with collector steps of every thread (1/2 cycles per thread) in quarantine mode; no reachable object (including through queues) may be reclaimed, every maximal path must give the model's outcome, and no state beyond the collection-disabled run's step count may be unfinished (a collector step never changes the mutator's course).",
   "Bounded programs and cycles; the scheduler is the real deterministic round-robin (budgets cannot reorder tasks), host-call delays are C10's job; hooks H3 trusted.",
   "DESIGN.md §3 C09"),
 "C07": ("model_checking",
   "product BFS (mutator x collector micro-steps) with a precision monitor; exhaustive create/run/service/drop histories under a counting allocator; real-pacing allocation loops (one small object per iteration, scratch arrays, and bursts: a received message of hundreds of objects per instruction) with a differential-in-n oracle",
   "(a) In every explored schedule of the C06 product search, when a cycle finishes every object that was unreachable at its start has been reclaimed. (b) Allocation loops run under the real maybe_gc pacing keep a maximum heap that does not grow with the iteration count while completed cycles do. (c) Every history up to the bound of creating, running (1/50/all steps), servicing and dropping up to two runtimes over six programs (string constants, blocked tasks, running tasks at main's end, runtime error, pending host call, heap-heavy) returns the process's live heap bytes to the baseline once all runtimes are dropped.",
   "Bounds: listed programs, 2/3 cycles, histories of length <= 4/5, n up to 10^4/10^5; the differential bound of (b) is 1.25x + 64 bytes; the counting allocator and the H3 hooks are trusted.",
   "DESIGN.md §3 C07"),
 "C06": ("model_checking",
   "explicit-state BFS over the product of the real mutator and the real incremental collector (per-object mark/sweep micro-steps), invariant checked in every state",
   "For each program (a purpose-written family, generated heap programs, the move family: 6 store kinds x 4 ways of dropping the source reference x 2 declaration orders, and the wrap family: the moved object wrapped in a newly allocated variant / array / tuple / struct) the search explores every interleaving of single VM instructions with single collector steps (start cycle, mark one grey object, sweep one object, per green thread, up to 2/3 cycles per thread) on the real VM in manual-GC + quarantine mode; an independent reachability walk must find no reclaimed reachable object in any state, no access may touch a reclaimed object, and every maximal path must produce the outcome of the collection-disabled run. Any real pacing is a coarsening of these micro-steps.",
   "Bounded: the listed programs (20-130 instructions each) and 2/3 cycles per thread; hooks H3 (feature verif) are trusted to call the real start_mark_phase/process_gray/sweep and to quarantine instead of free; state merging on (mutator step count, collector fingerprint) is checked at every merge.",
   "DESIGN.md §3 C06"),
 "C15": ("exploration",
   "exhaustive boundary-grid enumeration (operands x operators x operand forms) on the real compiler+VM against an i128 reference model",
   "Every pair from a 60-value boundary grid is crossed with every integer operator and every operand form (variable/literal on each side, compound assignment), plus unary minus and its chains (-(-x), - - x, -(0 - x), -(-(-x))); each case is compiled (dispatcher-batched) and run on the real VM in a fresh runtime and compared with exact i128 arithmetic followed by a range check.",
   "Grid, not all 2^128 pairs (small-scope hypothesis on boundary values); negative exponents of ^ are unspecified and not asserted; host-fed variables are assumed to defeat constant folding (the literal forms cover the folder).",
   "DESIGN.md §3 C15"),
 "C37": ("model_checking",
   "explicit-state BFS over operation histories of the real IdSet against a Vec model; every unit re-executed under AddressSanitizer",
   "All operation histories up to the bound (insert fresh/duplicate/long, clear, clone with original kept/dropped/cleared) on IdSet<T> for four element types are explored breadth-first with value-oblivious state merging; every transition is executed on the real structure and compared with a vector+lookup model, and the whole enumeration is repeated in an ASan build so any use-after-free or overflow inside an explored history aborts and is attributed to that history.",
   "Bounded depth (6 quick / 9 thorough), <=2 clones and <=2 clears per history; merging assumes obliviousness to element values beyond Hash/Eq; ASan and the nightly toolchain are trusted as the memory-safety monitor.",
   "DESIGN.md §3 C37"),
 "C38": ("model_checking",
   "exhaustive enumeration of allocation sequences on the real Arena with containment/alignment/overlap/read-back oracle; re-executed under AddressSanitizer",
   "Every allocation sequence up to the bound over ten (size,align) shapes from five initial capacities is run on the real arena; after each allocation the returned address is checked for alignment, containment in an arena buffer, disjointness from all earlier allocations and intact read-back of all earlier values; the same sequences are repeated in an ASan build.",
   "Bounded length (5 quick / 7 thorough); the read-only hook Arena::verif_buffers is trusted; values larger than 4096 bytes or alignments above 64 are not in the alphabet.",
   "DESIGN.md §3 C38"),
}


def U(universe, oracle, bounds, ref, level="exploration", tech=None):
    tech = tech or ("small-scope exhaustive enumeration of " + universe.split(";")[0] + " on the real compiler/VM against a reference model")
    return (level, tech, universe + " Oracle: " + oracle, bounds, ref)

CHECKS.update({
 "C29": U("(a) 398 (quick) / 2,328 (thorough) generated programs whose token stream and statement boundaries are known from the generator's structured printer: EVERY single layout change (one of 12 block comments in every gap between two tokens (texts with stars, slashes, quotes, backslashes), one of 8 line comments at every line end (incl. trailing backslashes, `/*`, quotes), every statement separator as `;` (`,` between match arms), a blank line at every statement boundary, the body brace of a fn / while / for / if / match header moved to the next line / below a blank line / below a comment line; all pairs of changes on short programs in thorough); (b) the 12 (quick) / 60 (thorough) shortest repository corpus programs with a block comment before every token and a line comment at every line end;",
          "the compile verdict and the run observation (emits, output, end kind) equal those of the unchanged program.",
          "Deviation 1 (pairs only on short programs); comments containing a newline, and `,`/newline flips of list separators, are not generated; error line numbers are not compared.", "DESIGN.md §3 C29"),
 "C01": U("the shared program universe U-prog (typed generator: expression trees with tracing calls, statement lists with loops/break/continue/return, functions/recursion/lambdas, data with aliasing and void components, matches incl. arms that shadow an enclosing name, depth-2 string-operation expressions over prefix-related operands; 24 k programs quick / 270 k thorough) plus the strata S-empty (operations on empty/singleton arrays), S-task (tasks capturing every kind of value), S-jump (break/continue/return/? in every operand position) and S-voidvariant, each program under EVERY uniform budget in {1,2,3,7,64,MAX};",
          "the run ends normally or with one of the four documented runtime errors: no Rust panic, no type-tag fault, no internal error; an operand-stack leak monitor compares the final stack depth after running a case's body once and three times (as a function and inlined as a block).",
          "Bounded generator depth; `break`/`continue` out of an operand position is an open known finding confined to S-jump.", "DESIGN.md §3 C01"),
 "C02": U("the same universe U-prog (plus 398 / 2,328 of its programs as whole standalone programs);",
          "a deliberately naive reference interpreter of the documented semantics (left-to-right evaluation, short-circuit and/or, block scoping and shadowing, reference semantics of arrays/structs, capture by value, i128 arithmetic with range check, documented rendering) predicts printed output, host emits and the runtime-error kind; every model trace is replayed on the real compiler+VM.",
          "Where the manual is silent the model answers Unspecified and only 'no fault' is asserted (negative exponents, empty-array rendering, some array methods, tasks).", "DESIGN.md §3 C02", "model_checking",
          "exhaustive enumeration of a bounded typed program universe; every reference-model trace validated against the real compiler and VM"),
 "C04": U("the deviation <= 1 neighbourhood of a 217-program corpus (repository test programs, core modules, examples, non-ASCII programs): every prefix, single-token deletion, replacement by each of 44 (79) tokens, single-character insertion from a 9-character menu, adjacent-token swap; semantic error mutations; all token strings of length <= 2 (quick) / 3 (thorough); deviation 2 on the 3 shortest files (thorough); quick = 34 shortest files; plus four structured product families (parameter lists with repeated names and defaults x calls; implementation target x interface x use; generic payloads instantiated to void x arm lists; 27 bracketing constructs nested up to 64 / 128 deep);",
          "check() and compile_bytecode() return a program or rendered diagnostics: no panic, no abort, no run-away (CPU watchdog 20 s per text).",
          "A neighbourhood of real programs, not all UTF-8 strings; texts that make the type checker build a cyclic type (no occurs check) are open known findings listed by input.", "DESIGN.md §3 C04"),
 "C05": U("(a) every program of U-prog compiled with and without the peephole optimizer (hook); (b) the operand grid: 57 boundary ints and 38 boundary floats x 12 operators x 6 operand forms (literal/variable on each side, compound assignment), optimizer on and off;",
          "identical output, emits, end kind and error traceback between the two builds, identical outcome across the operand forms of one (op, a, b), and agreement with the C15 integer model.",
          "Same bounds as C01/C02; S-jump known finding applies.", "DESIGN.md §3 C05", "translation_validation",
          "translation validation over an exhaustively enumerated program universe and operand grid: optimized vs unoptimized bytecode and literal vs variable operand forms must be observationally equal"),
 "C33": U("1,849 (quick) / ~16 k (thorough) erroneous programs obtained by every applicable single error mutation (undefined name, wrong-typed literal, deleted arm, assignment to let, dropped/added/unknown-named argument, unknown field, deleted token, bad escape) of corpus programs x up to 10 variants placing non-ASCII text before the site (earlier lines, same line, inside the same string literal before the site, and as the escaped character itself);",
          "every diagnostic's primary range lies within the file, on UTF-8 character boundaries, covers the same characters as in the ASCII twin of the text (differential, no hand-written expectations), is bracket-balanced when it spans several tokens of a syntactically well-formed text (a construct never cuts through a bracket pair; plus a generated family of erroneous expressions with parenthesised operands), names the right file and place in five two-file programs (interface / function / type declared in an imported file or the prelude), and intersects the mutated site where that is unambiguous.",
          "Secondary labels are only counted; texts on which analysis panics belong to C04.", "DESIGN.md §3 C33"),
 "C34": U("the C04 neighbourhood x EVERY byte offset 0..=len+1 (including offsets inside multi-byte characters) x {errors, definition_at, type_at, completions_at} on check_lsp;",
          "no panic, no abort, no run-away in the analysis or in any query.",
          "quick = 32 shortest files (3.2 M queries), thorough = 194 files (236 M queries); cyclic-type texts are open known findings listed by input.", "DESIGN.md §3 C34"),
 "C08": U("176 programs: 26 captured shapes (array, struct, tuple, enum value, string, closure, and each data kind nested once inside array / struct field / tuple / enum payload) x mutation by the task x mutation or reassignment by the spawner after the spawn, both sides observed through channels, plus captured channels (must stay shared); each under uniform budgets 1,2,3,7,64,1000 and ALL embedder executions with <= 1 (quick) / 2 (thorough) deviations;",
          "deep copy at spawn: the task's view reflects only its own mutation, the spawner's view only its own; channels are shared.",
          "Tasks spawned at top level; nesting depth 2.", "DESIGN.md §3 C08", "model_checking",
          "enumeration of capture shapes x mutation patterns, each explored under all embedder schedules with a bounded number of deviations on the real runtime, against a copy-at-spawn model"),
 "C17": U("all 22x22 ordered pairs over a structured string set (empty, prefix/extension, first difference at first/middle/last byte of 40 bytes, two opposite differences within one 8-byte stretch, NUL, multi-byte UTF-8), each evaluating `..` and the six comparisons, each followed by a different operation on a fixed prefix-related probe pair, in 3 (quick) / 5 (thorough) operand forms under uniform budgets 1,2,3,7,64,MAX; all embedder executions with <= 1 deviation; a collection cycle started at EVERY instruction boundary and completed 0,1 (quick) / 0,1,2,5,end (thorough) steps later;",
          "Rust byte-wise concatenation and lexicographic order; no reclaimed object reachable or touched in any state.",
          "Structured set instead of random strings; the full mutator x collector interleaving search for string temporaries is part of C06.", "DESIGN.md §3 C17", "model_checking",
          "exhaustive pairs x operand forms under enumerated budget schedules (uniform and deviation-bounded) and enumerated collection windows driven through the schedulable-collector hooks"),
 "C03": U("all programs `context^k x payload` (k <= 2 quick / 3 thorough; contexts fn, member fn, lambda, task, while, for, match arm, if, operand block, while-condition block, for-iterable block, if-condition block, match-scrutinee block; 29 payload kinds incl. break/continue/return/?/!, assignments to outer variables/fields/elements/user-Index, element and field assignments whose index expression binds a name, tasks, lambdas, scrutinee-only uses, user Num operators), each compiled standalone;",
          "check() gives diagnostics, or check() is Ok and compile_bytecode() is Ok and the program runs under budget 1 without a VM fault; a sanity guard requires the no-op payload to be accepted in every context.",
          "Bounded nesting depth; four constructs the checker lets through but the translator does not implement are open known findings keyed by payload kind + failure class (known_findings.json).", "DESIGN.md §3 C03"),
 "C12": U("all arm lists up to length 2-3 (quick) / 2-4 (thorough) over 5-58 patterns for each of 24 scrutinee types (bool, void, int/float/string literals incl. several spellings of one float value, tuples, structs incl. void field, three fields and generic, enums with positional/named/void payloads, option, nested option, result, option<void>, result<void, bool>, a tuple containing a struct, a struct containing a struct, a user generic whose parameter sits two constructors deep), plus cover lists, matches nested in arm bodies / scrutinees / task blocks;",
          "brute-force matcher over the finite value domain: an accepted match has an arm for every value (also at run time, every value fed to the compiled match); a match reported non-exhaustive has an unmatched value and every listed witness covers one.",
          "Bounded pattern depth 2 and arm-list length; verdicts are read per match from check_lsp diagnostics by byte range (cross-checked on every 40th case standalone).", "DESIGN.md §3 C12-C14", "model_checking",
          "exhaustive enumeration of (type, arm list) states and (arm list, value) transitions; the real checker's verdict and the compiled match compared with a brute-force matcher on every one"),
 "C13": U("the C12 universe of (type, arm list) pairs including alternative spellings of equal float literals;",
          "the set of arms the checker reports redundant equals the set of arms no value reaches first in the brute-force model.",
          "Same bounds as C12.", "DESIGN.md §3 C12-C14", "model_checking",
          "exhaustive enumeration of (type, arm list) states; the real checker's redundancy verdict compared with a brute-force reachability model on every one"),
 "C14": U("the C12 universe of accepted matches x every value of the scrutinee type, plus 906 let/var/for destructuring cases over 11 product types;",
          "the compiled code runs the first matching arm and every binding (or-pattern sides, named/positional fields, nested tuples, void components) equals the model's.",
          "Same bounds as C12.", "DESIGN.md §3 C12-C14"),
 "C16": U("the float boundary set F (38 quick / 105 thorough values incl. +-0, subnormals, 2^53 neighbours, +-MAX, +-inf, NaNs) crossed with + - * / ^, six comparisons, 13 unary intrinsics, atan2, pow, conversions, in six operand forms (host-fed variables, literals, compound assignment; optimizer on/off);",
          "Rust f64 bit-exact (observed through the host as bits); division by +-0.0 must raise division by zero in every form; comparisons must satisfy the total-order laws and agree across forms.",
          "Grid not all pairs; transcendental functions are compared with the same std functions (plumbing, not libm accuracy); int_from_float outside (-2^63,2^63) and round ties unspecified.", "DESIGN.md §3 C16"),
 "C18": U("all parameter lists of arity <= 2 (quick) / 3 (thorough) with every subset of defaults x 7 callee forms (free fn, method, qualified method, static method, struct constructor, variant constructor, leading-dot variant) x every valid call shape (positional prefix + named rest in any order, defaults omitted) x 3 tracing strata, plus every single-edit misuse shape, plus a default expression naming a global that a parameter of the same function shadows (filled in for a recursive call);",
          "valid shapes behave as the positional call with defaults filled in (arguments traced in parameter order); misuse shapes get a diagnostic, never a panic or silent acceptance.",
          "Bounded arity; 'too many positional arguments' is recorded, not asserted (not in the statement's misuse list).", "DESIGN.md §3 C18"),
 "C19": U("all programs with lambda nesting depth 2 (quick) / 3 (thorough), 0-2 captured variables with every set of reading levels, every reassignment pattern (before creation / between creation and call / between calls), two roots (function body, top level), each lambda called twice, plus 12 read forms and 5 inner-block bindings named like the capture, each in 2 roots x 2 depths;",
          "capture by value at creation, fresh locals per invocation.", "Bounded depth and two variables per program.", "DESIGN.md §3 C19"),
 "C20": U("the full table of 15 binding forms x 6 assignment operators x 3 targets (variable, field, element) (x nested-if position in thorough), each program compiled standalone;",
          "let forms and lambda captures are rejected with a diagnostic; var, element and field targets are accepted with the modelled effect; other forms are rejected or accepted with the plain effect; never a panic.",
          "int-typed targets only.", "DESIGN.md §3 C20"),
 "C21": U("all import layouts of three files (7 x 7 import forms x main's own declaration) with positive/negative/clash programs, plus all nests of <= 2 (quick) / 3 (thorough) scopes from block/if/while/for/arm/lambda with every let-before/after pattern, plus the sibling-scope family (a name bound in one arm / branch / block / loop / lambda must not be visible in a later sibling; a binding inside a lambda body shadowing its capture);",
          "a model resolver predicts the chosen declaration (observed by its tag), an unresolved-identifier diagnostic, or a clash diagnostic; an environment-stack model predicts every read in nested scopes.",
          "Bounded file/name counts; importing a name the file lacks, same-scope redeclaration and unaliased fully qualified names are unspecified.", "DESIGN.md §3 C21"),
 "C22": U("33 generic functions (incl. lambdas and tasks that capture values of the generic type, and interface methods passed as function values) x all ordered pairs of 10 (quick) / 21 (thorough) instantiation types satisfying their constraints, plus direct operator / for / index uses on user types, interfaces implemented with their methods written in every other order, generic functions instantiated at void next to another type, and a three-file program in which two modules declare a type of the same name;",
          "differential: each generic call must produce the same trace (tags emitted by the user implementations + rendered results) as its hand-monomorphised copy, and no tag of a foreign type may appear.",
          "Bounded type list; generics over Iterable cannot be written on this tree; `c[i] += v` through a user Index is an open known finding.", "DESIGN.md §3 C22"),
 "C23": U("2 carriers x (?, !) x success/failure x 4 parameter lists of the enclosing function (1, 3, with a void parameter, with a generic parameter instantiated to void) x 30 syntactic positions (statement, let, operands at pending depth 1-4, call arguments, array/tuple/struct elements, index, conditions, scrutinee, loop bodies, assignments, lambda body) with a trace emit after every statement;",
          "`e?` yields the payload or returns none/err at once without running the rest; `e!` yields the payload or stops with a panic error.", "Bounded positions.", "DESIGN.md §3 C23"),
 "C24": U("all unordered pairs and (on subsets) ordered triples of values of bool, void, 28 small tuple types, arrays of length <= 2, a 57-value int grid, 17 strings, 20 floats (incl. NaNs, +-0, +-inf), in up to 5 operand forms;",
          "the truth tables emitted by the real operators must satisfy reflexivity/symmetry/transitivity of ==, != = not ==, trichotomy, <= / >= consistency, transitivity of <, and equal => equal hash (per interface actually implemented).",
          "Triples on <= 12-value subsets; no reference order imposed.", "DESIGN.md §3 C24"),
 "C25": U("(a) the text of sort_by/insertion_sort_by/merge_by cut from the working tree's prelude, instantiated with RUN=2 (1,3 in thorough): ALL arrays of length <= 7 (quick) / 9 (thorough) over {0,1,2} with stability tags; (b) the unmodified prelude through sort/sort_by/sort_by_key at lengths around every multiple of RUN=32 over structured families (sorted, reversed, rotations, organ pipe, all 0/1 counts, every single displacement);",
          "Rust stable sort by key, element for element.", "(b) is exhaustive over the stated families only; the algorithm is assumed parametric in RUN.", "DESIGN.md §3 C25"),
 "C26": U("breadth-first search over array operation histories (84 ops: push/pop/len/get/set/swap/remove/clear/find/contains/clone-then-mutate/iterate/filled, indices in {-1,0,1,2,len-1,len}) for element types int/string/array<int>/void from three start states, depth 5 (quick) / 8 (thorough), plus literal-index straight-line programs;",
          "Vec model compared after every step (result, len, every element); out-of-range access and pop on empty must stop with a clean runtime error.",
          "States merged on the model list (capacity unobservable); remove is modelled as swap-remove (order-preserving also accepted).", "DESIGN.md §3 C26", "model_checking",
          "explicit-state BFS over operation histories; every transition replays its history on the real VM and is compared with a Vec model"),
 "C27": U("breadth-first search over map/set operation histories in 14 families (colliding int keys, boundary keys incl. MIN, a constant-hash user key, strings; resize and slot-reuse start states), depth 3-6 (quick) / 4-8 (thorough), full probe of every key after every op;",
          "Rust HashMap/HashSet on every step; get / m[k] of a missing key stops with a panic error.",
          "States merged on (structural event sequence, contents); depth 9 on >= 5-key alphabets not reached.", "DESIGN.md §3 C27", "model_checking",
          "explicit-state BFS over operation histories of core/map and core/set (read from the working tree), every transition executed on the real VM against a HashMap/HashSet model"),
 "C28": U("all values of nested built-in types of depth <= 3 (int incl. MIN and MAX/bool/void/string incl. non-ASCII text/array/tuple 2-4/option/result, containers of size 0-2) rendered through `..` on both sides, .str(), ToString.str, print and println;",
          "model printer from the property statement (decimal ints, true/false, nil, verbatim strings, `[ a, b ]`, `(a, b)`, some(x)/none, ok(x)/err(e)).",
          "Floats not asserted; the empty array's spelling is only required to be consistent.", "DESIGN.md §3 C28"),
 "C30": U("integer literal spellings (boundary grid, every `_` placement, negated, leading zeros, 26 out-of-range spellings), float spellings (all I.F with <= 3/4 digits, round-half families of 17-20 digits, 300-400 digit strings), all strings of length <= 3 (quick) / 4 (thorough) over a 13-character menu in single, double and triple quotes, every \\xHH escape below 0x80 in every letter-case spelling, multi-line layouts (every 1-3 content-line layout slice: indent x line menu x residue x closer);",
          "ints decimal; floats = correctly rounded binary64 (str::parse cross-checked by an exact-decimal bracket); strings byte-exact through the host; out-of-range literals give a diagnostic.",
          "Multi-line indentation rules are asserted only where the repository's own multiline_string tests pin them; other layouts assert only that no content character is lost.", "DESIGN.md §3 C30"),
 "C31": U("all typed expression trees of depth <= 3 over the 15 binary and 2 prefix operators with variable / literal / negative-literal leaves, printed with minimal parentheses for the documented table and round-tripped through a reference Pratt parser;",
          "value of the tree under a model evaluator using the documented precedence table and left associativity.",
          "The stratum 'negative literal directly followed by % or ^' is an open known finding; a prefix minus on a non-literal operand groups by the documented table also when it is the right operand of a tighter operator (a * -b / c = a * (-(b / c))).", "DESIGN.md §3 C31"),
 "C32": U("call chains of depth <= 2 (quick) / 3 (thorough) over named functions, methods and lambdas spread over three files, five failing operations placed at every statement position, calls with and without arguments, with 0/1/5/40 non-ASCII characters (and 4-byte characters) above the site; plus the statement-layout family (the failing operation on its own line below `let v =` / `v =`, after a comment line, or inside a block initialiser);",
          "error kind, then file:line and function of the failing statement, then the call site of every active call, innermost first (the generator knows every line it emitted).",
          "For `!` on none one leading prelude frame is allowed.", "DESIGN.md §3 C32"),
 "C35": U("all nests of <= 2 (quick) / 3 (thorough) scopes (block, fn, lambda, match arm, for) x 1-2 names x every shadowing pattern, each binding initialised with a distinct constant and each use emitted; definition_at queried at every byte of every use; 82 hover programs; 27 member-name programs (struct fields in patterns / constructor arguments / accesses in every order, enum variants, named function arguments, member functions) with go-to-definition at every byte of every marked use; 7 programs with hover on uses of generic functions (the instantiated type);",
          "behavioural ground truth: the constant the compiled program printed names the binding used; definition_at must return that binding's range and type_at the expected type string.",
          "Hover strings asserted only for forms pinned by the repository's lsp tests.", "DESIGN.md §3 C35"),
 "C36": U("echo functions for every type of depth <= 1 (quick) / 2 (thorough) over int/float/bool/string/void/array/tuples/option/result/#host structs and enums (incl. void fields), 289 two-argument swap functions, value grids of 2-3 boundary values per leaf; the bindings are generated from the working tree and compiled into a scratch crate at check time;",
          "the host receives exactly the Rust value corresponding to the Abra value and Abra gets back exactly what the host returned (compared structurally on both sides).",
          "Needs a ~40 s build of the generated crate per /repo revision; bounded type depth.", "DESIGN.md §3 C36"),
})

NOT_YET = "no check registered in this revision of /verif yet (planned in DESIGN.md §3; the engine module has not been built)"

def main():
    props = [json.loads(l) for l in open(os.path.join(ROOT, "properties.jsonl"))]
    hooks_commits = []
    try:
        out = subprocess.check_output(["git", "-C", "/repo", "log", "--format=%H %s"], text=True)
        hooks_commits = [l.split()[0] for l in out.splitlines() if l.split(" ", 1)[1].startswith("verif hooks")]
    except Exception:
        pass
    checks = []
    for p in props:
        pid = p["id"]
        if pid not in CHECKS:
            continue
        cat, tech, text, note, ref = CHECKS[pid]
        checks.append({
            "property_id": pid,
            "quick_cmd": f"./check {pid} quick",
            "thorough_cmd": f"./check {pid} thorough",
            "evidence_file": f"/verif/evidence/{pid}.json",
            "replay_cmd_template": f"./check {pid} --replay {{path}}",
            "engine": "engine",
            "level_claimed": {"category": cat, "text": text, "design_ref": ref},
            "level_note": note,
            "technique": tech,
        })
    na = [{"property_id": p["id"], "reason": NOT_YET} for p in props if p["id"] not in CHECKS]
    m = {
        "version": 1,
        "setup_cmd": "./check --build asan",
        "hooks": {
            "guard": "cargo feature `verif` on abra_core and utils (off by default; no shipped crate enables it)",
            "enable": "the engine crate depends on /repo/abra_core and /repo/utils by path with features=[\"verif\"]; ./check rebuilds it from /repo's working tree",
            "baseline_off_cmd": "cd /repo && cargo nextest run --workspace --no-fail-fast --test-threads 8 --offline || cargo test --workspace --no-fail-fast --offline",
            "source_commits": hooks_commits,
            "add_only": True,
        },
        "engines": [{
            "name": "engine",
            "path": "/verif/engine",
            "serves_properties": sorted(CHECKS),
            "kind_free_text": "Rust binary linking the real abra_core/utils (feature verif): bounded exhaustive exploration (explicit-state BFS over histories/schedules, deviation-bounded schedule exploration, small-scope universe enumeration against reference models), sharded over worker subprocesses so aborts are attributed to one case; AddressSanitizer build of the same binary for the unsafe containers",
        }],
        "checks": checks,
        "not_applicable": na,
        "notes": "Every check: `./check <ID> <tier>` builds /verif/engine against /repo's current working tree, explores, rewrites evidence/<ID>.json, prints VIOLATION/KNOWN-FINDING lines; exit 0 held, 1 violation, 2 machinery error. Known findings: /verif/known_findings.json.",
    }
    json.dump(m, open(os.path.join(ROOT, "MANIFEST.json"), "w"), indent=1)
    print(f"MANIFEST.json: {len(checks)} checks, {len(na)} not_applicable")

if __name__ == "__main__":
    main()
