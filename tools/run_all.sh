#!/bin/bash
# tools/run_all.sh <quick|thorough> [ids...]  — runs the registered checks, prints one line each
cd "$(dirname "$0")/.."
TIER="${1:-quick}"; shift
IDS="$@"
[ -z "$IDS" ] && IDS=$(python3 -c "import json; print(' '.join(c['property_id'] for c in json.load(open('MANIFEST.json'))['checks']))")
for id in $IDS; do
  s=$(date +%s)
  out=$(./check $id $TIER 2>&1); rc=$?
  e=$(date +%s)
  echo "$id rc=$rc $((e-s))s | $(echo "$out" | grep -E "^$id " | tail -1) $(echo "$out" | grep -c '^VIOLATION') viol-lines $(echo "$out" | grep -c '^KNOWN-FINDING') known-lines $(echo "$out" | grep -c 'MACHINERY')"
done
