#!/usr/bin/env python3
"""Assembles /verif/DESIGN.md from DESIGN_part1.md (as built; seeded-change table generated from seeded/*/meta.json)
and DESIGN_part2.md (the original plan)."""
import json, glob, os
R = os.path.dirname(os.path.dirname(os.path.abspath(__file__)))
rows = ["| seeded change (property) | what was changed | needs to manifest | detected by | strengthening needed |", "|---|---|---|---|---|"]
for d in sorted(glob.glob(R + "/seeded/*/")):
    try: m = json.load(open(d + "meta.json"))
    except Exception: continue
    c = m.get("confirmed", {})
    cut = lambda s, n: (s or "").replace("\n", " ").replace("|", "/")[:n]
    rows.append(f"| {os.path.basename(d[:-1])} | {cut(m.get('summary'), 260)} | {cut(m.get('needs_to_manifest'), 160)} | {cut(c.get('detected_by'), 220)} | {cut(c.get('note'), 260) or 'none'} |")
p1 = open(R + "/DESIGN_part1.md").read().replace("SEEDED_TABLE_PLACEHOLDER", "\n".join(rows))
open(R + "/DESIGN.md", "w").write(p1 + "\n\n---\n\n" + open(R + "/DESIGN_part2.md").read())
print("DESIGN.md written,", len(rows) - 2, "seeded changes")
