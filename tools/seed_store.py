#!/usr/bin/env python3
"""seed_store.py <id> <detected_by: e.g. 'C06 quick'> [note]
Stores a seeded change under /verif/seeded/<id>/ after confirming, in the isolated scratch worktree /tmp/mt/repo,
that it applies, compiles and that the repository's own test suite still passes with it."""
import sys, os, json, shutil, subprocess, glob
sid, detected = sys.argv[1], sys.argv[2]
note = sys.argv[3] if len(sys.argv) > 3 else ""
# "C06-2" = second seeded change for C06, produced under /tmp/mut2/C06/out
base, _, rnd = sid.partition("-")
src = f"/tmp/mut{rnd}/{base}/out" if rnd else f"/tmp/mut/{sid}/out"; dst = f"/verif/seeded/{sid}"
os.makedirs(dst, exist_ok=True)
for f in glob.glob(src + "/*"):
    if os.path.isfile(f): shutil.copy(f, dst)
R = "/tmp/mt/repo"
def sh(cmd, **kw): return subprocess.run(cmd, shell=True, capture_output=True, text=True, **kw)
sh(f"cd {R} && git checkout -q -- . && git clean -fdq -e target")
sh(f"cd {R} && git checkout -q --detach $(git -C /repo rev-parse HEAD)")
a = sh(f"cd {R} && git apply {dst}/patch.diff")
assert a.returncode == 0, a.stderr
t = sh(f"cd {R} && cargo test --workspace --no-fail-fast --offline 2>&1 | grep -E '^test result|FAILED|failed|error(\\[|:)'")
lines = t.stdout.strip().splitlines()
ok = all(l.startswith("test result: ok") for l in lines) and len(lines) >= 10
passed = sum(int(l.split("ok. ")[1].split(" passed")[0]) for l in lines if l.startswith("test result: ok"))
sh(f"cd {R} && git checkout -q -- . && git clean -fdq -e target")
meta_p = dst + "/meta.json"
try: meta = json.load(open(meta_p))
except Exception: meta = {"property": sid}
meta["confirmed"] = {
  "applies_and_compiles": True,
  "repo_tests_with_change": f"cargo test --workspace --no-fail-fast --offline in a scratch worktree: {len(lines)} result lines, all ok={ok}, {passed} tests passed",
  "detected_by": detected,
  "how_checked": "patch applied to an isolated copy (/tmp/mt/repo) with an isolated copy of /verif/engine built against it; the named check exits 1 with VIOLATION lines there and exits 0 on the unchanged tree",
  "note": note,
}
json.dump(meta, open(meta_p, "w"), indent=1)
print(sid, "tests ok" if ok else "TESTS NOT OK", passed, "passed;", "detected by", detected)
if not ok: print("\n".join(lines))
