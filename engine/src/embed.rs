//! Deviation-bounded exploration of the embedder.
//!
//! The embedder's environment choices are (a) the step budget passed to each `Runtime::run_n_steps`
//! call and (b) for how many further calls a pending host call is left unserviced. The default
//! embedder uses budget 1 and services at once. An execution is a sequence of choice points; the
//! explorer enumerates ALL executions with at most `bound` departures from the default (stateless,
//! no state merging, executions always run to completion), following the scheme of CHESS-style
//! iterative deviation bounding.

use crate::drive::{self, Emit, End, Input, PanicInfo, StdHost, Top};
use abra_core::verif::CompiledProgram;
use abra_core::vm::{Runtime, RuntimeStatusKind};

/// Budgets offered at a deviation. No u32::MAX here: with a spinning (channel-blocked) task in the run
/// queue, `run_n_steps(k)` only returns a pending host call of another thread after k steps, so a
/// huge budget is an (embedder-chosen) multi-minute wait, not a different behaviour.
pub const BUDGET_ALTS: [u32; 7] = [1, 0, 2, 3, 5, 64, 1000];
pub const DELAY_ALTS: [u32; 4] = [0, 1, 2, 3];

#[derive(Clone, Copy, Debug, PartialEq, Eq)]
pub enum PointKind {
    Budget,
    Delay,
}

#[derive(Clone, Debug, PartialEq)]
pub struct CallRec {
    pub budget: u32,
    pub consumed: u32,
    /// "done" | "pending" | "out-of-steps" | "error:<kind>"
    pub status: String,
}

#[derive(Clone, Debug, PartialEq)]
pub struct Observation {
    pub end: End,
    pub emits: Vec<Emit>,
    pub out: String,
    pub err: String,
    pub top: Top,
    /// (host function name, rendered arguments) of every serviced host call, in service order
    pub host_calls: Vec<String>,
}

pub struct Execution {
    pub choices: Vec<u8>,
    pub kinds: Vec<PointKind>,
    pub calls: Vec<CallRec>,
    pub obs: Observation,
    pub total_steps: u64,
    /// violations of the status contract observed during this execution (C11)
    pub status_problems: Vec<String>,
}

pub struct EProg {
    pub name: String,
    pub text: String,
    pub compiled: CompiledProgram,
    pub table: Vec<String>,
    pub inputs: Vec<Input>,
    pub lines: Vec<String>,
    /// true when the program starts no task (total step count is then schedule independent)
    pub single_thread: bool,
}

fn status_name(k: &RuntimeStatusKind) -> String {
    match k {
        RuntimeStatusKind::Done => "done".into(),
        RuntimeStatusKind::PendingHostFunc => "pending".into(),
        RuntimeStatusKind::OutOfSteps => "out-of-steps".into(),
        RuntimeStatusKind::MainThreadError(e) => drive::classify_error(&format!("{e}")).class(),
    }
}

/// Run one execution: `prefix` gives the choice at the first points, every later point takes the
/// default (choice 0). A prefix choice out of range is a machinery error (panic).
pub fn execute(p: &EProg, prefix: &[u8], step_cap: u64) -> Execution {
    abra_core::verif::set_gc_manual(false);
    abra_core::verif::set_quarantine(false);
    let mut rt = Runtime::new(p.compiled.clone());
    let mut host = StdHost::default();
    host.inputs = p.inputs.iter().cloned().collect();
    host.lines = p.lines.iter().cloned().collect();
    let mut choices: Vec<u8> = vec![];
    let mut kinds: Vec<PointKind> = vec![];
    let mut calls: Vec<CallRec> = vec![];
    let mut problems: Vec<String> = vec![];
    let mut total: u64 = 0;
    let mut host_calls: Vec<String> = vec![];
    let mut choose = |kind: PointKind, n_alts: usize, choices: &mut Vec<u8>, kinds: &mut Vec<PointKind>| -> usize {
        let i = choices.len();
        let c = if i < prefix.len() { prefix[i] } else { 0 };
        assert!((c as usize) < n_alts, "replay divergence: choice {c} out of range at point {i}");
        choices.push(c);
        kinds.push(kind);
        c as usize
    };
    let r: Result<End, PanicInfo> = drive::catch(|| {
        let mut pending_delay: Option<u32> = None;
        let mut ended: Option<End> = None;
        let mut after_end_calls = 0;
        loop {
            let budget = if ended.is_some() { 1 } else { BUDGET_ALTS[choose(PointKind::Budget, BUDGET_ALTS.len(), &mut choices, &mut kinds)] };
            let executed_before = abra_core::verif::instr_count();
            let st = rt.run_n_steps(budget);
            let executed = abra_core::verif::instr_count() - executed_before;
            total += st.steps_consumed as u64;
            // step accounting against the independent instruction counter (hook): a budget of k executes
            // at most k instructions, and steps_consumed is the number of instructions this call executed
            if executed > budget as u64 {
                problems.push(format!("call #{}: budget {budget} but {executed} instructions were executed", calls.len() + 1));
            }
            if executed != st.steps_consumed as u64 {
                problems.push(format!("call #{}: {executed} instructions were executed but steps_consumed reports {}", calls.len() + 1, st.steps_consumed));
            }
            let name = status_name(&st.kind);
            calls.push(CallRec { budget, consumed: st.steps_consumed, status: name.clone() });
            if st.steps_consumed > budget {
                problems.push(format!("call #{}: budget {budget} but steps_consumed {}", calls.len(), st.steps_consumed));
            }
            if ended.is_none() {
                // truthfulness at the moment main ends (read-only hooks): completion / the error must be
                // reported by THIS call, whatever other tasks are doing (running, blocked, pending host call)
                let main_finished = rt.verif_main_finished();
                let main_error = !main_finished && rt.main().get_error().is_some();
                if main_finished && name != "done" {
                    problems.push(format!("call #{}: main has finished but run_n_steps reported `{name}`", calls.len()));
                }
                if main_error && !name.starts_with("error") {
                    problems.push(format!("call #{}: main stopped with a runtime error but run_n_steps reported `{name}`", calls.len()));
                }
                if (main_finished && name != "done") || (main_error && !name.starts_with("error")) {
                    // do not keep driving a runtime whose status is already wrong
                    return if main_finished { End::Done } else { End::StepCap };
                }
            }
            if let Some(e) = &ended {
                // the reported status must stay what it was
                if name != e.class() {
                    problems.push(format!("call #{} after the end reports `{name}`, expected `{}` to persist", calls.len(), e.class()));
                }
                after_end_calls += 1;
                if after_end_calls >= 2 {
                    return e.clone();
                }
                continue;
            }
            match st.kind {
                RuntimeStatusKind::Done => ended = Some(End::Done),
                RuntimeStatusKind::MainThreadError(e) => ended = Some(drive::classify_error(&format!("{e}"))),
                RuntimeStatusKind::PendingHostFunc => {
                    let d = match pending_delay {
                        Some(d) => d,
                        None => DELAY_ALTS[choose(PointKind::Delay, DELAY_ALTS.len(), &mut choices, &mut kinds)],
                    };
                    if d == 0 {
                        pending_delay = None;
                        // record what the pending calls expose, then service them
                        for th in rt.iter_threads_mut() {
                            if let Some(id) = th.get_pending_host_func() {
                                let fname = p.table.get(id as usize).cloned().unwrap_or_else(|| format!("#{id}"));
                                let before = (host.emits.len(), host.out.len(), host.err.len());
                                host.service(&fname, th);
                                let arg = if host.emits.len() > before.0 {
                                    format!("{:?}", host.emits.last().unwrap())
                                } else if host.out.len() > before.1 {
                                    format!("{:?}", &host.out[before.1..])
                                } else if host.err.len() > before.2 {
                                    format!("{:?}", &host.err[before.2..])
                                } else {
                                    String::new()
                                };
                                host_calls.push(format!("{fname}({arg})"));
                            }
                        }
                    } else {
                        pending_delay = Some(d - 1);
                    }
                }
                RuntimeStatusKind::OutOfSteps => {}
            }
            if total > step_cap {
                return End::StepCap;
            }
        }
    });
    match r {
        Ok(end) => {
            let top = if end == End::Done { drive::decode_top(&rt) } else { Top::None };
            let d = drive::catch(move || drop(rt));
            let end = match d {
                Ok(()) => end,
                Err(p) => End::Fault(p),
            };
            Execution {
                choices,
                kinds,
                calls,
                obs: Observation { end, emits: host.emits, out: host.out, err: host.err, top, host_calls },
                total_steps: total,
                status_problems: problems,
            }
        }
        Err(pi) => {
            std::mem::forget(rt);
            Execution {
                choices,
                kinds,
                calls,
                obs: Observation { end: End::Fault(pi), emits: host.emits, out: host.out, err: host.err, top: Top::None, host_calls },
                total_steps: total,
                status_problems: problems,
            }
        }
    }
}

fn n_alts(k: PointKind) -> usize {
    match k {
        PointKind::Budget => BUDGET_ALTS.len(),
        PointKind::Delay => DELAY_ALTS.len(),
    }
}

/// Enumerate every execution with at most `bound` deviations. `visit` gets each execution once.
/// Returns (executions, true if the execution cap was hit).
pub fn explore(p: &EProg, bound: usize, step_cap: u64, exec_cap: u64, visit: &mut dyn FnMut(&Execution)) -> (u64, bool) {
    let mut count = 0u64;
    let mut capped = false;
    // work list of (prefix, deviations used so far)
    let mut work: Vec<(Vec<u8>, usize)> = vec![(vec![], 0)];
    while let Some((prefix, used)) = work.pop() {
        if count >= exec_cap {
            capped = true;
            break;
        }
        let x = execute(p, &prefix, step_cap);
        count += 1;
        if std::env::var("VERIF_DEBUG").is_ok() && count % 1000 == 1 {
            eprintln!("explore {}: exec #{count} prefix_len={} points={} steps={} work={}", p.name, prefix.len(), x.choices.len(), x.total_steps, work.len());
        }
        visit(&x);
        if used >= bound {
            continue;
        }
        // branch at every point after the prefix
        for i in prefix.len()..x.choices.len() {
            for alt in 1..n_alts(x.kinds[i]) {
                let mut pf: Vec<u8> = x.choices[..i].to_vec();
                pf.push(alt as u8);
                work.push((pf, used + 1));
            }
        }
    }
    (count, capped)
}

/// Uniform schedules: every call uses the same budget k (default delay).
pub fn execute_uniform(p: &EProg, k: u32, step_cap: u64) -> Execution {
    // a uniform budget is a deviation at every point; run it directly
    abra_core::verif::set_gc_manual(false);
    abra_core::verif::set_quarantine(false);
    let host = {
        let mut h = StdHost::default();
        h.inputs = p.inputs.iter().cloned().collect();
        h.lines = p.lines.iter().cloned().collect();
        h
    };
    let r = drive::run(&p.compiled, &p.table, host, drive::ROpts { budget: k, max_steps: step_cap });
    Execution {
        choices: vec![],
        kinds: vec![],
        calls: vec![],
        obs: Observation { end: r.end, emits: r.host.emits, out: r.host.out, err: r.host.err, top: r.top, host_calls: vec![] },
        total_steps: r.steps,
        status_problems: vec![],
    }
}

pub fn compile_eprog(name: &str, text: &str, inputs: Vec<Input>, lines: Vec<String>) -> Result<EProg, String> {
    let src = drive::Src::with_vh(text);
    match drive::compile(&src, drive::COpts::default()) {
        drive::Compiled::Ok(c) => Ok(EProg {
            name: name.into(),
            text: text.into(),
            compiled: c,
            table: src.host_table(),
            inputs,
            lines,
            single_thread: !text.contains("task"),
        }),
        drive::Compiled::Diag(d) => Err(format!("does not compile: {d}")),
        drive::Compiled::Panic(p) => Err(format!("compiler panic at {}: {}", p.site, p.msg)),
    }
}

pub fn fmt_choices(x: &Execution) -> String {
    let mut s = vec![];
    for (i, c) in x.choices.iter().enumerate() {
        if *c != 0 {
            match x.kinds[i] {
                PointKind::Budget => s.push(format!("point {i}: budget {}", BUDGET_ALTS[*c as usize])),
                PointKind::Delay => s.push(format!("point {i}: delay host service by {} calls", DELAY_ALTS[*c as usize])),
            }
        }
    }
    if s.is_empty() { "default schedule".into() } else { s.join(", ") }
}
