//! C34 — editor analysis never crashes on incomplete code.
//!
//! Universe: C04's deviation ≤ 1 neighbourhood (shared enumerator: identity, every prefix, every single-token
//! deletion / replacement / adjacent swap, every hostile single-char insertion, every identifier replaced by
//! every other identifier of the file) of the shortest corpus files
//! × EVERY byte offset 0..=len+1 × {errors(), definition_at, type_at, completions_at} on
//! `abra_core::check_lsp`. One analysis per text, then all queries; the analysis and each single query are
//! wrapped in `catch`, so a panic is reported with the query and the offset.
//!
//! Oracle: no panic (the property statement: "returns its diagnostics and answers … at every cursor
//! offset without crashing"). Nothing is asserted about the answers themselves (that is C35).

use super::text_util::{self as tu, ALPHA_CORE, Dev1Unit, Mutant};
use crate::drive::{self, PanicInfo};
use crate::fw::{Prop, Tier, UnitOut, hkey};
use serde_json::json;
use std::collections::BTreeMap;
use std::path::Path;
use std::sync::OnceLock;

pub struct C34;

/// measured: analysis ≈ 7.5 ms per text, the three offset queries together ≈ PER_BYTE_US per byte offset
const CASE_US: f64 = 8000.0;
const PER_BYTE_US: f64 = 12.0;
const QUICK_BUDGET_CORE_S: f64 = 270.0;
const THOROUGH_BUDGET_CORE_S: f64 = 5500.0;
const CHUNK: usize = 300;
/// hand-written programs that are in the universe of both tiers whatever their length: two of the non-ASCII programs (thorough
/// reaches all five by length) and the five tiny programs with default / named arguments, constructors with defaults, a member function
const ALWAYS: [&str; 9] =
    ["hand/accents", "hand/japanese", "tiny/default-args", "tiny/named-args", "tiny/struct-defaults", "tiny/enum-defaults", "tiny/member-fn", "tiny/alias-import", "tiny/qualified-member"];

fn files(tier: Tier) -> Vec<usize> {
    tu::pick_files(ALPHA_CORE.len(), CASE_US, PER_BYTE_US, tier.pick(QUICK_BUDGET_CORE_S, THOROUGH_BUDGET_CORE_S), &ALWAYS)
}

fn plan(tier: Tier) -> &'static Vec<Dev1Unit> {
    static P: [OnceLock<Vec<Dev1Unit>>; 2] = [OnceLock::new(), OnceLock::new()];
    P[tier.pick(0, 1)].get_or_init(|| tu::plan_dev1(&files(tier), ALPHA_CORE.len(), CHUNK))
}

const QUERIES: [&str; 3] = ["definition_at", "type_at", "completions_at"];

fn judge(out: &mut UnitOut, origin: &str, desc: &str, text: &str) {
    if out.isolate {
        out.describe_case(text);
    }
    out.evaluations += 1;
    if tu::tokenize(text).iter().filter(|t| t.kind != tu::TK::Space && t.kind != tu::TK::Newline && t.kind != tu::TK::Comment).count() >= 2 {
        out.nontrivial_text(text);
    }
    let input_key = format!("input:{}", hkey(text));
    let src = tu::src_for(text);
    let detail = |what: &str, extra: serde_json::Value| {
        json!({"origin": origin, "mutation": desc, "text": text, "expected": "no panic", "observed": what, "panics": extra,
               "repro": "abra_core::check_lsp(\"main.abra\", MockFileProvider::single_file(text)) then the named query at the named byte offset (file id 0)"})
    };
    abra_core::verif::reset_counters(1);
    tu::watchdog_arm();
    let res = drive::catch(|| abra_core::check_lsp(&src.main, src.provider()));
    tu::watchdog_disarm();
    let res = match res {
        Ok(r) => r,
        Err(p) => {
            let what = format!("check_lsp panicked at {}: {} | input {} ({origin}: {desc})", p.site, tu::shorten(&p.msg, 100), tu::shorten(text, 80));
            out.count(&format!("panic check_lsp {}", p.site_key()), 1);
            let mut keys = vec![input_key, p.site_key()];
            keys.extend(tu::root_key(&p));
            out.violation(keys, what.clone(), detail(&what, json!([{"query": "check_lsp", "site": p.site, "msg": p.msg}])));
            out.class("VIOLATION: analysis panicked");
            return;
        }
    };
    // (query, site_key) -> (first offset, count, panic)
    let mut panics: BTreeMap<(String, String), (usize, u64, PanicInfo)> = BTreeMap::new();
    let mut note = |q: &str, off: usize, p: PanicInfo| {
        let e = panics.entry((q.to_string(), p.site_key())).or_insert((off, 0, p));
        e.1 += 1;
    };
    let fid = match drive::catch(|| res.file_id_for_path(Path::new(&src.main))) {
        Ok(f) => f,
        Err(p) => {
            note("file_id_for_path", 0, p);
            None
        }
    };
    let n_errors = match drive::catch(|| res.errors().len()) {
        Ok(n) => n,
        Err(p) => {
            note("errors", 0, p);
            0
        }
    };
    let (mut n_def, mut n_type, mut n_compl) = (0u64, 0u64, 0u64);
    if let Some(fid) = fid {
        for off in 0..=text.len() + 1 {
            match drive::catch(|| res.definition_at(fid, off).is_some()) {
                Ok(true) => n_def += 1,
                Ok(false) => {}
                Err(p) => note(QUERIES[0], off, p),
            }
            match drive::catch(|| res.type_at(fid, off).is_some()) {
                Ok(true) => n_type += 1,
                Ok(false) => {}
                Err(p) => note(QUERIES[1], off, p),
            }
            match drive::catch(|| res.completions_at(fid, off).len()) {
                Ok(n) if n > 0 => n_compl += 1,
                Ok(_) => {}
                Err(p) => note(QUERIES[2], off, p),
            }
        }
        out.count("offset_queries", 3 * (text.len() as i64 + 2));
        out.count("definition_at_answers", n_def as i64);
        out.count("type_at_answers", n_type as i64);
        out.count("completions_at_nonempty", n_compl as i64);
    } else {
        out.count("texts_without_main_file_id", 1);
    }
    // the analysis result is dropped here; a panic in drop is a crash as well
    if let Err(p) = drive::catch(move || drop(res)) {
        note("drop(LspAnalysisResult)", 0, p);
    }
    if panics.is_empty() {
        let c = match (n_errors > 0, n_def > 0 || n_type > 0) {
            (false, true) => "no diagnostics, hover/definition answers",
            (false, false) => "no diagnostics, no answers",
            (true, true) => "diagnostics, hover/definition answers",
            (true, false) => "diagnostics, no answers",
        };
        out.class(c);
        if out.evaluations % 211 == 1 {
            out.sample(json!({"origin": origin, "mutation": desc, "text": tu::shorten(text, 200), "diagnostics": n_errors,
                              "offsets": text.len() + 2, "definition_at_answers": n_def, "type_at_answers": n_type}));
        }
        return;
    }
    out.class("VIOLATION: query panicked");
    let all: Vec<serde_json::Value> =
        panics.iter().map(|((q, _), (off, n, p))| json!({"query": q, "first_offset": off, "offsets_panicking": n, "site": p.site, "msg": p.msg})).collect();
    for ((q, sk), (off, n, p)) in &panics {
        out.count(&format!("panic {q} {sk}"), 1);
        let what = format!(
            "{q}(offset {off}) panicked at {}: {} ({n} offsets) | input {} ({origin}: {desc})",
            p.site,
            tu::shorten(&p.msg, 100),
            tu::shorten(text, 80)
        );
        out.violation(vec![input_key.clone(), sk.clone()], what.clone(), detail(&what, json!(all)));
    }
}

impl Prop for C34 {
    fn id(&self) -> &'static str {
        "C34"
    }
    fn level(&self) -> &'static str {
        "exploration"
    }
    fn n_units(&self, tier: Tier) -> usize {
        plan(tier).len()
    }
    fn run_unit(&self, tier: Tier, unit: usize, out: &mut UnitOut) {
        let u = plan(tier)[unit];
        let f = &tu::corpus()[u.file];
        let c0 = tu::thread_cpu_s();
        tu::for_each_dev1(out, &f.text, &ALPHA_CORE, u.lo, u.hi, |out, _i, m: &Mutant| judge(out, &f.name, &m.desc, &m.text));
        if let (Some(a), Some(b)) = (c0, tu::thread_cpu_s()) {
            out.count("cpu_ms", ((b - a) * 1000.0) as i64);
        }
    }
    fn rule(&self, tier: Tier) -> String {
        let fs = files(tier);
        let c = tu::corpus();
        let raw: usize = plan(tier).iter().map(|d| d.hi - d.lo).sum();
        format!(
            "{} of the {} corpus programs = hand/accents, hand/japanese, the seven tiny/* programs and the shortest files within a cost budget (longest {} bytes; corpus as in C04; thorough reaches all 5 hand-written non-ASCII programs), each with its complete \
             deviation ≤ 1 neighbourhood (identity, every prefix, every single-token deletion, replacement by each of {} alphabet tokens, insertion of one of {:?} at every char boundary, adjacent-token swap, replacement of every identifier token by every other identifier of the same file; \
             {} raw mutants, repeated texts skipped and counted); per text one check_lsp analysis, errors(), and definition_at / type_at / completions_at at EVERY byte offset 0..=len+1 \
             (including offsets inside multi-byte chars and one past the end); oracle: no panic in the analysis, in any query, or in dropping the result. \
             Non-trivial = the text has ≥ 2 tokens that are not blanks/comments (distinct by text hash)",
            fs.len(),
            c.len(),
            fs.last().map(|i| c[*i].text.len()).unwrap_or(0),
            ALPHA_CORE.len(),
            tu::INSERT_CHARS,
            raw
        )
    }
    fn assumptions(&self) -> Vec<String> {
        vec![
            "the answers of the queries are not judged here (C35 does that); only absence of crashes".into(),
            "exhaustive for the stated neighbourhood and all offsets; it does not claim all texts".into(),
            "an analysis that has not returned after 20 CPU s makes the worker exit with status 86, reported by the framework as `process abort (exit status: 86)` for that text = non-termination suspect (also a crash from the editor's point of view)".into(),
        ]
    }
}
