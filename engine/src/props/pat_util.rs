//! Shared universe `U-pat` for C12 / C13 / C14: scrutinee types, value domains, pattern and
//! arm-list enumerators, the brute-force matcher (reference model), the pretty-printer, the
//! generated `mk_<type>` / `enc_<type>` support functions, the per-match verdict extraction from the
//! real checker (`check_lsp` ranges + the witness notes of the rendered diagnostics), the witness
//! parser, and the runner that feeds every value of the domain to every accepted match.

use crate::drive::{self, COpts, Compiled, Emit, End, Input, PanicInfo, ROpts, Src, StdHost, catch};
use crate::fw::{Tier, UnitOut};
use std::collections::{BTreeMap, VecDeque};
use std::rc::Rc;

// ------------------------------------------------------------------------------------------ types

#[derive(Debug, PartialEq)]
pub struct SDef {
    /// constructor / pattern name, e.g. `Bx`
    pub name: String,
    /// type expression, e.g. `Bx<bool>`
    pub texpr: String,
    pub id: String,
    pub fields: Vec<(String, Ty)>,
}
#[derive(Debug, PartialEq)]
pub struct VDef {
    pub name: String,
    pub fields: Vec<(Option<String>, Ty)>,
}
#[derive(Debug, PartialEq)]
pub struct EDef {
    pub name: String,
    pub texpr: String,
    pub id: String,
    /// number of type arguments of the enum type (the checker prints that many `_` after a missing variant)
    pub ntyargs: usize,
    pub variants: Vec<VDef>,
}
#[derive(Clone, Debug, PartialEq)]
pub enum Ty {
    Bool,
    Void,
    Int,
    Float,
    Str,
    Tuple(Vec<Ty>),
    Struct(Rc<SDef>),
    Enum(Rc<EDef>),
}

pub const TYPE_DECLS: &str = "type En = Aa | Bb(bool) | Cc(bool, bool) | Dd(x: bool, y: bool) | Ee(void)\n\
type St = {\n  a: bool\n  b: bool\n}\n\
type Sv = {\n  a: bool\n  u: void\n}\n\
type Bx<T> = {\n  v: T\n}\n\
type Dw<T> = {\n  v: option<option<T>>\n}\n\
type Stt = {\n  a: bool\n  b: bool\n  c: bool\n}\n\
type Se = {\n  a: bool\n  e: En\n}\n";

impl Ty {
    pub fn texpr(&self) -> String {
        match self {
            Ty::Bool => "bool".into(),
            Ty::Void => "void".into(),
            Ty::Int => "int".into(),
            Ty::Float => "float".into(),
            Ty::Str => "string".into(),
            Ty::Tuple(ts) => format!("({})", ts.iter().map(|t| t.texpr()).collect::<Vec<_>>().join(", ")),
            Ty::Struct(s) => s.texpr.clone(),
            Ty::Enum(e) => e.texpr.clone(),
        }
    }
    /// identifier-safe, prefix-free name used in `mk_<id>` / `enc_<id>`
    pub fn id(&self) -> String {
        match self {
            Ty::Bool => "bool".into(),
            Ty::Void => "void".into(),
            Ty::Int => "int".into(),
            Ty::Float => "float".into(),
            Ty::Str => "str".into(),
            Ty::Tuple(ts) => format!("t{}_{}", ts.len(), ts.iter().map(|t| t.id()).collect::<Vec<_>>().join("_")),
            Ty::Struct(s) => s.id.clone(),
            Ty::Enum(e) => e.id.clone(),
        }
    }
}

pub fn t_en() -> Ty {
    Ty::Enum(Rc::new(EDef {
        name: "En".into(),
        texpr: "En".into(),
        id: "en".into(),
        ntyargs: 0,
        variants: vec![
            VDef { name: "Aa".into(), fields: vec![] },
            VDef { name: "Bb".into(), fields: vec![(None, Ty::Bool)] },
            VDef { name: "Cc".into(), fields: vec![(None, Ty::Bool), (None, Ty::Bool)] },
            VDef { name: "Dd".into(), fields: vec![(Some("x".into()), Ty::Bool), (Some("y".into()), Ty::Bool)] },
            VDef { name: "Ee".into(), fields: vec![(None, Ty::Void)] },
        ],
    }))
}
pub fn t_opt(inner: Ty) -> Ty {
    Ty::Enum(Rc::new(EDef {
        name: "option".into(),
        texpr: format!("option<{}>", inner.texpr()),
        id: format!("opt_{}", inner.id()),
        ntyargs: 1,
        variants: vec![VDef { name: "some".into(), fields: vec![(None, inner)] }, VDef { name: "none".into(), fields: vec![] }],
    }))
}
pub fn t_res(ok: Ty, err: Ty) -> Ty {
    Ty::Enum(Rc::new(EDef {
        name: "result".into(),
        texpr: format!("result<{}, {}>", ok.texpr(), err.texpr()),
        id: format!("res_{}_{}", ok.id(), err.id()),
        ntyargs: 2,
        variants: vec![VDef { name: "ok".into(), fields: vec![(None, ok)] }, VDef { name: "err".into(), fields: vec![(None, err)] }],
    }))
}
pub fn t_st() -> Ty {
    Ty::Struct(Rc::new(SDef {
        name: "St".into(),
        texpr: "St".into(),
        id: "st".into(),
        fields: vec![("a".into(), Ty::Bool), ("b".into(), Ty::Bool)],
    }))
}
pub fn t_sv() -> Ty {
    Ty::Struct(Rc::new(SDef {
        name: "Sv".into(),
        texpr: "Sv".into(),
        id: "sv".into(),
        fields: vec![("a".into(), Ty::Bool), ("u".into(), Ty::Void)],
    }))
}
pub fn t_bx(inner: Ty) -> Ty {
    Ty::Struct(Rc::new(SDef {
        name: "Bx".into(),
        texpr: format!("Bx<{}>", inner.texpr()),
        id: format!("bx_{}", inner.id()),
        fields: vec![("v".into(), inner)],
    }))
}
/// a generic struct whose type parameter sits two constructors deep
pub fn t_dw(inner: Ty) -> Ty {
    Ty::Struct(Rc::new(SDef {
        name: "Dw".into(),
        texpr: format!("Dw<{}>", inner.texpr()),
        id: format!("dw_{}", inner.id()),
        fields: vec![("v".into(), t_opt(t_opt(inner)))],
    }))
}
pub fn t_s3() -> Ty {
    Ty::Struct(Rc::new(SDef {
        name: "Stt".into(),
        texpr: "Stt".into(),
        id: "s3".into(),
        fields: vec![("a".into(), Ty::Bool), ("b".into(), Ty::Bool), ("c".into(), Ty::Bool)],
    }))
}
pub fn t_se() -> Ty {
    Ty::Struct(Rc::new(SDef {
        name: "Se".into(),
        texpr: "Se".into(),
        id: "se".into(),
        fields: vec![("a".into(), Ty::Bool), ("e".into(), t_en())],
    }))
}
pub fn t_tup(ts: Vec<Ty>) -> Ty {
    Ty::Tuple(ts)
}

// ----------------------------------------------------------------------------------------- values

#[derive(Clone, Debug, PartialEq)]
pub enum Val {
    Bool(bool),
    Void,
    Int(i64),
    Float(f64),
    Str(String),
    /// tuple or struct
    Prod(Vec<Val>),
    /// enum variant index + one value per declared field
    Var(usize, Vec<Val>),
}

pub const INT_DOM: [i64; 3] = [0, 1, 2];
pub const FLOAT_DOM: [f64; 4] = [1.0, 2.0, 0.0, 3.5];
pub const STR_DOM: [&str; 3] = ["a", "", "zz"];

fn product(cols: &[Vec<Val>]) -> Vec<Vec<Val>> {
    let mut acc: Vec<Vec<Val>> = vec![vec![]];
    for col in cols {
        let mut next = vec![];
        for pre in &acc {
            for v in col {
                let mut p = pre.clone();
                p.push(v.clone());
                next.push(p);
            }
        }
        acc = next;
    }
    acc
}

/// Every value of the (finite) domain of `ty`, in the order of `mk_<id>(i)`.
/// int / float / string: every literal that can occur in a pattern of the universe plus one fresh value.
pub fn values(ty: &Ty) -> Vec<Val> {
    match ty {
        Ty::Bool => vec![Val::Bool(false), Val::Bool(true)],
        Ty::Void => vec![Val::Void],
        Ty::Int => INT_DOM.iter().map(|i| Val::Int(*i)).collect(),
        Ty::Float => FLOAT_DOM.iter().map(|f| Val::Float(*f)).collect(),
        Ty::Str => STR_DOM.iter().map(|s| Val::Str(s.to_string())).collect(),
        Ty::Tuple(ts) => product(&ts.iter().map(values).collect::<Vec<_>>()).into_iter().map(Val::Prod).collect(),
        Ty::Struct(s) => {
            product(&s.fields.iter().map(|f| values(&f.1)).collect::<Vec<_>>()).into_iter().map(Val::Prod).collect()
        }
        Ty::Enum(e) => {
            let mut out = vec![];
            for (i, v) in e.variants.iter().enumerate() {
                for p in product(&v.fields.iter().map(|f| values(&f.1)).collect::<Vec<_>>()) {
                    out.push(Val::Var(i, p));
                }
            }
            out
        }
    }
}

pub fn index_of(ty: &Ty, v: &Val) -> i64 {
    values(ty).iter().position(|x| x == v).expect("value not in its domain") as i64
}

pub fn show_val(ty: &Ty, v: &Val) -> String {
    match (ty, v) {
        (_, Val::Bool(b)) => format!("{b}"),
        (_, Val::Void) => "nil".into(),
        (_, Val::Int(i)) => format!("{i}"),
        (_, Val::Float(f)) => format!("{f:?}"),
        (_, Val::Str(s)) => format!("{s:?}"),
        (Ty::Tuple(ts), Val::Prod(vs)) => {
            format!("({})", ts.iter().zip(vs).map(|(t, v)| show_val(t, v)).collect::<Vec<_>>().join(", "))
        }
        (Ty::Struct(s), Val::Prod(vs)) => {
            format!("{}({})", s.name, s.fields.iter().zip(vs).map(|(f, v)| show_val(&f.1, v)).collect::<Vec<_>>().join(", "))
        }
        (Ty::Enum(e), Val::Var(i, vs)) => {
            let vd = &e.variants[*i];
            if vs.is_empty() {
                format!(".{}", vd.name)
            } else {
                format!(".{}({})", vd.name, vd.fields.iter().zip(vs).map(|(f, v)| show_val(&f.1, v)).collect::<Vec<_>>().join(", "))
            }
        }
        _ => "<ill-typed value>".into(),
    }
}

// --------------------------------------------------------------------------------------- patterns

#[derive(Clone, Copy, Debug, PartialEq)]
pub enum Form {
    /// variant written without parentheses (`.Aa`, `.Ee`)
    Bare,
    Pos,
    Named,
    /// named, fields listed in reverse declaration order
    NamedRev,
}

#[derive(Clone, Debug, PartialEq)]
pub enum Pat {
    Wild,
    Bind(String),
    Bool(bool),
    Int(i64),
    /// spelling of the literal
    Float(&'static str),
    Str(&'static str),
    Nil,
    Tuple(Vec<Pat>),
    /// sub-patterns in declaration order
    Struct(Form, Vec<Pat>),
    /// variant index, written qualified (`En.Aa`), form, sub-patterns in declaration order (empty for Bare)
    Variant(usize, bool, Form, Vec<Pat>),
    Or(Box<Pat>, Box<Pat>),
}

pub fn bind(n: &str) -> Pat {
    Pat::Bind(n.to_string())
}
pub fn or(a: Pat, b: Pat) -> Pat {
    Pat::Or(Box::new(a), Box::new(b))
}
pub fn var(i: usize, args: Vec<Pat>) -> Pat {
    if args.is_empty() { Pat::Variant(i, false, Form::Bare, vec![]) } else { Pat::Variant(i, false, Form::Pos, args) }
}

/// THE REFERENCE MODEL: does `p` match `v`; bindings are appended to `b` (left alternative of an
/// or-pattern first; bindings of a failed alternative / failed product are rolled back).
pub fn pmatch(p: &Pat, v: &Val, b: &mut Vec<(String, Val)>) -> bool {
    match (p, v) {
        (Pat::Wild, _) => true,
        (Pat::Bind(n), v) => {
            b.push((n.clone(), v.clone()));
            true
        }
        (Pat::Bool(x), Val::Bool(y)) => x == y,
        (Pat::Int(x), Val::Int(y)) => x == y,
        (Pat::Float(s), Val::Float(y)) => s.parse::<f64>().unwrap() == *y,
        (Pat::Str(s), Val::Str(y)) => s == y,
        (Pat::Nil, Val::Void) => true,
        (Pat::Tuple(ps), Val::Prod(vs)) | (Pat::Struct(_, ps), Val::Prod(vs)) => {
            let n = b.len();
            let ok = ps.len() == vs.len() && ps.iter().zip(vs).all(|(p, v)| pmatch(p, v, b));
            if !ok {
                b.truncate(n);
            }
            ok
        }
        (Pat::Variant(i, _, form, ps), Val::Var(j, vs)) => {
            let n = b.len();
            let ok = i == j && (*form == Form::Bare || (ps.len() == vs.len() && ps.iter().zip(vs).all(|(p, v)| pmatch(p, v, b))));
            if !ok {
                b.truncate(n);
            }
            ok
        }
        (Pat::Or(l, r), v) => {
            let n = b.len();
            if pmatch(l, v, b) {
                true
            } else {
                b.truncate(n);
                pmatch(r, v, b)
            }
        }
        (p, v) => panic!("ill-typed pattern/value pair {p:?} / {v:?}"),
    }
}

/// index of the first matching arm and its bindings sorted by name
pub fn first_match(arms: &[Pat], v: &Val) -> Option<(usize, Vec<(String, Val)>)> {
    for (i, p) in arms.iter().enumerate() {
        let mut b = vec![];
        if pmatch(p, v, &mut b) {
            b.sort_by(|x, y| x.0.cmp(&y.0));
            return Some((i, b));
        }
    }
    None
}

/// Model verdict of an arm list over the value domain: unmatched values and arms no value reaches first.
pub struct ModelVerdict {
    pub unmatched: Vec<usize>,
    pub unreachable: Vec<usize>,
    /// first matching arm per value
    pub first: Vec<Option<usize>>,
}
pub fn model_verdict(arms: &[Pat], vals: &[Val]) -> ModelVerdict {
    let mut reached = vec![false; arms.len()];
    let mut unmatched = vec![];
    let mut first = vec![];
    for (k, v) in vals.iter().enumerate() {
        match first_match(arms, v) {
            Some((i, _)) => {
                reached[i] = true;
                first.push(Some(i));
            }
            None => {
                unmatched.push(k);
                first.push(None);
            }
        }
    }
    ModelVerdict { unmatched, unreachable: (0..arms.len()).filter(|i| !reached[*i]).collect(), first }
}

/// (name, type) of every binding of `p` (left alternative of or-patterns), sorted by name
pub fn bind_tys(p: &Pat, ty: &Ty) -> Vec<(String, Ty)> {
    fn go(p: &Pat, ty: &Ty, out: &mut Vec<(String, Ty)>) {
        match (p, ty) {
            (Pat::Bind(n), t) => out.push((n.clone(), t.clone())),
            (Pat::Tuple(ps), Ty::Tuple(ts)) => ps.iter().zip(ts).for_each(|(p, t)| go(p, t, out)),
            (Pat::Struct(_, ps), Ty::Struct(s)) => ps.iter().zip(&s.fields).for_each(|(p, f)| go(p, &f.1, out)),
            (Pat::Variant(i, _, _, ps), Ty::Enum(e)) => ps.iter().zip(&e.variants[*i].fields).for_each(|(p, f)| go(p, &f.1, out)),
            (Pat::Or(l, _), t) => go(l, t, out),
            _ => {}
        }
    }
    let mut out = vec![];
    go(p, ty, &mut out);
    out.sort_by(|x, y| x.0.cmp(&y.0));
    out
}

pub fn is_catch_all(p: &Pat) -> bool {
    matches!(p, Pat::Wild | Pat::Bind(_))
}

/// pretty-printer: Abra source of a pattern of type `ty`
pub fn render(p: &Pat, ty: &Ty) -> String {
    match (p, ty) {
        (Pat::Wild, _) => "_".into(),
        (Pat::Bind(n), _) => n.clone(),
        (Pat::Bool(b), _) => format!("{b}"),
        (Pat::Int(i), _) => format!("{i}"),
        (Pat::Float(s), _) => s.to_string(),
        (Pat::Str(s), _) => format!("\"{s}\""),
        (Pat::Nil, _) => "nil".into(),
        (Pat::Tuple(ps), Ty::Tuple(ts)) => {
            format!("({})", ps.iter().zip(ts).map(|(p, t)| render(p, t)).collect::<Vec<_>>().join(", "))
        }
        (Pat::Struct(form, ps), Ty::Struct(s)) => {
            let mut parts: Vec<String> = ps
                .iter()
                .zip(&s.fields)
                .map(|(p, f)| match form {
                    Form::Named | Form::NamedRev => format!("{} = {}", f.0, render(p, &f.1)),
                    _ => render(p, &f.1),
                })
                .collect();
            if *form == Form::NamedRev {
                parts.reverse();
            }
            format!("{}({})", s.name, parts.join(", "))
        }
        (Pat::Variant(i, qual, form, ps), Ty::Enum(e)) => {
            let vd = &e.variants[*i];
            let head = if *qual { format!("{}.{}", e.name, vd.name) } else { format!(".{}", vd.name) };
            if *form == Form::Bare {
                return head;
            }
            let mut parts: Vec<String> = ps
                .iter()
                .zip(&vd.fields)
                .map(|(p, f)| match form {
                    Form::Named | Form::NamedRev => format!("{} = {}", f.0.as_ref().unwrap(), render(p, &f.1)),
                    _ => render(p, &f.1),
                })
                .collect();
            if *form == Form::NamedRev {
                parts.reverse();
            }
            format!("{head}({})", parts.join(", "))
        }
        (Pat::Or(l, r), t) => format!("{} | {}", render(l, t), render(r, t)),
        (p, t) => panic!("ill-typed pattern {p:?} for {}", t.texpr()),
    }
}

pub fn render_arms(arms: &[Pat], ty: &Ty) -> String {
    arms.iter().map(|p| render(p, ty)).collect::<Vec<_>>().join(" ; ")
}

// --------------------------------------------------------------------------- pattern enumerators

fn cross2(a: &[Pat], b: &[Pat]) -> Vec<(Pat, Pat)> {
    let mut v = vec![];
    for x in a {
        for y in b {
            v.push((x.clone(), y.clone()));
        }
    }
    v
}

fn bool_atoms(b: &str) -> Vec<Pat> {
    vec![Pat::Wild, bind(b), Pat::Bool(true), Pat::Bool(false)]
}
fn bool_lits() -> Vec<Pat> {
    vec![Pat::Wild, Pat::Bool(true), Pat::Bool(false)]
}

/// One scrutinee type of the universe with its pattern list and arm-list length bounds.
pub struct TyU {
    pub ty: Ty,
    pub pats: Vec<Pat>,
    /// maximal arm-list length: quick, thorough
    pub len: (usize, usize),
    /// maximal arm-list length in the unchecked-context strata (0 = type not used there): quick, thorough
    pub ctx_len: (usize, usize),
    /// structured long arm lists ("cover lists"): constructor groups
    pub groups: Vec<Vec<Vec<Pat>>>,
}

const AA: usize = 0;
const BB: usize = 1;
const CC: usize = 2;
const DD: usize = 3;
const EE: usize = 4;

fn en_pats() -> Vec<Pat> {
    let mut v = vec![Pat::Wild, bind("v"), var(AA, vec![]), Pat::Variant(AA, true, Form::Bare, vec![])];
    for p in bool_atoms("v0") {
        v.push(var(BB, vec![p]));
    }
    v.push(var(BB, vec![or(Pat::Bool(true), Pat::Bool(false))]));
    let mut two: Vec<(Pat, Pat)> = cross2(&bool_lits(), &bool_lits());
    two.push((bind("v0"), bind("v1")));
    for (p, q) in &two {
        v.push(var(CC, vec![p.clone(), q.clone()]));
    }
    for form in [Form::Pos, Form::Named, Form::NamedRev] {
        for (p, q) in &two {
            v.push(Pat::Variant(DD, false, form, vec![p.clone(), q.clone()]));
        }
    }
    v.push(var(EE, vec![]));
    v.push(var(EE, vec![Pat::Nil]));
    v.push(var(EE, vec![Pat::Wild]));
    v.push(var(EE, vec![bind("v0")]));
    v.push(or(var(AA, vec![]), var(EE, vec![])));
    v.push(or(var(BB, vec![bind("v0")]), var(CC, vec![bind("v0"), Pat::Wild])));
    v.push(or(var(BB, vec![Pat::Bool(true)]), var(CC, vec![Pat::Wild, Pat::Bool(true)])));
    // three alternatives, and two or-patterns inside one arm
    v.push(or(var(AA, vec![]), or(var(EE, vec![]), var(BB, vec![Pat::Wild]))));
    v.push(var(CC, vec![or(Pat::Bool(true), Pat::Bool(false)), or(Pat::Bool(true), Pat::Bool(false))]));
    v
}

fn en_groups() -> Vec<Vec<Vec<Pat>>> {
    let t = Pat::Bool(true);
    let f = Pat::Bool(false);
    let w = Pat::Wild;
    vec![
        vec![vec![], vec![var(AA, vec![])]],
        vec![vec![var(BB, vec![w.clone()])], vec![var(BB, vec![t.clone()]), var(BB, vec![f.clone()])], vec![var(BB, vec![t.clone()])]],
        vec![
            vec![var(CC, vec![w.clone(), w.clone()])],
            vec![var(CC, vec![t.clone(), w.clone()]), var(CC, vec![f.clone(), w.clone()])],
            vec![var(CC, vec![w.clone(), t.clone()]), var(CC, vec![f.clone(), f.clone()])],
        ],
        vec![
            vec![Pat::Variant(DD, false, Form::Pos, vec![w.clone(), w.clone()])],
            vec![
                Pat::Variant(DD, false, Form::Named, vec![t.clone(), w.clone()]),
                Pat::Variant(DD, false, Form::NamedRev, vec![f.clone(), w.clone()]),
            ],
            vec![Pat::Variant(DD, false, Form::NamedRev, vec![t.clone(), t.clone()])],
        ],
        vec![vec![var(EE, vec![])], vec![var(EE, vec![Pat::Nil])], vec![]],
    ]
}

/// The scrutinee types of `U-pat` with their pattern lists (all patterns of depth <= 2, depth 3 for the
/// nested tuple and the struct-with-enum type, over wildcard, binding, literals, tuple, struct
/// positional / named / named-reversed, variant positional / named / named-reversed / bare / qualified,
/// binary or-patterns).
pub fn universe() -> Vec<TyU> {
    let mut u = vec![];
    let t = Pat::Bool(true);
    let f = Pat::Bool(false);
    let w = Pat::Wild;

    // 0 bool
    let mut p = bool_atoms("v");
    for (a, b) in cross2(&[t.clone(), f.clone(), w.clone()], &[t.clone(), f.clone(), w.clone()]) {
        p.push(or(a, b));
    }
    p.push(or(bind("v"), bind("v")));
    u.push(TyU { ty: Ty::Bool, pats: p, len: (3, 4), ctx_len: (2, 3), groups: vec![] });

    // 1 void
    u.push(TyU {
        ty: Ty::Void,
        pats: vec![w.clone(), bind("v"), Pat::Nil, or(Pat::Nil, w.clone()), or(Pat::Nil, Pat::Nil)],
        len: (3, 4),
        ctx_len: (2, 2),
        groups: vec![],
    });

    // 2 int
    u.push(TyU {
        ty: Ty::Int,
        pats: vec![w.clone(), bind("v"), Pat::Int(0), Pat::Int(1), or(Pat::Int(0), Pat::Int(1)), or(Pat::Int(1), Pat::Int(1))],
        len: (3, 4),
        ctx_len: (2, 3),
        groups: vec![],
    });

    // 3 float: `1.0` and `1.00` denote the same value, and so do `2.0`, `02.0` and `2.00000000000000000001`
    u.push(TyU {
        ty: Ty::Float,
        pats: vec![
            w.clone(),
            bind("v"),
            Pat::Float("1.0"),
            Pat::Float("1.00"),
            Pat::Float("2.0"),
            Pat::Float("0.0"),
            // other spellings of 2.0: a leading zero, digits beyond binary64 precision
            Pat::Float("02.0"),
            Pat::Float("2.00000000000000000001"),
            or(Pat::Float("1.0"), Pat::Float("2.0")),
            or(Pat::Float("1.00"), Pat::Float("1.0")),
        ],
        len: (3, 4),
        ctx_len: (0, 0),
        groups: vec![],
    });

    // 4 string
    u.push(TyU {
        ty: Ty::Str,
        pats: vec![w.clone(), bind("v"), Pat::Str("a"), Pat::Str(""), or(Pat::Str("a"), Pat::Str(""))],
        len: (3, 4),
        ctx_len: (0, 0),
        groups: vec![],
    });

    // 5 (bool, bool)
    let comp = |b: &str| {
        let mut c = bool_atoms(b);
        c.push(or(Pat::Bool(true), Pat::Bool(false)));
        c
    };
    let mut p = vec![w.clone(), bind("v")];
    for (a, b) in cross2(&comp("v0"), &comp("v1")) {
        p.push(Pat::Tuple(vec![a, b]));
    }
    let tl = [
        Pat::Tuple(vec![t.clone(), w.clone()]),
        Pat::Tuple(vec![w.clone(), f.clone()]),
        Pat::Tuple(vec![f.clone(), t.clone()]),
    ];
    for (i, a) in tl.iter().enumerate() {
        for (j, b) in tl.iter().enumerate() {
            if i != j {
                p.push(or(a.clone(), b.clone()));
            }
        }
    }
    p.push(or(Pat::Tuple(vec![bind("v0"), t.clone()]), Pat::Tuple(vec![bind("v0"), f.clone()])));
    p.push(or(Pat::Tuple(vec![t.clone(), bind("v0")]), Pat::Tuple(vec![bind("v0"), t.clone()])));
    u.push(TyU { ty: t_tup(vec![Ty::Bool, Ty::Bool]), pats: p, len: (2, 3), ctx_len: (1, 2), groups: vec![] });

    // 6 (bool, void)
    let mut p = vec![w.clone(), bind("v")];
    for (a, b) in cross2(&bool_atoms("v0"), &[w.clone(), bind("v1"), Pat::Nil]) {
        p.push(Pat::Tuple(vec![a, b]));
    }
    u.push(TyU { ty: t_tup(vec![Ty::Bool, Ty::Void]), pats: p, len: (2, 3), ctx_len: (0, 0), groups: vec![] });

    // 7 (bool, (bool, bool))
    let mut inner = vec![w.clone(), bind("v1")];
    for (a, b) in cross2(&bool_lits(), &bool_lits()) {
        inner.push(Pat::Tuple(vec![a, b]));
    }
    inner.push(Pat::Tuple(vec![bind("v1"), bind("v2")]));
    inner.push(Pat::Tuple(vec![bind("v1"), t.clone()]));
    let mut p = vec![w.clone(), bind("v")];
    for (a, b) in cross2(&bool_atoms("v0"), &inner) {
        p.push(Pat::Tuple(vec![a, b]));
    }
    u.push(TyU {
        ty: t_tup(vec![Ty::Bool, t_tup(vec![Ty::Bool, Ty::Bool])]),
        pats: p,
        len: (2, 2),
        ctx_len: (0, 0),
        groups: vec![],
    });

    // 8 (int, bool): an unlistable component next to a listable one
    let mut p = vec![w.clone(), bind("v")];
    for (a, b) in cross2(&[w.clone(), bind("v0"), Pat::Int(0), Pat::Int(1)], &bool_atoms("v1")) {
        p.push(Pat::Tuple(vec![a, b]));
    }
    u.push(TyU { ty: t_tup(vec![Ty::Int, Ty::Bool]), pats: p, len: (2, 3), ctx_len: (0, 0), groups: vec![] });

    // 9 St { a: bool, b: bool }
    let mut p = vec![w.clone(), bind("v")];
    for form in [Form::Pos, Form::Named, Form::NamedRev] {
        for (a, b) in cross2(&bool_atoms("v0"), &bool_atoms("v1")) {
            p.push(Pat::Struct(form, vec![a, b]));
        }
    }
    p.push(or(Pat::Struct(Form::Pos, vec![t.clone(), w.clone()]), Pat::Struct(Form::Pos, vec![w.clone(), t.clone()])));
    p.push(or(Pat::Struct(Form::Named, vec![bind("v0"), t.clone()]), Pat::Struct(Form::NamedRev, vec![bind("v0"), f.clone()])));
    p.push(Pat::Struct(Form::NamedRev, vec![or(t.clone(), f.clone()), or(f.clone(), t.clone())]));
    u.push(TyU { ty: t_st(), pats: p, len: (2, 2), ctx_len: (0, 0), groups: vec![] });

    // 10 Sv { a: bool, u: void }
    let mut p = vec![w.clone(), bind("v")];
    for form in [Form::Pos, Form::NamedRev] {
        for (a, b) in cross2(&bool_atoms("v0"), &[w.clone(), bind("v1"), Pat::Nil]) {
            p.push(Pat::Struct(form, vec![a, b]));
        }
    }
    u.push(TyU { ty: t_sv(), pats: p, len: (2, 3), ctx_len: (0, 0), groups: vec![] });

    // 11 Bx<bool>
    let mut p = vec![w.clone(), bind("v")];
    for form in [Form::Pos, Form::Named] {
        for a in comp("v0") {
            p.push(Pat::Struct(form, vec![a]));
        }
    }
    u.push(TyU { ty: t_bx(Ty::Bool), pats: p, len: (3, 4), ctx_len: (0, 0), groups: vec![] });

    // 12 En
    u.push(TyU { ty: t_en(), pats: en_pats(), len: (2, 3), ctx_len: (1, 2), groups: en_groups() });

    // 13 option<bool>
    let some = |p: Pat| var(0, vec![p]);
    let none = || var(1, vec![]);
    let mut p = vec![w.clone(), bind("v"), none()];
    for a in comp("v0") {
        p.push(some(a));
    }
    p.push(or(none(), some(t.clone())));
    p.push(or(some(t.clone()), some(f.clone())));
    u.push(TyU {
        ty: t_opt(Ty::Bool),
        pats: p,
        len: (3, 4),
        ctx_len: (2, 3),
        groups: vec![
            vec![vec![none()], vec![]],
            vec![vec![some(w.clone())], vec![some(t.clone()), some(f.clone())], vec![some(f.clone()), some(t.clone())], vec![some(bind("v0"))]],
        ],
    });

    // 14 option<option<bool>>
    let mut p = vec![w.clone(), bind("v"), none()];
    for q in [w.clone(), bind("v0"), none(), some(w.clone()), some(bind("v0")), some(t.clone()), some(f.clone())] {
        p.push(some(q));
    }
    p.push(or(some(none()), none()));
    u.push(TyU {
        ty: t_opt(t_opt(Ty::Bool)),
        pats: p,
        len: (3, 4),
        ctx_len: (0, 0),
        groups: vec![
            vec![vec![none()], vec![]],
            vec![vec![some(none())], vec![]],
            vec![
                vec![some(some(w.clone()))],
                vec![some(some(t.clone())), some(some(f.clone()))],
                vec![some(some(t.clone()))],
                vec![some(some(bind("v0")))],
            ],
        ],
    });

    // 15 result<bool, En>
    let ok = |p: Pat| var(0, vec![p]);
    let err = |p: Pat| var(1, vec![p]);
    let mut p = vec![w.clone(), bind("v")];
    for a in bool_atoms("v0") {
        p.push(ok(a));
    }
    let errs = vec![
        w.clone(),
        bind("v0"),
        var(AA, vec![]),
        var(BB, vec![w.clone()]),
        var(BB, vec![t.clone()]),
        var(CC, vec![w.clone(), w.clone()]),
        var(CC, vec![t.clone(), w.clone()]),
        Pat::Variant(DD, false, Form::Pos, vec![w.clone(), w.clone()]),
        Pat::Variant(DD, false, Form::NamedRev, vec![w.clone(), t.clone()]),
        var(EE, vec![]),
    ];
    for q in &errs {
        p.push(err(q.clone()));
    }
    p.push(or(ok(t.clone()), err(var(AA, vec![]))));
    u.push(TyU {
        ty: t_res(Ty::Bool, t_en()),
        pats: p,
        len: (2, 3),
        ctx_len: (0, 0),
        groups: vec![
            vec![vec![ok(w.clone())], vec![ok(t.clone()), ok(f.clone())], vec![ok(f.clone())]],
            vec![vec![err(var(AA, vec![]))], vec![]],
            vec![vec![err(var(BB, vec![w.clone()]))], vec![err(var(BB, vec![t.clone()])), err(var(BB, vec![f.clone()]))]],
            vec![vec![err(var(CC, vec![w.clone(), w.clone()]))], vec![err(var(CC, vec![t.clone(), w.clone()]))]],
            vec![vec![err(Pat::Variant(DD, false, Form::Pos, vec![w.clone(), w.clone()])), err(var(EE, vec![]))], vec![err(var(EE, vec![]))]],
        ],
    });

    // 16 Se { a: bool, e: En }
    let mut p = vec![w.clone(), bind("v")];
    let es = vec![
        w.clone(),
        var(AA, vec![]),
        var(BB, vec![w.clone()]),
        var(BB, vec![t.clone()]),
        var(CC, vec![w.clone(), w.clone()]),
        Pat::Variant(DD, false, Form::Pos, vec![w.clone(), w.clone()]),
        var(EE, vec![]),
    ];
    for (a, b) in cross2(&bool_lits(), &es) {
        p.push(Pat::Struct(Form::Pos, vec![a, b]));
    }
    u.push(TyU { ty: t_se(), pats: p, len: (2, 3), ctx_len: (0, 0), groups: vec![] });

    // 17 option<void>: a generic payload instantiated to void (no stack slot, but still a column of the pattern matrix)
    let p = vec![w.clone(), bind("v"), none(), some(w.clone()), some(bind("v0")), some(Pat::Nil), or(none(), some(w.clone()))];
    u.push(TyU { ty: t_opt(Ty::Void), pats: p, len: (3, 4), ctx_len: (0, 0), groups: vec![] });

    // 18 result<void, bool>
    let p = vec![
        w.clone(),
        bind("v"),
        ok(w.clone()),
        ok(bind("v0")),
        ok(Pat::Nil),
        err(w.clone()),
        err(t.clone()),
        err(f.clone()),
        err(bind("v0")),
        or(ok(w.clone()), err(t.clone())),
    ];
    u.push(TyU { ty: t_res(Ty::Void, Ty::Bool), pats: p, len: (2, 3), ctx_len: (0, 0), groups: vec![] });

    // 19 (bool, St): a struct pattern with literal fields next to irrefutable components of the same product
    let st = |a: &Pat, b: &Pat| Pat::Struct(Form::Pos, vec![a.clone(), b.clone()]);
    let mut p = vec![w.clone(), bind("v"), Pat::Tuple(vec![w.clone(), w.clone()]), Pat::Tuple(vec![bind("v0"), bind("v1")])];
    for a in [w.clone(), bind("v0"), t.clone()] {
        for q in [st(&t, &w), st(&w, &f), st(&t, &t), st(&w, &w), st(&f, &bind("v1")), Pat::Struct(Form::NamedRev, vec![w.clone(), t.clone()])] {
            p.push(Pat::Tuple(vec![a.clone(), q]));
        }
    }
    u.push(TyU { ty: t_tup(vec![Ty::Bool, t_st()]), pats: p, len: (2, 3), ctx_len: (0, 0), groups: vec![] });

    // 20 Bx<St>: a struct pattern as the only component of another struct pattern
    let bx = |q: Pat| Pat::Struct(Form::Pos, vec![q]);
    let mut p = vec![w.clone(), bind("v"), bx(w.clone()), bx(bind("v0"))];
    for q in [st(&t, &w), st(&w, &f), st(&t, &t), st(&f, &f), st(&w, &w), st(&bind("v0"), &t), Pat::Struct(Form::Named, vec![f.clone(), bind("v1")])] {
        p.push(bx(q));
    }
    u.push(TyU { ty: t_bx(t_st()), pats: p, len: (2, 3), ctx_len: (0, 0), groups: vec![] });

    // 21 Dw<bool> = { v: option<option<T>> }: the type parameter of a user generic sits two constructors deep
    let dw = |q: Pat| Pat::Struct(Form::Pos, vec![q]);
    let p = vec![
        w.clone(),
        bind("v"),
        dw(w.clone()),
        dw(none()),
        dw(some(none())),
        dw(some(w.clone())),
        dw(some(some(w.clone()))),
        dw(some(some(t.clone()))),
        dw(some(some(f.clone()))),
        dw(some(some(bind("v0")))),
    ];
    u.push(TyU { ty: t_dw(Ty::Bool), pats: p, len: (3, 4), ctx_len: (0, 0), groups: vec![] });

    // 22 Stt { a, b, c }: three fields, so that a named pattern written in reverse order keeps one name in its place
    let mut p = vec![w.clone(), bind("v")];
    for form in [Form::Pos, Form::Named, Form::NamedRev] {
        for fs in [
            vec![t.clone(), w.clone(), f.clone()],
            vec![f.clone(), t.clone(), w.clone()],
            vec![bind("v0"), t.clone(), bind("v2")],
            vec![t.clone(), bind("v1"), w.clone()],
            vec![w.clone(), w.clone(), t.clone()],
        ] {
            p.push(Pat::Struct(form, fs));
        }
    }
    u.push(TyU { ty: t_s3(), pats: p, len: (2, 2), ctx_len: (0, 0), groups: vec![] });

    u
}

/// number of arm lists of length 1..=l over p patterns
pub fn n_lists(p: usize, l: usize) -> u64 {
    let mut n = 0u64;
    let mut pw = 1u64;
    for _ in 0..l {
        pw *= p as u64;
        n += pw;
    }
    n
}

/// decode arm-list index (shorter lists first, then lexicographic) into pattern indices
pub fn decode_list(p: usize, mut idx: u64) -> Vec<usize> {
    let mut len = 1;
    let mut pw = p as u64;
    while idx >= pw {
        idx -= pw;
        pw *= p as u64;
        len += 1;
    }
    let mut v = vec![0usize; len];
    for k in (0..len).rev() {
        v[k] = (idx % p as u64) as usize;
        idx /= p as u64;
    }
    v
}

/// Cover lists: every order of the constructor groups that is a rotation of the declared order or of its
/// reversal, times every choice of one alternative per group, times {no tail, tail `_`}.
pub fn cover_lists(groups: &[Vec<Vec<Pat>>]) -> Vec<Vec<Pat>> {
    let k = groups.len();
    if k == 0 {
        return vec![];
    }
    let mut orders: Vec<Vec<usize>> = vec![];
    for r in 0..k {
        let o: Vec<usize> = (0..k).map(|i| (i + r) % k).collect();
        let mut rev = o.clone();
        rev.reverse();
        if !orders.contains(&o) {
            orders.push(o);
        }
        if !orders.contains(&rev) {
            orders.push(rev);
        }
    }
    let mut choice = vec![0usize; k];
    let mut out = vec![];
    loop {
        for o in &orders {
            for tail in [false, true] {
                let mut l: Vec<Pat> = vec![];
                for g in o {
                    l.extend(groups[*g][choice[*g]].iter().cloned());
                }
                if tail {
                    l.push(Pat::Wild);
                }
                if !l.is_empty() {
                    out.push(l);
                }
            }
        }
        // next choice
        let mut i = 0;
        loop {
            if i == k {
                return out;
            }
            choice[i] += 1;
            if choice[i] < groups[i].len() {
                break;
            }
            choice[i] = 0;
            i += 1;
        }
    }
}

// --------------------------------------------------------------------------- support functions

/// `mk_<id>(i)` builds the i-th value of the domain, `enc_<id>(v)` returns the index of a value.
/// `enc` of tuples and enums uses binding-only patterns (validated by the round-trip case of every unit);
/// `enc` of structs uses field access.
pub fn support_fns(ty: &Ty, out: &mut BTreeMap<String, String>) {
    let id = ty.id();
    if out.contains_key(&id) {
        return;
    }
    let tx = ty.texpr();
    let prod_mk = |ts: &[Ty]| -> Vec<String> {
        // mixed radix, first component most significant
        let sizes: Vec<i64> = ts.iter().map(|t| values(t).len() as i64).collect();
        (0..ts.len())
            .map(|k| {
                let below: i64 = sizes[k + 1..].iter().product();
                format!("mk_{}((i / {}) % {})", ts[k].id(), below, sizes[k])
            })
            .collect()
    };
    let prod_enc = |ts: &[Ty], names: &[String]| -> String {
        let sizes: Vec<i64> = ts.iter().map(|t| values(t).len() as i64).collect();
        let parts: Vec<String> = (0..ts.len())
            .map(|k| {
                let below: i64 = sizes[k + 1..].iter().product();
                format!("enc_{}({}) * {}", ts[k].id(), names[k], below)
            })
            .collect();
        if parts.is_empty() { "0".into() } else { parts.join(" + ") }
    };
    let text = match ty {
        Ty::Bool => "fn mk_bool(i: int) -> bool {\n  i == 1\n}\nfn enc_bool(v: bool) -> int {\n  if v { 1 } else { 0 }\n}\n".to_string(),
        Ty::Void => "fn mk_void(i: int) -> void {\n  nil\n}\nfn enc_void(v: void) -> int {\n  0\n}\n".to_string(),
        Ty::Int => "fn mk_int(i: int) -> int {\n  i\n}\nfn enc_int(v: int) -> int {\n  v\n}\n".to_string(),
        Ty::Float => "fn mk_float(i: int) -> float {\n  if i == 0 { 1.0 } else if i == 1 { 2.0 } else if i == 2 { 0.0 } else { 3.5 }\n}\n\
                      fn enc_float(v: float) -> int {\n  if v == 1.0 { 0 } else if v == 2.0 { 1 } else if v == 0.0 { 2 } else if v == 3.5 { 3 } else { 99 }\n}\n"
            .to_string(),
        Ty::Str => "fn mk_str(i: int) -> string {\n  if i == 0 { \"a\" } else if i == 1 { \"\" } else { \"zz\" }\n}\n\
                    fn enc_str(v: string) -> int {\n  if v == \"a\" { 0 } else if v == \"\" { 1 } else if v == \"zz\" { 2 } else { 99 }\n}\n"
            .to_string(),
        Ty::Tuple(ts) => {
            for t in ts {
                support_fns(t, out);
            }
            let names: Vec<String> = (0..ts.len()).map(|k| format!("c{k}")).collect();
            format!(
                "fn mk_{id}(i: int) -> {tx} {{\n  ({})\n}}\nfn enc_{id}(v: {tx}) -> int {{\n  match v {{\n    ({}) -> {}\n  }}\n}}\n",
                prod_mk(ts).join(", "),
                names.join(", "),
                prod_enc(ts, &names)
            )
        }
        Ty::Struct(s) => {
            let ts: Vec<Ty> = s.fields.iter().map(|f| f.1.clone()).collect();
            for t in &ts {
                support_fns(t, out);
            }
            let names: Vec<String> = s.fields.iter().map(|f| format!("v.{}", f.0)).collect();
            format!(
                "fn mk_{id}(i: int) -> {tx} {{\n  {}({})\n}}\nfn enc_{id}(v: {tx}) -> int {{\n  {}\n}}\n",
                s.name,
                prod_mk(&ts).join(", "),
                prod_enc(&ts, &names)
            )
        }
        Ty::Enum(e) => {
            let mut mk = String::new();
            let mut enc = String::new();
            let mut off = 0i64;
            for (k, vd) in e.variants.iter().enumerate() {
                let ts: Vec<Ty> = vd.fields.iter().map(|f| f.1.clone()).collect();
                for t in &ts {
                    support_fns(t, out);
                }
                let n: i64 = ts.iter().map(|t| values(t).len() as i64).product();
                let args: Vec<String> = prod_mk(&ts).iter().map(|a| a.replace("(i / ", &format!("((i - {off}) / "))).collect();
                let ctor = if args.is_empty() { format!(".{}", vd.name) } else { format!(".{}({})", vd.name, args.join(", ")) };
                let last = k + 1 == e.variants.len();
                if last {
                    mk.push_str(&format!("{{ {ctor} }}"));
                } else {
                    mk.push_str(&format!("if i < {} {{ {ctor} }} else ", off + n));
                }
                let names: Vec<String> = (0..ts.len()).map(|k| format!("c{k}")).collect();
                let pat = if names.is_empty() { format!(".{}", vd.name) } else { format!(".{}({})", vd.name, names.join(", ")) };
                enc.push_str(&format!("    {pat} -> {off} + {}\n", prod_enc(&ts, &names)));
                off += n;
            }
            format!("fn mk_{id}(i: int) -> {tx} {{\n  {mk}\n}}\nfn enc_{id}(v: {tx}) -> int {{\n  match v {{\n{enc}  }}\n}}\n")
        }
    };
    out.insert(id, text);
}

pub fn support_text(tys: &[Ty]) -> String {
    let mut m = BTreeMap::new();
    for t in tys {
        support_fns(t, &mut m);
    }
    m.values().cloned().collect::<Vec<_>>().join("")
}

// ------------------------------------------------------------------------------ program builder

/// where the match under test is placed
#[derive(Clone, Copy, Debug, PartialEq, Eq)]
pub enum Ctx {
    /// body of its own function
    Plain,
    /// arm body of another match
    ArmBody,
    /// scrutinee of another match
    Scrutinee,
    /// inside a top-level `task { }` block
    Task,
    /// own function, called by the first statement of a program without any top-level variable (the thread's
    /// stack is empty when the match starts); one program per case, only for single-valued types
    Bare,
    /// `let PAT = x` (one irrefutable pattern)
    Let,
    /// `var PAT = x`
    Var,
    /// `for PAT in [x, y] { .. }`
    For,
}
impl Ctx {
    pub fn name(self) -> &'static str {
        match self {
            Ctx::Plain => "plain",
            Ctx::ArmBody => "in-arm-body",
            Ctx::Scrutinee => "in-scrutinee",
            Ctx::Task => "in-task",
            Ctx::Bare => "bare-program",
            Ctx::Let => "let",
            Ctx::Var => "var",
            Ctx::For => "for",
        }
    }
}

#[derive(Clone, Debug)]
pub struct MatchCase {
    pub ctx: Ctx,
    pub ty: Ty,
    pub arms: Vec<Pat>,
}
impl MatchCase {
    /// stable text identifying the enumerated case
    pub fn text(&self) -> String {
        format!("match[{}] {}: {}", self.ctx.name(), self.ty.texpr(), render_arms(&self.arms, &self.ty))
    }
}

pub struct Chunk {
    pub text: String,
    /// byte span of the `match x { ... }` under test, relative to `text`
    pub match_span: (usize, usize),
    /// byte span of each arm's pattern
    pub arm_spans: Vec<(usize, usize)>,
}

/// Source of case number `k` of a program: function `m<k>` holding the match (each arm emits its index
/// and the domain index of every binding in name order), and the driver `t<k>` (or, for `Ctx::Task`, a
/// top-level `if sel == k { ... }`) that feeds host-supplied value indices until a negative one arrives.
pub fn render_chunk(c: &MatchCase, k: usize) -> Chunk {
    let ty = &c.ty;
    let (tx, id) = (ty.texpr(), ty.id());
    let n = values(ty).len();
    let driver = |call: String| -> String {
        format!(
            "fn t{k}() -> void {{\n  var go = true\n  while go {{\n    let i = vh_next_int()\n    if i < 0 {{\n      go = false\n    }} else {{\n      {call}\n      vh_emit_int(-1)\n    }}\n  }}\n}}\n"
        )
    };
    if matches!(c.ctx, Ctx::Let | Ctx::Var | Ctx::For) {
        let p = &c.arms[0];
        let mut s = String::new();
        let mut body = String::from("vh_emit_int(0)\n");
        for (n, bt) in bind_tys(p, ty) {
            body.push_str(&format!("vh_emit_int(enc_{}({n}))\n", bt.id()));
        }
        let a0;
        let a1;
        match c.ctx {
            Ctx::For => {
                s.push_str(&format!("fn m{k}(x: {tx}, y: {tx}) -> void {{\n  for "));
                a0 = s.len();
                s.push_str(&render(p, ty));
                a1 = s.len();
                s.push_str(&format!(" in [x, y] {{\n{body}  }}\n}}\n"));
                s.push_str(&driver(format!("m{k}(mk_{id}(i), mk_{id}((i + 1) % {n}))")));
            }
            _ => {
                let kw = if c.ctx == Ctx::Let { "let" } else { "var" };
                s.push_str(&format!("fn m{k}(x: {tx}) -> void {{\n  {kw} "));
                a0 = s.len();
                s.push_str(&render(p, ty));
                a1 = s.len();
                s.push_str(&format!(" = x\n{body}}}\n"));
                s.push_str(&driver(format!("m{k}(mk_{id}(i))")));
            }
        }
        return Chunk { text: s, match_span: (a0, a1), arm_spans: vec![(a0, a1)] };
    }
    let mut s = String::new();
    // indentation of the match keyword does not matter; spans are computed from the built text.
    // The match is used as a VALUE (the index of the arm that ran), which the driver emits as 1000 + value.
    let (head, scrut_open, ind) = match c.ctx {
        Ctx::ArmBody => (format!("fn m{k}(x: {tx}, c: bool) -> int {{\n  match c {{\n"), "    true -> ".to_string(), "    "),
        Ctx::Scrutinee => (format!("fn m{k}(x: {tx}) -> int {{\n"), "  match (".to_string(), "  "),
        Ctx::Task => (
            format!("if sel == {k} {{\n  var go = true\n  while go {{\n    let i = vh_next_int()\n    if i < 0 {{\n      go = false\n    }} else {{\n      task {{\n        let x = mk_{id}(i)\n"),
            "        let r = ".to_string(),
            "        ",
        ),
        _ => (format!("fn m{k}(x: {tx}) -> int {{\n"), "  ".to_string(), "  "),
    };
    s.push_str(&head);
    s.push_str(&scrut_open);
    let m0 = s.len();
    s.push_str("match x {\n");
    let mut arm_spans = vec![];
    for (i, p) in c.arms.iter().enumerate() {
        s.push_str(ind);
        s.push_str("  ");
        let a0 = s.len();
        s.push_str(&render(p, ty));
        arm_spans.push((a0, s.len()));
        s.push_str(" -> {\n");
        s.push_str(&format!("{ind}    vh_emit_int({i})\n"));
        for (n, bt) in bind_tys(p, ty) {
            s.push_str(&format!("{ind}    vh_emit_int(enc_{}({n}))\n", bt.id()));
        }
        s.push_str(&format!("{ind}    {i}\n"));
        s.push_str(&format!("{ind}  }}\n"));
    }
    s.push_str(ind);
    s.push('}');
    let m1 = s.len();
    match c.ctx {
        Ctx::ArmBody => s.push_str("\n    false -> 0 - 7\n  }\n}\n"),
        Ctx::Scrutinee => s.push_str(") {\n    r -> r + 100\n  }\n}\n"),
        Ctx::Task => s.push_str("\n        vh_emit_int(1000 + r)\n        done.write(1)\n      }\n      let _ = done.read()\n      vh_emit_int(-1)\n    }\n  }\n}\n"),
        _ => s.push_str("\n}\n"),
    }
    if c.ctx != Ctx::Task && c.ctx != Ctx::Bare {
        let call = match c.ctx {
            Ctx::ArmBody => format!("vh_emit_int(1000 + m{k}(mk_{id}(i), i >= 0))"),
            _ => format!("vh_emit_int(1000 + m{k}(mk_{id}(i)))"),
        };
        s.push_str(&driver(call));
    }
    Chunk { text: s, match_span: (m0, m1), arm_spans }
}

pub struct Program {
    pub text: String,
    /// per case: absolute chunk span, match span, arm spans
    pub chunk_spans: Vec<(usize, usize)>,
    pub match_spans: Vec<(usize, usize)>,
    pub arm_spans: Vec<Vec<(usize, usize)>>,
}

pub fn build_program(cases: &[&MatchCase]) -> Program {
    if cases.len() == 1 && cases[0].ctx == Ctx::Bare {
        let c = cases[0];
        assert_eq!(values(&c.ty).len(), 1, "bare programs are only built for single-valued types");
        let mut s = String::from("use vh\n");
        s.push_str(TYPE_DECLS);
        s.push_str(&support_text(std::slice::from_ref(&c.ty)));
        let ch = render_chunk(c, 0);
        let base = s.len();
        s.push_str(&ch.text);
        let end = s.len();
        s.push_str(&format!("vh_emit_int(m0(mk_{}(0)) + 1000)\nvh_emit_int(-1)\n", c.ty.id()));
        return Program {
            text: s,
            chunk_spans: vec![(base, end)],
            match_spans: vec![(base + ch.match_span.0, base + ch.match_span.1)],
            arm_spans: vec![ch.arm_spans.iter().map(|(a, b)| (base + a, base + b)).collect()],
        };
    }
    let mut tys: Vec<Ty> = vec![];
    for c in cases {
        if !tys.contains(&c.ty) {
            tys.push(c.ty.clone());
        }
    }
    let mut s = String::from("use vh\n");
    s.push_str(TYPE_DECLS);
    s.push_str(&support_text(&tys));
    s.push_str("let sel = vh_next_int()\nlet done: channel<int> = channel()\n");
    let mut p = Program { text: String::new(), chunk_spans: vec![], match_spans: vec![], arm_spans: vec![] };
    for (k, c) in cases.iter().enumerate() {
        let ch = render_chunk(c, k);
        let base = s.len();
        s.push_str(&ch.text);
        p.chunk_spans.push((base, s.len()));
        p.match_spans.push((base + ch.match_span.0, base + ch.match_span.1));
        p.arm_spans.push(ch.arm_spans.iter().map(|(a, b)| (base + a, base + b)).collect());
    }
    s.push_str("match sel {\n");
    for (k, c) in cases.iter().enumerate() {
        if c.ctx != Ctx::Task {
            s.push_str(&format!("  {k} -> t{k}()\n"));
        }
    }
    s.push_str("  _ -> nil\n}\n");
    p.text = s;
    p
}

/// standalone program of one case, for reports
pub fn standalone(c: &MatchCase) -> String {
    build_program(&[c]).text
}

// ------------------------------------------------------------------- verdicts of the real checker

pub const MSG_NONEXH: &str = "This match expression doesn't cover every case";
pub const MSG_REDUNDANT: &str = "This match expression has redundant cases";

#[derive(Clone, Debug, Default)]
pub struct Verdict {
    /// Some(witness texts) when the match was reported non-exhaustive
    pub nonexh: Option<Vec<String>>,
    /// Some(arm indices) when the match was reported to have redundant arms
    pub redundant: Option<Vec<usize>>,
    /// any other diagnostic located inside the case's chunk
    pub foreign: Vec<String>,
    pub panic: Option<PanicInfo>,
    /// problems of the harness itself (unattributable label, witness text missing ...)
    pub machinery: Vec<String>,
}
impl Verdict {
    pub fn accepted(&self) -> bool {
        self.nonexh.is_none() && self.redundant.is_none() && self.foreign.is_empty() && self.panic.is_none() && self.machinery.is_empty()
    }
    pub fn summary(&self) -> String {
        if let Some(p) = &self.panic {
            return format!("checker panic at {}: {}", p.site, p.msg);
        }
        let mut v = vec![];
        if let Some(w) = &self.nonexh {
            v.push(format!("non-exhaustive, missing {w:?}"));
        }
        if let Some(r) = &self.redundant {
            v.push(format!("redundant arms {r:?}"));
        }
        for f in &self.foreign {
            v.push(format!("other diagnostic: {f}"));
        }
        for f in &self.machinery {
            v.push(format!("harness problem: {f}"));
        }
        if v.is_empty() { "accepted".into() } else { v.join("; ") }
    }
}

/// witness blocks of the rendered diagnostics: (line, col, witness texts) per non-exhaustive error, in order
pub fn parse_rendered(text: &str) -> Vec<(usize, usize, Vec<String>)> {
    let mut out: Vec<(usize, usize, Vec<String>)> = vec![];
    let mut in_nonexh = false;
    let mut want_loc = false;
    for l in text.lines() {
        if l.starts_with("error") {
            in_nonexh = l.contains(MSG_NONEXH);
            want_loc = in_nonexh;
            continue;
        }
        if !in_nonexh {
            continue;
        }
        if want_loc {
            if let Some(p) = l.find("┌─ ") {
                let loc = l[p + "┌─ ".len()..].trim();
                let mut it = loc.rsplitn(3, ':');
                let col = it.next().and_then(|x| x.parse().ok()).unwrap_or(0);
                let line = it.next().and_then(|x| x.parse().ok()).unwrap_or(0);
                out.push((line, col, vec![]));
                want_loc = false;
            }
            continue;
        }
        let t = l.trim_start();
        if let Some(rest) = t.strip_prefix("= ") {
            if let (Some(a), Some(b)) = (rest.find('`'), rest.rfind('`')) {
                if b > a {
                    if let Some(last) = out.last_mut() {
                        last.2.push(rest[a + 1..b].to_string());
                    }
                }
            }
        }
    }
    out
}

fn line_col(text: &str, off: usize) -> (usize, usize) {
    let pre = &text[..off];
    let line = pre.matches('\n').count() + 1;
    let col = off - pre.rfind('\n').map(|p| p + 1).unwrap_or(0) + 1;
    (line, col)
}

/// Counters of the verdict extraction, for the evidence file.
#[derive(Default)]
pub struct CheckStats {
    pub programs: u64,
    pub standalone_rechecks: u64,
}

fn check_once(prog: &Program, n: usize, witnesses: bool) -> Result<Vec<Verdict>, PanicInfo> {
    let src = Src::with_vh(&prog.text);
    abra_core::verif::reset_counters(1);
    let errs = catch(|| abra_core::check_lsp(&src.main, src.provider()).errors())?;
    let mut v: Vec<Verdict> = (0..n).map(|_| Verdict::default()).collect();
    let mut global: Vec<String> = vec![];
    // positions (in order) of the non-exhaustive errors, to be paired with the rendered witness blocks
    let mut nonexh_order: Vec<(usize, usize)> = vec![]; // (case, byte offset)
    let in_main = |fid: u32, r: &std::ops::Range<usize>| -> bool { fid == 0 && r.end <= prog.text.len() };
    for e in &errs {
        let fid = e.file_id as u32;
        let by_match = if in_main(fid, &e.range) {
            prog.match_spans.iter().position(|s| s.0 == e.range.start && s.1 == e.range.end)
        } else {
            None
        };
        let by_chunk =
            if in_main(fid, &e.range) { prog.chunk_spans.iter().position(|s| s.0 <= e.range.start && e.range.end <= s.1) } else { None };
        if e.message == MSG_NONEXH || e.message == MSG_REDUNDANT {
            let Some(k) = by_match else {
                let m = format!("diagnostic {:?} at {:?} does not coincide with the span of a match under test", e.message, e.range);
                match by_chunk {
                    Some(k) => v[k].machinery.push(m),
                    None => global.push(m),
                }
                continue;
            };
            if e.message == MSG_NONEXH {
                if v[k].nonexh.is_some() {
                    v[k].machinery.push("two non-exhaustive diagnostics for one match".into());
                }
                v[k].nonexh = Some(vec![]);
                nonexh_order.push((k, e.range.start));
            } else {
                let mut arms = vec![];
                for (fid2, r, _) in &e.secondary_labels {
                    // the label of a qualified variant pattern (`En.Aa`) starts after the qualifier, so containment is accepted
                    match prog.arm_spans[k].iter().position(|s| *fid2 as u32 == 0 && s.0 <= r.start && r.end <= s.1 && r.start < r.end) {
                        Some(a) => arms.push(a),
                        None => v[k].machinery.push(format!("redundant-arm label {r:?} is not the span of an arm pattern")),
                    }
                }
                arms.sort();
                if v[k].redundant.is_some() {
                    v[k].machinery.push("two redundant-arm diagnostics for one match".into());
                }
                v[k].redundant = Some(arms);
            }
        } else {
            match by_chunk {
                Some(k) => v[k].foreign.push(format!("{} (at byte {:?})", e.message, e.range)),
                None => global.push(format!("{} (file {} at {:?})", e.message, e.file_id, e.range)),
            }
        }
    }
    if !nonexh_order.is_empty() && witnesses {
        // the witnesses are only available in the notes of the rendered diagnostics
        abra_core::verif::reset_counters(1);
        let text = match catch(|| abra_core::check(&src.main, src.provider())) {
            Ok(Ok(())) => String::new(),
            Ok(Err(e)) => format!("{e}"),
            Err(p) => return Err(p),
        };
        let blocks = parse_rendered(&text);
        if blocks.len() != nonexh_order.len() {
            for (k, _) in &nonexh_order {
                v[*k].machinery.push(format!("rendered diagnostics have {} non-exhaustive blocks, check_lsp has {}", blocks.len(), nonexh_order.len()));
            }
        } else {
            for ((k, off), (line, col, wits)) in nonexh_order.iter().zip(blocks) {
                let (l, c) = line_col(&prog.text, *off);
                if (l, c) != (line, col) {
                    v[*k].machinery.push(format!("witness block at {line}:{col} does not belong to the match at {l}:{c}"));
                }
                if wits.is_empty() {
                    v[*k].machinery.push("non-exhaustive diagnostic without witnesses".into());
                }
                v[*k].nonexh = Some(wits);
            }
        }
    }
    if !global.is_empty() {
        for x in v.iter_mut() {
            x.machinery.extend(global.iter().cloned());
        }
    }
    Ok(v)
}

/// Verdict of the real checker for every case: all cases are put in one program (each match in its own
/// function / block at a known byte span) and every diagnostic is attributed by its byte range.
/// A diagnostic of another kind suppresses the exhaustiveness pass for the whole program, so the cases it
/// belongs to are set aside and the rest is checked again; a checker panic is bisected.
pub fn check_cases(cases: &[&MatchCase], stats: &mut CheckStats) -> Vec<Verdict> {
    check_cases_w(cases, stats, true)
}

/// `witnesses = false` skips the second analysis that renders the diagnostics to obtain the witness notes
pub fn check_cases_w(cases: &[&MatchCase], stats: &mut CheckStats, witnesses: bool) -> Vec<Verdict> {
    if cases.is_empty() {
        return vec![];
    }
    let prog = build_program(cases);
    stats.programs += 1;
    match check_once(&prog, cases.len(), witnesses) {
        Err(p) => {
            if cases.len() == 1 {
                return vec![Verdict { panic: Some(p), ..Default::default() }];
            }
            // isolate the panicking cases: chunks of 16, then single cases (cheaper than halving when many cases panic)
            let step = if cases.len() > 16 { 16 } else { 1 };
            let mut a = vec![];
            for ch in cases.chunks(step) {
                a.extend(check_cases_w(ch, stats, witnesses));
            }
            a
        }
        Ok(v) => {
            let bad: Vec<usize> = (0..cases.len()).filter(|k| !v[*k].foreign.is_empty()).collect();
            if bad.is_empty() || bad.len() == cases.len() {
                return v;
            }
            let rest: Vec<usize> = (0..cases.len()).filter(|k| v[*k].foreign.is_empty()).collect();
            let sub: Vec<&MatchCase> = rest.iter().map(|k| cases[*k]).collect();
            let vr = check_cases_w(&sub, stats, witnesses);
            let mut v = v;
            for (n, k) in rest.iter().enumerate() {
                v[*k] = vr[n].clone();
            }
            v
        }
    }
}

// --------------------------------------------------------------------------------- witness parser

/// pattern printed by the checker as a missing case
#[derive(Clone, Debug, PartialEq)]
pub enum WPat {
    Any,
    Lit(Val),
    Prod(Vec<WPat>),
    /// variant index, payload patterns (None = any payload)
    Var(usize, Option<Vec<WPat>>),
}

pub fn wmatch(w: &WPat, v: &Val) -> bool {
    match (w, v) {
        (WPat::Any, _) => true,
        (WPat::Lit(a), b) => a == b,
        (WPat::Prod(ws), Val::Prod(vs)) => ws.len() == vs.len() && ws.iter().zip(vs).all(|(w, v)| wmatch(w, v)),
        (WPat::Prod(ws), Val::Void) => ws.is_empty(),
        (WPat::Var(i, ws), Val::Var(j, vs)) => {
            i == j
                && match ws {
                    None => true,
                    Some(ws) => ws.len() == vs.len() && ws.iter().zip(vs).all(|(w, v)| wmatch(w, v)),
                }
        }
        _ => false,
    }
}

/// All parses of a prefix of `s` as a witness of type `ty`: (pattern, rest, used the lenient
/// "one `_` per type argument" reading of a variant's payload).
fn wparse<'a>(ty: &Ty, s: &'a str) -> Vec<(WPat, &'a str, bool)> {
    let mut out = vec![];
    if let Some(r) = s.strip_prefix('_') {
        out.push((WPat::Any, r, false));
    }
    let tok_end = |s: &str| s.find([',', ')']).unwrap_or(s.len());
    match ty {
        Ty::Bool => {
            for (t, b) in [("true", true), ("false", false)] {
                if let Some(r) = s.strip_prefix(t) {
                    out.push((WPat::Lit(Val::Bool(b)), r, false));
                }
            }
        }
        Ty::Int => {
            let e = tok_end(s);
            if let Ok(i) = s[..e].parse::<i64>() {
                out.push((WPat::Lit(Val::Int(i)), &s[e..], false));
            }
        }
        Ty::Float => {
            let e = tok_end(s);
            if s[..e].chars().next().map(|c| c.is_ascii_digit()).unwrap_or(false) {
                if let Ok(f) = s[..e].parse::<f64>() {
                    out.push((WPat::Lit(Val::Float(f)), &s[e..], false));
                }
            }
        }
        Ty::Str => {
            // printed without quotes; the universe's strings contain neither ',' nor ')'
            let e = tok_end(s);
            if &s[..e] != "_" {
                out.push((WPat::Lit(Val::Str(s[..e].to_string())), &s[e..], false));
            }
        }
        Ty::Void => {
            if let Some(r) = s.strip_prefix("()") {
                out.push((WPat::Prod(vec![]), r, false));
            }
        }
        Ty::Tuple(ts) => {
            if let Some(r) = s.strip_prefix('(') {
                let tys: Vec<(Option<String>, Ty)> = ts.iter().map(|t| (None, t.clone())).collect();
                for (ws, r, l) in wparse_list(&tys, r, false) {
                    if let Some(r) = r.strip_prefix(')') {
                        out.push((WPat::Prod(ws), r, l));
                    }
                }
            }
        }
        Ty::Struct(sd) => {
            if let Some(r) = s.strip_prefix(&format!("{}(", sd.name)) {
                let tys: Vec<(Option<String>, Ty)> = sd.fields.iter().map(|f| (Some(f.0.clone()), f.1.clone())).collect();
                for (ws, r, l) in wparse_list(&tys, r, true) {
                    if let Some(r) = r.strip_prefix(')') {
                        out.push((WPat::Prod(ws), r, l));
                    }
                }
            }
        }
        Ty::Enum(e) => {
            for (i, vd) in e.variants.iter().enumerate() {
                let Some(r) = s.strip_prefix(vd.name.as_str()) else { continue };
                // the variant name must end here
                if r.chars().next().map(|c| c.is_alphanumeric() || c == '_').unwrap_or(false) {
                    continue;
                }
                // the payload of a multi-field variant is printed as a tuple, of a single non-void field as that field
                let payload: Option<Ty> = match vd.fields.len() {
                    0 => None,
                    1 => {
                        if vd.fields[0].1 == Ty::Void { None } else { Some(vd.fields[0].1.clone()) }
                    }
                    _ => Some(Ty::Tuple(vd.fields.iter().map(|f| f.1.clone()).collect())),
                };
                // bare name: any payload
                out.push((WPat::Var(i, None), r, false));
                if let Some(r2) = r.strip_prefix(" of ") {
                    if let Some(pt) = &payload {
                        for (w, r3, l) in wparse(pt, r2) {
                            let fields = if vd.fields.len() == 1 {
                                Some(vec![w])
                            } else {
                                match w {
                                    WPat::Prod(ws) => Some(ws),
                                    WPat::Any => None,
                                    _ => continue,
                                }
                            };
                            out.push((WPat::Var(i, fields), r3, l));
                        }
                    }
                    // lenient reading: a missing variant of a generic enum is printed with one `_` per TYPE ARGUMENT of the enum
                    if e.ntyargs > 0 {
                        let wild = vec!["_"; e.ntyargs].join(", ");
                        if let Some(r3) = r2.strip_prefix(wild.as_str()) {
                            let proper = payload.is_some() && e.ntyargs == 1;
                            if !proper {
                                out.push((WPat::Var(i, None), r3, true));
                            }
                        }
                    }
                }
            }
        }
    }
    out
}

fn wparse_list<'a>(tys: &[(Option<String>, Ty)], s: &'a str, named: bool) -> Vec<(Vec<WPat>, &'a str, bool)> {
    if tys.is_empty() {
        return vec![(vec![], s, false)];
    }
    let mut out = vec![];
    let s0 = if named {
        match s.strip_prefix(&format!("{} = ", tys[0].0.as_ref().unwrap())) {
            Some(r) => r,
            None => return vec![],
        }
    } else {
        s
    };
    for (w, r, l) in wparse(&tys[0].1, s0) {
        if tys.len() == 1 {
            out.push((vec![w], r, l));
        } else if let Some(r) = r.strip_prefix(", ") {
            for (mut ws, r2, l2) in wparse_list(&tys[1..], r, named) {
                ws.insert(0, w.clone());
                out.push((ws, r2, l || l2));
            }
        }
    }
    out
}

/// Parse a complete witness text. Ok((pattern, lenient)) or Err(reason).
pub fn parse_witness(ty: &Ty, s: &str) -> Result<(WPat, bool), String> {
    let mut full: Vec<(WPat, bool)> = wparse(ty, s).into_iter().filter(|(_, r, _)| r.is_empty()).map(|(w, _, l)| (w, l)).collect();
    if full.is_empty() {
        return Err(format!("cannot read `{s}` as a pattern of type {}", ty.texpr()));
    }
    // prefer a strict reading
    full.sort_by_key(|x| x.1);
    Ok(full.remove(0))
}

// ------------------------------------------------------------------------------------ the runner

#[derive(Clone, Debug)]
pub enum RunRes {
    /// emits, end, number of values fed
    Ran(Vec<Emit>, End),
    Diag(String),
    CompilerPanic(PanicInfo),
}

/// Compile the given cases as one program and run each on the value indices `feeds[k]` of its domain (one
/// fresh runtime per case; the value indices and the terminator -1 are fed by the host). A program that
/// does not compile is bisected down to the responsible cases.
pub fn run_cases(cases: &[&MatchCase], feeds: &[Vec<i64>], programs: &mut u64) -> Vec<RunRes> {
    if cases.is_empty() {
        return vec![];
    }
    let prog = build_program(cases);
    let src = Src::with_vh(&prog.text);
    *programs += 1;
    let split = |programs: &mut u64| {
        let step = if cases.len() > 16 { 16 } else { 1 };
        let mut a = vec![];
        let mut at = 0;
        while at < cases.len() {
            let to = (at + step).min(cases.len());
            a.extend(run_cases(&cases[at..to], &feeds[at..to], programs));
            at = to;
        }
        a
    };
    match drive::compile(&src, COpts::default()) {
        Compiled::Ok(p) => {
            let table = src.host_table();
            (0..cases.len())
                .map(|k| {
                    let mut host = StdHost::default();
                    let mut inputs = VecDeque::new();
                    inputs.push_back(Input::Int(k as i64));
                    for i in &feeds[k] {
                        inputs.push_back(Input::Int(*i));
                    }
                    inputs.push_back(Input::Int(-1));
                    host.inputs = inputs;
                    // a thread blocked on a channel read spins, so host calls of a task are only serviced between
                    // run_n_steps calls: task placements get a small budget per call
                    let ro = if cases[k].ctx == Ctx::Task {
                        ROpts { budget: 16, max_steps: 400_000 }
                    } else {
                        ROpts { budget: u32::MAX, max_steps: 200_000 }
                    };
                    let r = drive::run(&p, &table, host, ro);
                    RunRes::Ran(r.host.emits, r.end)
                })
                .collect()
        }
        Compiled::Diag(d) => {
            if cases.len() == 1 {
                vec![RunRes::Diag(d)]
            } else {
                split(programs)
            }
        }
        Compiled::Panic(p) => {
            if cases.len() == 1 {
                vec![RunRes::CompilerPanic(p)]
            } else {
                split(programs)
            }
        }
    }
}

/// what the model expects the case to emit for value `v` when `v` matches an arm
pub fn expected_emits(c: &MatchCase, v: &Val) -> Option<Vec<i64>> {
    let (arm, binds) = first_match(&c.arms, v)?;
    let tys = bind_tys(&c.arms[arm], &c.ty);
    let mut e = vec![arm as i64];
    for ((n, val), (n2, t)) in binds.iter().zip(&tys) {
        assert_eq!(n, n2, "binding order of model and printer differ");
        e.push(index_of(t, val));
    }
    match c.ctx {
        Ctx::Let | Ctx::Var | Ctx::For => {}
        Ctx::Scrutinee => e.push(1100 + arm as i64),
        _ => e.push(1000 + arm as i64),
    }
    Some(e)
}

/// expected emits of value index `i` (the `for` form iterates over [v_i, v_(i+1 mod n)])
pub fn expected_for_index(c: &MatchCase, vals: &[Val], i: usize) -> Option<Vec<i64>> {
    let mut e = expected_emits(c, &vals[i])?;
    if c.ctx == Ctx::For {
        e.extend(expected_emits(c, &vals[(i + 1) % vals.len()])?);
    }
    Some(e)
}

/// split the observed emits into per-value groups (terminated by -1); the last group is the unterminated tail
pub fn split_emits(emits: &[Emit]) -> (Vec<Vec<i64>>, Vec<i64>, bool) {
    let mut groups = vec![];
    let mut cur = vec![];
    let mut alien = false;
    for e in emits {
        match e {
            Emit::Int(-1) => groups.push(std::mem::take(&mut cur)),
            Emit::Int(x) => cur.push(*x),
            _ => alien = true,
        }
    }
    (groups, cur, alien)
}

// ----------------------------------------------------------------------- strata, units and cases

#[derive(Clone, Debug)]
pub struct Stratum {
    pub ctx: Ctx,
    /// index into `universe()`
    pub ty: usize,
    /// false: all arm lists up to the length bound; true: the cover lists
    pub cover: bool,
    pub n: u64,
}

pub const UNIT_CASES: u64 = 400;

/// The strata of the universe for a tier, and for each unit: (stratum index, first case, number of cases).
pub fn plan(tier: Tier, with_ctx: bool) -> (Vec<Stratum>, Vec<(usize, u64, u64)>) {
    let u = universe();
    let mut strata = vec![];
    for (i, t) in u.iter().enumerate() {
        strata.push(Stratum { ctx: Ctx::Plain, ty: i, cover: false, n: n_lists(t.pats.len(), tier.pick(t.len.0, t.len.1)) });
        if !t.groups.is_empty() {
            strata.push(Stratum { ctx: Ctx::Plain, ty: i, cover: true, n: cover_lists(&t.groups).len() as u64 });
        }
    }
    if with_ctx {
        for ctx in [Ctx::ArmBody, Ctx::Scrutinee, Ctx::Task] {
            for (i, t) in u.iter().enumerate() {
                let l = tier.pick(t.ctx_len.0, t.ctx_len.1);
                if l > 0 {
                    strata.push(Stratum { ctx, ty: i, cover: false, n: n_lists(t.pats.len(), l) });
                }
            }
        }
    }
    if with_ctx {
        for (i, t) in u.iter().enumerate() {
            if values(&t.ty).len() == 1 {
                strata.push(Stratum { ctx: Ctx::Bare, ty: i, cover: false, n: n_lists(t.pats.len(), 2) });
            }
        }
    }
    let mut units = vec![];
    for (si, s) in strata.iter().enumerate() {
        let mut a = 0;
        while a < s.n {
            let len = UNIT_CASES.min(s.n - a);
            units.push((si, a, len));
            a += len;
        }
    }
    (strata, units)
}

pub fn unit_cases(tier: Tier, with_ctx: bool, unit: usize) -> Vec<MatchCase> {
    let (strata, units) = plan(tier, with_ctx);
    let (si, a, len) = units[unit];
    let s = &strata[si];
    let u = universe();
    let t = &u[s.ty];
    if s.cover {
        let all = cover_lists(&t.groups);
        all[a as usize..(a + len) as usize].iter().map(|l| MatchCase { ctx: s.ctx, ty: t.ty.clone(), arms: l.clone() }).collect()
    } else {
        (a..a + len)
            .map(|idx| {
                let arms = decode_list(t.pats.len(), idx).into_iter().map(|k| t.pats[k].clone()).collect();
                MatchCase { ctx: s.ctx, ty: t.ty.clone(), arms }
            })
            .collect()
    }
}

pub fn total_cases(tier: Tier, with_ctx: bool) -> u64 {
    plan(tier, with_ctx).0.iter().map(|s| s.n).sum()
}

pub fn describe_universe(tier: Tier, with_ctx: bool) -> String {
    let u = universe();
    let (strata, units) = plan(tier, with_ctx);
    let mut parts = vec![];
    for s in &strata {
        let t = &u[s.ty];
        parts.push(format!(
            "{}{} {}: {} patterns, {} = {} arm lists over {} values",
            s.ctx.name(),
            if s.cover { " cover-lists" } else { "" },
            t.ty.texpr(),
            t.pats.len(),
            if s.cover {
                "constructor groups in rotated/reversed order x alternatives x optional `_` tail".to_string()
            } else {
                format!("all lists of length <= {}", match s.ctx {
                    Ctx::Plain => tier.pick(t.len.0, t.len.1),
                    Ctx::Bare => 2,
                    _ => tier.pick(t.ctx_len.0, t.ctx_len.1),
                })
            },
            s.n,
            values(&t.ty).len()
        ));
    }
    format!("{} strata, {} units: {}", strata.len(), units.len(), parts.join("; "))
}

/// batch size of the checker / runner programs
pub const BATCH: usize = 150;

/// Honour the unit's case filter and return the selected case indices of the chunk `[i, j)`.
pub fn select(out: &mut UnitOut, i: usize, j: usize) -> Vec<usize> {
    (i..j).filter(|k| out.begin_case(*k as u64)).collect()
}

pub fn batch_size(out: &UnitOut, cases: &[MatchCase]) -> usize {
    if out.isolate || out.only_case.is_some() || cases.first().map(|c| c.ctx == Ctx::Bare).unwrap_or(false) { 1 } else { BATCH }
}

/// Round-trip case run once per unit: `enc(mk(i)) == i` for every value of the type, which validates the
/// generated support functions (and with them plain binding-only tuple / variant patterns).
pub fn roundtrip_ok(ty: &Ty) -> Result<(), String> {
    let n = values(ty).len() as i64;
    let id = ty.id();
    let text = format!(
        "use vh\n{TYPE_DECLS}{}var i = 0\nwhile i < {n} {{\n  vh_emit_int(enc_{id}(mk_{id}(i)))\n  i = i + 1\n}}\n",
        support_text(std::slice::from_ref(ty))
    );
    let src = Src::with_vh(&text);
    match drive::compile(&src, COpts::default()) {
        Compiled::Ok(p) => {
            let r = drive::run(&p, &src.host_table(), StdHost::default(), ROpts::default());
            let exp: Vec<Emit> = (0..n).map(Emit::Int).collect();
            if r.end == End::Done && r.host.emits == exp {
                Ok(())
            } else {
                Err(format!("round trip enc(mk(i)) for {}: end={:?} emits={:?}\n{text}", ty.texpr(), r.end, r.host.emits))
            }
        }
        Compiled::Diag(d) => Err(format!("support functions of {} do not compile: {d}\n{text}", ty.texpr())),
        Compiled::Panic(p) => Err(format!("support functions of {} panic the compiler at {}: {}\n{text}", ty.texpr(), p.site, p.msg)),
    }
}

// ------------------------------------------------------------------- let / var / for destructuring

/// every irrefutable pattern of `ty` over wildcard, binding, `nil`, tuple and struct patterns
/// (positional / named / named-reversed), to nesting depth `depth`; bindings are named `?` (renamed later)
fn irrefutable(ty: &Ty, depth: usize, top: bool) -> Vec<Pat> {
    let mut v = vec![Pat::Wild, bind("?")];
    if *ty == Ty::Void && !top {
        v.push(Pat::Nil);
    }
    if depth == 0 {
        return v;
    }
    let combos = |ts: &[Ty]| -> Vec<Vec<Pat>> {
        let mut acc: Vec<Vec<Pat>> = vec![vec![]];
        for t in ts {
            let opts = irrefutable(t, depth - 1, false);
            let mut next = vec![];
            for pre in &acc {
                for o in &opts {
                    let mut p = pre.clone();
                    p.push(o.clone());
                    next.push(p);
                }
            }
            acc = next;
        }
        acc
    };
    match ty {
        Ty::Tuple(ts) => {
            for c in combos(ts) {
                v.push(Pat::Tuple(c));
            }
        }
        Ty::Struct(s) => {
            let ts: Vec<Ty> = s.fields.iter().map(|f| f.1.clone()).collect();
            let forms: &[Form] = if ts.len() > 1 { &[Form::Pos, Form::Named, Form::NamedRev] } else { &[Form::Pos, Form::Named] };
            for form in forms {
                for c in combos(&ts) {
                    v.push(Pat::Struct(*form, c));
                }
            }
        }
        _ => {}
    }
    v
}

fn rename_binds(p: &Pat, n: &mut usize) -> Pat {
    match p {
        Pat::Bind(_) => {
            *n += 1;
            bind(&format!("v{}", *n - 1))
        }
        Pat::Tuple(ps) => Pat::Tuple(ps.iter().map(|p| rename_binds(p, n)).collect()),
        Pat::Struct(f, ps) => Pat::Struct(*f, ps.iter().map(|p| rename_binds(p, n)).collect()),
        other => other.clone(),
    }
}

pub fn destructuring_types() -> Vec<Ty> {
    vec![
        t_tup(vec![Ty::Bool, Ty::Bool]),
        t_tup(vec![Ty::Bool, Ty::Void]),
        t_tup(vec![Ty::Bool, t_tup(vec![Ty::Bool, Ty::Bool])]),
        t_tup(vec![Ty::Int, Ty::Str, Ty::Float]),
        t_st(),
        t_sv(),
        t_bx(Ty::Bool),
        t_bx(t_tup(vec![Ty::Bool, Ty::Void])),
        t_se(),
        t_tup(vec![t_st(), t_opt(Ty::Bool)]),
        t_tup(vec![t_sv(), t_tup(vec![Ty::Void, Ty::Bool])]),
    ]
}

/// All `let` / `var` / `for` destructuring cases of type number `t`.
pub fn destructuring_cases(t: usize) -> Vec<MatchCase> {
    let ty = destructuring_types()[t].clone();
    let mut out = vec![];
    for p in irrefutable(&ty, 2, true) {
        let p = rename_binds(&p, &mut 0);
        for ctx in [Ctx::Let, Ctx::Var, Ctx::For] {
            out.push(MatchCase { ctx, ty: ty.clone(), arms: vec![p.clone()] });
        }
    }
    out
}
