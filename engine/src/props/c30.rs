//! C30 — literals denote exactly the values they spell.
//!
//! Strata (each exhausted):
//! * integer literals: the C15 boundary grid in several spellings (plain, `_` every three digits,
//!   negated, `- N`, parenthesised, bound by `let`), every placement of single `_` separators in a
//!   menu of digit strings of length ≤ 6 (thorough: also a 10-digit string and MAX/MIN with ≤ 2
//!   separators), and out-of-range spellings (MAX+1, MIN−1, 2^64, 10^19 … 10^100) which must be
//!   rejected with a diagnostic — those are compiled one per program;
//! * float literals: all `I.F` spellings with ≤ 3 (thorough ≤ 4) digits, positive and negated; a
//!   round-half family built from exact decimal expansions of boundary values and of the midpoints
//!   between neighbours (exact, nudged by one unit in the last digit, truncated to 17–20 significant
//!   digits, padded with zeros), 300+-digit magnitudes, spelled-out subnormals, `_` placements;
//! * string literals: all strings of length ≤ 3 (thorough ≤ 4) over a 13-character menu written as
//!   double-quoted, single-quoted and triple-quoted literals by two escapers that use only the
//!   implemented escapes (`\n \t \r \" \' \\ \xHH` with HH < 0x80);
//! * triple-quoted multi-line layouts: ≤ 3 content lines (both tiers: a blank line strictly between two
//!   content lines needs three) × indent {0,2,4,TAB} × opener residue ×
//!   closing-delimiter position; the model encodes the rules pinned by the repository's
//!   `multiline_string_*` tests and marks every other layout Unspecified (for those only
//!   "indentation stripping never deletes a non-whitespace character" is asserted);
//! * malformed literals (unterminated, unknown escapes): no expectation except "no fault".
//!
//! Oracles: integers by construction; floats `I.F` by one correctly rounded IEEE division
//! N / 10^k; every float expectation (from `str::parse::<f64>`) is additionally *verified* by an
//! independent exact-decimal bracket check (the spelling lies between the midpoints to the
//! neighbouring binary64 values, ties to even); strings by construction (the generator knows the
//! text it escaped). Values are observed through `vh_emit_int / vh_emit_float / vh_emit_str`.

use super::floatlit_util::{Exp, Want, exact_decimal, exact_of, judge_isolating, midpoint_above, nudge_last_digit, truncate_sig};
use crate::batch::{Case, run_cases};
use crate::drive::{COpts, ROpts};
use crate::fw::{Prop, Tier, UnitOut};
use serde_json::json;
use std::cmp::Ordering;

pub struct C30;

struct Item {
    case: Case,
    exp: Exp,
    class: String,
    /// compile this case as a program of its own (expected diagnostics, or a literal that may
    /// swallow the text after it and so disturb its neighbours in a batch)
    solo: bool,
}

fn item(name: String, body: String, exp: Exp, class: &str) -> Item {
    Item { case: Case::new(name, body), exp, class: class.to_string(), solo: false }
}
fn solo(mut i: Item) -> Item {
    i.solo = true;
    i
}

// ================================================================== integers

fn group3(digits: &str) -> String {
    let n = digits.len();
    let mut s = String::new();
    for (i, ch) in digits.chars().enumerate() {
        if i > 0 && (n - i) % 3 == 0 {
            s.push('_');
        }
        s.push(ch);
    }
    s
}

/// all placements of single `_` in the gaps between the digits of `d` selected by `mask`
fn with_underscores(d: &str, mask: u32) -> String {
    let mut s = String::new();
    for (i, ch) in d.chars().enumerate() {
        if i > 0 && mask & (1 << (i - 1)) != 0 {
            s.push('_');
        }
        s.push(ch);
    }
    s
}

const DIGIT_MENU: [&str; 14] =
    ["7", "0", "42", "10", "00", "100", "907", "007", "1234", "1000", "90807", "65536", "123456", "100000"];

fn int_use(spelling: &str, form: usize) -> String {
    match form {
        0 => format!("vh_emit_int({spelling})"),
        _ => format!("let v = {spelling}\nvh_emit_int(v)"),
    }
}

fn ints_ok(tier: Tier) -> Vec<Item> {
    let mut v = vec![];
    // boundary grid in several spellings
    for n in super::c15::grid() {
        let mag = (n as i128).unsigned_abs().to_string();
        let mut spellings: Vec<String> = vec![];
        if n >= 0 {
            spellings.push(mag.clone());
            spellings.push(group3(&mag));
            spellings.push(format!("({mag})"));
            spellings.push(format!("000{mag}"));
        } else {
            spellings.push(format!("-{mag}"));
            spellings.push(format!("-{}", group3(&mag)));
            spellings.push(format!("- {mag}"));
            spellings.push(format!("(-{mag})"));
        }
        spellings.dedup();
        for s in spellings {
            for form in 0..2 {
                v.push(item(
                    format!("int literal `{s}` [{}]", ["arg", "let"][form]),
                    int_use(&s, form),
                    Exp::Done(vec![Want::Int(n)]),
                    "int:boundary",
                ));
            }
        }
    }
    // every placement of single separators
    let mut menu: Vec<String> = DIGIT_MENU.iter().map(|s| s.to_string()).collect();
    if tier == Tier::Thorough {
        menu.push("2147483648".into());
        menu.push("999999".into());
        menu.push("4294967296".into());
    }
    for d in &menu {
        let val: i64 = d.parse().unwrap();
        for mask in 0..(1u32 << (d.len() - 1)) {
            let s = with_underscores(d, mask);
            v.push(item(format!("int literal `{s}` [sep]"), int_use(&s, 0), Exp::Done(vec![Want::Int(val)]), "int:separators"));
            v.push(item(format!("int literal `-{s}` [sep]"), int_use(&format!("-{s}"), 0), Exp::Done(vec![Want::Int(-val)]), "int:separators"));
        }
    }
    if tier == Tier::Thorough {
        // MAX and MIN with at most two separators anywhere
        let d = "9223372036854775807";
        let dm = "9223372036854775808";
        let gaps = d.len() - 1;
        let mut masks = vec![0u32];
        for i in 0..gaps {
            masks.push(1 << i);
            for j in (i + 1)..gaps {
                masks.push((1 << i) | (1 << j));
            }
        }
        for m in masks {
            let s = with_underscores(d, m);
            v.push(item(format!("int literal `{s}` [sep]"), int_use(&s, 0), Exp::Done(vec![Want::Int(i64::MAX)]), "int:separators"));
            let s = with_underscores(dm, m);
            v.push(item(format!("int literal `-{s}` [sep]"), int_use(&format!("-{s}"), 0), Exp::Done(vec![Want::Int(i64::MIN)]), "int:separators"));
        }
    }
    // spellings the manual does not describe: doubled / trailing separators (no fault is all we ask)
    for s in ["1__0", "1_", "1_000_", "-1_", "1___", "0_"] {
        v.push(item(format!("int literal `{s}` [odd separators]"), int_use(s, 0), Exp::Unspecified, "int:unspecified"));
    }
    v
}

fn ints_bad() -> Vec<Item> {
    let mut v = vec![];
    let pow10 = |k: usize| format!("1{}", "0".repeat(k));
    let mut sp: Vec<String> = vec![
        "9223372036854775808".into(),
        "9_223_372_036_854_775_808".into(),
        "-9223372036854775809".into(),
        "-9_223_372_036_854_775_809".into(),
        "- 9223372036854775809".into(),
        "-(9223372036854775808)".into(),
        "0 - 9223372036854775808".into(),
        "(9223372036854775808)".into(),
        "9223372036854775809".into(),
        "18446744073709551615".into(),
        "18446744073709551616".into(),
        "-18446744073709551616".into(),
        "99999999999999999999".into(),
        "09223372036854775808".into(),
        "170141183460469231731687303715884105727".into(),
        "340282366920938463463374607431768211456".into(),
    ];
    for k in [19, 20, 30, 100, 400] {
        sp.push(pow10(k));
        sp.push(format!("-{}", pow10(k)));
    }
    for s in sp {
        for form in 0..2 {
            let short = if s.len() > 60 { format!("{}…({} chars)", &s[..24], s.len()) } else { s.clone() };
            v.push(solo(item(
                format!("int literal `{short}` out of range [{}]", ["arg", "let"][form]),
                int_use(&s, form),
                Exp::Reject,
                "int:rejected",
            )));
        }
    }
    v
}

// ================================================================== floats

/// compare two positional decimal texts (digits `.` digits, non-negative)
fn cmp_dec(a: &str, b: &str) -> Ordering {
    fn split(s: &str) -> (&str, &str) {
        let (i, f) = s.split_once('.').unwrap_or((s, ""));
        (i.trim_start_matches('0'), f.trim_end_matches('0'))
    }
    let (ai, af) = split(a);
    let (bi, bf) = split(b);
    ai.len().cmp(&bi.len()).then_with(|| ai.cmp(bi)).then_with(|| {
        let n = af.len().max(bf.len());
        let pa = format!("{af:0<n$}");
        let pb = format!("{bf:0<n$}");
        pa.cmp(&pb)
    })
}

/// Independent verification that binary64 `c` (non-negative, possibly +inf) is the correctly rounded
/// (nearest, ties to even) value of the non-negative decimal text `s`.
pub fn verify_rounding(s: &str, c: f64) -> bool {
    static MAX_MID: std::sync::OnceLock<String> = std::sync::OnceLock::new();
    // midpoint between MAX and 2^1024
    let max_mid = MAX_MID.get_or_init(|| exact_decimal(2 * ((1u64 << 53) - 1) + 1, 971 - 1)).clone();
    if c.is_infinite() {
        return cmp_dec(s, &max_mid) != Ordering::Less;
    }
    let even = c.to_bits() & 1 == 0;
    // upper bracket
    let up = if c == f64::MAX { max_mid } else if c == 0.0 { exact_decimal(1, -1075) } else { midpoint_above(c) };
    let o = cmp_dec(s, &up);
    if o == Ordering::Greater || (o == Ordering::Equal && !even) {
        return false;
    }
    // lower bracket
    if c == 0.0 {
        return true;
    }
    let pred = f64::from_bits(c.to_bits() - 1);
    let lo = if pred == 0.0 { exact_decimal(1, -1075) } else { midpoint_above(pred) };
    let o = cmp_dec(s, &lo);
    !(o == Ordering::Less || (o == Ordering::Equal && !even))
}

/// expectation for a float spelling `abs` (no sign, no underscores), negated if `neg`
fn float_exp(abs: &str, neg: bool) -> (Exp, &'static str) {
    let c: f64 = abs.parse().expect("generator produced an unparsable float spelling");
    assert!(verify_rounding(abs, c), "oracle self-check failed: str::parse::<f64>({abs}) = {c:e} is not the correctly rounded value");
    let nonzero = abs.bytes().any(|b| (b'1'..=b'9').contains(&b));
    if c.is_infinite() {
        return (Exp::Unspecified, "float:overflow-unspecified");
    }
    if c == 0.0 && nonzero {
        return (Exp::Unspecified, "float:underflow-unspecified");
    }
    let v = if neg { -c } else { c };
    let class = if c == 0.0 {
        "float:zero"
    } else if c.is_subnormal() {
        "float:subnormal"
    } else {
        "float:normal"
    };
    (Exp::Done(vec![Want::Float(v.to_bits())]), class)
}

fn float_item(spelling_abs_with_sep: &str, neg: bool, tag: &str, ov: Option<(Exp, &'static str)>) -> Item {
    let clean: String = spelling_abs_with_sep.chars().filter(|c| *c != '_').collect();
    let (exp, class) = ov.unwrap_or_else(|| float_exp(&clean, neg));
    let lit = if neg { format!("-{spelling_abs_with_sep}") } else { spelling_abs_with_sep.to_string() };
    let short = if lit.len() > 70 { format!("{}…{}({} chars)", &lit[..30], &lit[lit.len() - 12..], lit.len()) } else { lit.clone() };
    // long spellings are identified by a hash of the full text so that names stay unique
    let name = if lit.len() > 70 {
        format!("float literal `{short}` #{} [{tag}]", crate::fw::hkey(&lit))
    } else {
        format!("float literal `{short}` [{tag}]")
    };
    item(name, format!("vh_emit_float({lit})"), exp, class)
}

/// all `I.F` spellings with |I| = il, |F| = fl digits
fn floats_short(il: usize, fl: usize, neg: bool) -> Vec<Item> {
    let mut v = vec![];
    let (ni, nf) = (10u32.pow(il as u32), 10u32.pow(fl as u32));
    for i in 0..ni {
        for f in 0..nf {
            let s = format!("{i:0il$}.{f:0fl$}");
            // independent oracle: one correctly rounded division of two exactly representable integers
            let q = ((i * nf + f) as f64) / (nf as f64);
            let (exp, class) = float_exp(&s, neg);
            if let Exp::Done(w) = &exp {
                let want = if neg { -q } else { q };
                assert!(w[0] == Want::Float(want.to_bits()), "oracles disagree on {s}");
            }
            v.push(float_item(&s, neg, "short", Some((exp, class))));
        }
    }
    v
}

fn floats_long(tier: Tier) -> Vec<Item> {
    let b = f64::from_bits;
    let mut bases: Vec<f64> = vec![
        1.0,
        1.5,
        0.1,
        0.3,
        9007199254740992.0,
        9007199254740994.0,
        1e15,
        1e22,
        1e23,
        b(1),
        b(2),
        b(0x000f_ffff_ffff_ffff),
        f64::MIN_POSITIVE,
        1e-308,
        f64::MAX,
        b(f64::MAX.to_bits() - 1),
        std::f64::consts::PI,
        123456.789,
        0.30000000000000004,
        8.98846567431158e307,
        9223372036854775808.0,
        5e-324 * 3.0,
    ];
    if tier == Tier::Thorough {
        bases.extend([
            2.0,
            0.5,
            0.2,
            0.7,
            1e-5,
            1e16,
            1e21,
            1e100,
            1e-100,
            1e300,
            1e-300,
            std::f64::consts::E,
            4503599627370496.0,
            4503599627370495.5,
            2.2250738585072011e-308,
            1.7976931348623157e308 / 2.0,
            b(0x0010_0000_0000_0001),
            b(0x7fe0_0000_0000_0000),
            b(0x3ff0_0000_0000_0001),
            b(0x3fef_ffff_ffff_ffff),
            b(0x4340_0000_0000_0001),
            b(0x0000_0000_0000_0003),
            b(0x0008_0000_0000_0000),
        ]);
    }
    let mut sp: Vec<(String, &'static str)> = vec![];
    for v in bases {
        let ex = exact_of(v);
        let mid = midpoint_above(v);
        let shortest = super::floatlit_util::spell_abs(v).unwrap();
        sp.push((ex.clone(), "exact"));
        sp.push((shortest.clone(), "shortest"));
        sp.push((format!("{shortest}000"), "shortest+zeros"));
        sp.push((format!("000{shortest}"), "zeros+shortest"));
        sp.push((format!("{ex}{}", "0".repeat(30)), "exact+zeros"));
        sp.push((mid.clone(), "midpoint"));
        if let Some(u) = nudge_last_digit(&mid, true) {
            sp.push((u, "midpoint+ulp"));
        }
        if let Some(d) = nudge_last_digit(&mid, false) {
            sp.push((d, "midpoint-ulp"));
        }
        sp.push((format!("{mid}{}1", "0".repeat(40)), "midpoint+tiny"));
        for k in 17..=20 {
            let t = truncate_sig(&mid, k);
            if let Some(u) = nudge_last_digit(&t, true) {
                sp.push((u, "midpoint-trunc+1"));
            }
            sp.push((t, "midpoint-trunc"));
            sp.push((truncate_sig(&ex, k), "exact-trunc"));
        }
        if v.to_bits() > 1 {
            let midb = midpoint_above(b(v.to_bits() - 1));
            sp.push((midb.clone(), "midpoint-below"));
            for k in [17, 19] {
                sp.push((truncate_sig(&midb, k), "midpoint-below-trunc"));
            }
        }
    }
    // very long magnitudes and tiny fractions
    for k in [22usize, 300, 307, 308] {
        sp.push((format!("1{}.0", "0".repeat(k)), "power-of-ten"));
        sp.push((format!("{}.5", "9".repeat(k)), "nines"));
    }
    sp.push((format!("17976931348623157{}.0", "0".repeat(292)), "max-shortest"));
    sp.push((format!("17976931348623158{}.0", "0".repeat(292)), "just-below-overflow-threshold"));
    sp.push((format!("17976931348623159{}.0", "0".repeat(292)), "overflow"));
    sp.push((format!("2{}.0", "0".repeat(308)), "overflow"));
    sp.push((format!("1{}.0", "0".repeat(400)), "overflow"));
    for k in [5usize, 22, 307, 320, 322, 323] {
        sp.push((format!("0.{}1", "0".repeat(k)), "tiny"));
        sp.push((format!("0.{}49", "0".repeat(k)), "tiny"));
    }
    sp.push((format!("0.{}24703282292062327", "0".repeat(323)), "below-half-min-subnormal"));
    sp.push((format!("0.{}24703282292062328", "0".repeat(323)), "above-half-min-subnormal"));
    sp.push((format!("0.{}1", "0".repeat(400)), "underflow"));
    sp.push((format!("0.{}", "0".repeat(400)), "long-zero"));
    sp.push(("0.0".into(), "zero"));
    sp.push(("00.00".into(), "zero"));
    // dedupe (different bases can produce the same spelling)
    let mut seen = std::collections::BTreeSet::new();
    let mut v = vec![];
    for (s, tag) in sp {
        if !seen.insert(s.clone()) {
            continue;
        }
        v.push(float_item(&s, false, tag, None));
        v.push(float_item(&s, true, tag, None));
    }
    v
}

fn floats_sep(tier: Tier) -> Vec<Item> {
    let mut v = vec![];
    let pairs: Vec<(&str, &str)> =
        if tier == Tier::Thorough { vec![("1234", "5678"), ("123456", "654321"), ("1", "25"), ("10", "5")] } else { vec![("1234", "5678"), ("1", "25"), ("10", "5")] };
    for (i, f) in pairs {
        for mi in 0..(1u32 << (i.len() - 1)) {
            for mf in 0..(1u32 << (f.len() - 1)) {
                let s = format!("{}.{}", with_underscores(i, mi), with_underscores(f, mf));
                v.push(float_item(&s, false, "sep", None));
                v.push(float_item(&s, true, "sep", None));
            }
        }
    }
    // separators next to the point, missing fraction: not described by the manual
    for s in ["1_.5", "1._5", "1.5_", "1_.", "1.", "12.", "1__0.5", "1.0__5"] {
        v.push(item(format!("float literal `{s}` [odd]"), format!("vh_emit_float({s})"), Exp::Unspecified, "float:unspecified"));
    }
    v
}

// ================================================================== strings

pub const MENU: [char; 13] = ['a', '"', '\'', '\\', '\n', '\t', '\r', '\0', 'é', '日', ' ', '/', '*'];

fn all_strings(len: usize) -> Vec<String> {
    let mut v = vec![String::new()];
    for _ in 0..len {
        let mut n = vec![];
        for s in &v {
            for c in MENU {
                let mut t = s.clone();
                t.push(c);
                n.push(t);
            }
        }
        v = n;
    }
    v
}

#[derive(Clone, Copy, PartialEq, Debug)]
enum Quote {
    Double,
    Single,
    Triple,
}
const STYLES: [(Quote, bool, &str); 6] = [
    (Quote::Double, false, "double"),
    (Quote::Single, false, "single"),
    (Quote::Triple, false, "triple"),
    (Quote::Double, true, "double/alt"),
    (Quote::Single, true, "single/alt"),
    (Quote::Triple, true, "triple/alt"),
];

/// The generator's escaper. `alt` = the second spelling: control characters raw (except LF),
/// both quote kinds escaped, `a` `/` and space through `\xHH`, and in triple quotes a raw `"` where
/// it cannot be mistaken for (part of) the delimiter.
fn escape(text: &str, q: Quote, alt: bool) -> String {
    let chars: Vec<char> = text.chars().collect();
    let mut s = String::new();
    let mut last_raw_quote = false;
    for (i, c) in chars.iter().enumerate() {
        let mut raw_quote = false;
        match *c {
            '\\' => s.push_str("\\\\"),
            '\n' => s.push_str("\\n"),
            '\t' => {
                if alt {
                    s.push('\t')
                } else {
                    s.push_str("\\t")
                }
            }
            '\r' => {
                if alt {
                    s.push('\r')
                } else {
                    s.push_str("\\r")
                }
            }
            '\0' => {
                if alt {
                    s.push('\0')
                } else {
                    s.push_str("\\x00")
                }
            }
            '"' => match q {
                Quote::Double => s.push_str("\\\""),
                Quote::Single => {
                    if alt {
                        s.push_str("\\\"")
                    } else {
                        s.push('"')
                    }
                }
                Quote::Triple => {
                    let next_is_quote = chars.get(i + 1) == Some(&'"');
                    let is_last = i + 1 == chars.len();
                    if alt && !last_raw_quote && !next_is_quote && !is_last {
                        s.push('"');
                        raw_quote = true;
                    } else {
                        s.push_str("\\\"")
                    }
                }
            },
            '\'' => match q {
                Quote::Single => s.push_str("\\'"),
                _ => {
                    if alt {
                        s.push_str("\\'")
                    } else {
                        s.push('\'')
                    }
                }
            },
            'a' if alt => s.push_str("\\x61"),
            '/' if alt => s.push_str("\\x2f"),
            ' ' if alt => s.push_str("\\x20"),
            o => s.push(o),
        }
        last_raw_quote = raw_quote;
    }
    s
}

fn show(text: &str) -> String {
    format!("{text:?}")
}

fn string_item(text: &str, style: usize) -> Item {
    let (q, alt, sname) = STYLES[style];
    let e = escape(text, q, alt);
    let lit = match q {
        Quote::Double => format!("\"{e}\""),
        Quote::Single => format!("'{e}'"),
        Quote::Triple => format!("\"\"\"{e}\"\"\""),
    };
    // a triple-quoted literal whose source text between the delimiters is only whitespace is not pinned down
    let unspecified = q == Quote::Triple && !e.is_empty() && e.chars().all(|c| c.is_whitespace());
    let exp = if unspecified { Exp::Unspecified } else { Exp::Done(vec![Want::Str(text.to_string())]) };
    let class = if unspecified { "str:unspecified".to_string() } else { format!("str:{sname}") };
    let mut it = item(format!("string {} as {sname} literal", show(text)), format!("vh_emit_str({lit})"), exp, &class);
    // an escaped quote directly before the closing `"""` is known to end the literal one character early
    it.solo = q == Quote::Triple && text.ends_with('"');
    it
}

// ------------------------------------------------------------------ multi-line layouts

#[derive(Clone, Copy, PartialEq, Debug)]
enum Ind {
    Sp(usize),
    Tab,
}
impl Ind {
    fn text(self) -> String {
        match self {
            Ind::Sp(n) => " ".repeat(n),
            Ind::Tab => "\t".into(),
        }
    }
}
const INDS: [Ind; 4] = [Ind::Sp(0), Ind::Sp(2), Ind::Sp(4), Ind::Tab];

/// (source text of the line, its value after escape processing)
const LINE_MENU: [(&str, &str); 5] = [("a", "a"), ("b c", "b c"), ("", ""), ("\"q\"", "\"q\""), ("x\\ty\\\"", "x\ty\"")];

#[derive(Clone, Debug)]
struct Layout {
    residue: bool,
    lines: Vec<(Ind, usize)>, // indent, index into LINE_MENU
    closer: Option<Ind>,      // Some(indent) = on its own line; None = inline after the last line
}

impl Layout {
    fn source(&self) -> String {
        let mut s = String::from("\"\"\"");
        if self.residue {
            s.push_str("rr");
        }
        for (ind, li) in &self.lines {
            s.push('\n');
            s.push_str(&ind.text());
            s.push_str(LINE_MENU[*li].0);
        }
        if let Some(ci) = self.closer {
            s.push('\n');
            s.push_str(&ci.text());
        }
        s.push_str("\"\"\"");
        s
    }
    fn name(&self) -> String {
        format!(
            "multi-line string residue={} lines={:?} closer={}",
            self.residue,
            self.lines.iter().map(|(i, l)| format!("{i:?}+{:?}", LINE_MENU[*l].0)).collect::<Vec<_>>(),
            match self.closer {
                Some(i) => format!("own line {i:?}"),
                None => "inline".into(),
            }
        )
    }
    /// all non-whitespace characters of the content, in order (after escape processing)
    fn nonws(&self) -> String {
        let mut s = String::new();
        if self.residue {
            s.push_str("rr");
        }
        for (_, li) in &self.lines {
            s.extend(LINE_MENU[*li].1.chars().filter(|c| !c.is_whitespace()));
        }
        s
    }
    /// The value fixed by the rules the repository's `multiline_string_*` tests pin down, if this
    /// layout is covered by them:
    ///  R1 a newline directly after the opening delimiter is dropped (…_strips_indent, …_no_indent);
    ///  R2 a closing delimiter alone on its line drops that line and the newline before it;
    ///  R3 the common indentation (spaces) of the non-blank content lines is removed, deeper
    ///     indentation is kept (…_preserves_extra_indent); in every pinned layout with the closer on
    ///     its own line the closer carries exactly that common indentation;
    ///  R4 text on the opener line is kept verbatim and does not take part in R3 (…_opener_residue);
    ///  R5 the closer may follow the last content line directly (…_inline_closer…);
    ///  R6 an empty line between two content lines stays an empty line (…_blank_line);
    ///  R7 escapes are processed, a lone `"` needs no escape (…_escapes, …_embedded_quotes);
    ///  R8 no content lines and the closer on its own line give "" (…_empty).
    fn pinned_value(&self) -> Option<String> {
        if self.lines.iter().any(|(i, _)| *i == Ind::Tab) || self.closer == Some(Ind::Tab) {
            return None;
        }
        let blank = |k: usize| LINE_MENU[self.lines[k].1].0.is_empty();
        let n = self.lines.len();
        for k in 0..n {
            if blank(k) {
                // only a truly empty line strictly between two non-blank content lines is pinned
                if self.lines[k].0 != Ind::Sp(0) || k == 0 || k + 1 == n || blank(k - 1) || blank(k + 1) {
                    return None;
                }
            }
        }
        let nonblank: Vec<usize> = (0..n).filter(|k| !blank(*k)).collect();
        let sp = |i: Ind| match i {
            Ind::Sp(n) => n,
            Ind::Tab => unreachable!(),
        };
        let min = nonblank.iter().map(|k| sp(self.lines[*k].0)).min();
        match (self.closer, min) {
            (Some(ci), Some(m)) if sp(ci) != m => return None,
            (None, None) => {
                // inline closer without content lines: `"""rr"""` (single-line form) or `""""""`
                if n != 0 {
                    return None;
                }
            }
            _ => {}
        }
        if n == 0 && self.closer.is_none() {
            return Some(if self.residue { "rr".into() } else { String::new() });
        }
        let m = min.unwrap_or(0);
        let mut parts: Vec<String> = vec![];
        if self.residue {
            parts.push("rr".into());
        }
        for k in 0..n {
            if blank(k) {
                parts.push(String::new());
            } else {
                parts.push(format!("{}{}", " ".repeat(sp(self.lines[k].0) - m), LINE_MENU[self.lines[k].1].1));
            }
        }
        Some(parts.join("\n"))
    }
}

fn layouts(nlines: usize, menu: usize) -> Vec<Layout> {
    let mut seqs: Vec<Vec<(Ind, usize)>> = vec![vec![]];
    for _ in 0..nlines {
        let mut n = vec![];
        for s in &seqs {
            for ind in INDS {
                for li in 0..menu {
                    let mut t = s.clone();
                    t.push((ind, li));
                    n.push(t);
                }
            }
        }
        seqs = n;
    }
    let mut v = vec![];
    for residue in [false, true] {
        for s in &seqs {
            for closer in [Some(INDS[0]), Some(INDS[1]), Some(INDS[2]), Some(INDS[3]), None] {
                v.push(Layout { residue, lines: s.clone(), closer });
            }
        }
    }
    v
}

fn layout_item(l: &Layout) -> Item {
    let src = l.source();
    // a raw `"` directly before an inline closer gives four quotes in a row: genuinely ambiguous
    let ambiguous = l.closer.is_none() && l.lines.last().is_some_and(|(_, li)| LINE_MENU[*li].0.ends_with('"') && !LINE_MENU[*li].0.ends_with("\\\""));
    if ambiguous {
        return solo(item(l.name(), format!("let s = {src}\nvh_emit_str(s)"), Exp::Unspecified, "ml:ambiguous-unspecified"));
    }
    let quote_before_inline_closer = l.closer.is_none() && l.lines.last().is_some_and(|(_, li)| LINE_MENU[*li].0.ends_with('"'));
    let (exp, class) = match l.pinned_value() {
        Some(v) => (Exp::Done(vec![Want::Str(v)]), "ml:pinned"),
        None => {
            // an inline closer after a blank last line is really a closer on its own line: the
            // literal may also be rejected; otherwise only "no content character is lost" is asked
            (Exp::DoneOrReject(vec![Want::StrNonWs(l.nonws())]), "ml:unpinned-nonws-preserved")
        }
    };
    let mut it = item(l.name(), format!("let s = {src}\nvh_emit_str(s)"), exp, class);
    it.solo = quote_before_inline_closer;
    it
}

// ------------------------------------------------------------------ malformed

fn malformed() -> Vec<Item> {
    let srcs: Vec<(&str, String)> = vec![
        ("unterminated double", "vh_emit_str(\"abc)".into()),
        ("unterminated single", "vh_emit_str('abc)".into()),
        ("unterminated triple", "vh_emit_str(\"\"\"abc)".into()),
        ("unterminated triple multi", "vh_emit_str(\"\"\"\n  abc\n  )".into()),
        ("backslash at end", "vh_emit_str(\"abc\\".into()),
        ("backslash before closing", "vh_emit_str(\"abc\\\")".into()),
        ("unknown escape", "vh_emit_str(\"a\\qb\")".into()),
        ("short hex escape", "vh_emit_str(\"a\\x4\")".into()),
        ("bad hex escape", "vh_emit_str(\"a\\xZZ\")".into()),
        ("hex escape at end", "vh_emit_str(\"a\\x\")".into()),
        ("hex escape >= 0x80", "vh_emit_str(\"\\xe9\")".into()),
        ("hex escape 0xff", "vh_emit_str(\"\\xff\")".into()),
        ("four quotes closing", "vh_emit_str(\"\"\"a\"\"\"\")".into()),
        ("five quotes", "vh_emit_str(\"\"\"\"\")".into()),
        ("raw newline in double", "vh_emit_str(\"a\nb\")".into()),
        ("triple with only spaces", "vh_emit_str(\"\"\"  \"\"\")".into()),
        ("triple with escaped backslash before closer", "vh_emit_str(\"\"\"a\\\\\"\"\")".into()),
        ("triple CRLF", "let s = \"\"\"\r\n    a\r\n    \"\"\"\nvh_emit_str(s)".into()),
        ("unterminated hex in triple", "vh_emit_str(\"\"\"\\x\"\"\")".into()),
        ("lone quote", "vh_emit_str(\")".into()),
        ("lone single quote", "vh_emit_str(')".into()),
        ("lone triple", "vh_emit_str(\"\"\")".into()),
    ];
    srcs.into_iter().map(|(n, b)| solo(item(format!("malformed string literal: {n}"), b, Exp::Unspecified, "malformed"))).collect()
}

fn hex_escapes() -> Vec<Item> {
    let mut v = vec![];
    for b in 1u8..0x80 {
        let lower = format!("{b:02x}");
        let upper = format!("{b:02X}");
        let mut spellings = vec![lower.clone()];
        if upper != lower {
            spellings.push(upper.clone());
            let mixed1: String = lower.chars().next().into_iter().chain(upper.chars().nth(1)).collect();
            let mixed2: String = upper.chars().next().into_iter().chain(lower.chars().nth(1)).collect();
            for m in [mixed1, mixed2] {
                if !spellings.contains(&m) {
                    spellings.push(m);
                }
            }
        }
        for sp in spellings {
            for (qn, open, close) in [("double", "\"", "\""), ("single", "'", "'"), ("triple", "\"\"\"", "\"\"\"")] {
                let text = format!("<{}>", b as char);
                v.push(item(
                    format!("{qn}-quoted literal `<\\x{sp}>`"),
                    format!("vh_emit_str({open}<\\x{sp}>{close})"),
                    Exp::Done(vec![Want::Str(text)]),
                    "str:hex-escape",
                ));
            }
        }
    }
    v
}

// ================================================================== units

#[derive(Clone, Debug)]
enum Unit {
    IntsOk,
    IntsBad,
    FloatShort(usize, usize, bool),
    FloatShortSlice(usize, usize, bool, u32), // leading digit slice for the 10^4-sized families
    FloatLong,
    FloatSep,
    Str(usize, usize),             // style, length (all lengths ≤ len when len ≤ 3)
    StrSlice(usize, usize, usize), // style, length, index of the first character
    Layouts(usize),
    LayoutSlice(usize, usize), // number of lines, index of the first (indent, line) choice
    Malformed,
    /// every `\xHH` escape below 0x80 in every letter-case spelling of its hex digits, in the three quote styles
    HexEscapes,
}

fn units(tier: Tier) -> Vec<Unit> {
    let mut u = vec![Unit::IntsOk, Unit::IntsBad, Unit::FloatLong, Unit::FloatSep, Unit::Malformed, Unit::HexEscapes];
    for (il, fl) in [(1, 1), (1, 2), (2, 1)] {
        u.push(Unit::FloatShort(il, fl, false));
        u.push(Unit::FloatShort(il, fl, true));
    }
    if tier == Tier::Thorough {
        for (il, fl) in [(1, 3), (2, 2), (3, 1)] {
            for d in 0..10 {
                u.push(Unit::FloatShortSlice(il, fl, false, d));
            }
            for d in 0..10 {
                u.push(Unit::FloatShortSlice(il, fl, true, d));
            }
        }
    }
    match tier {
        Tier::Quick => {
            for st in 0..3 {
                u.push(Unit::Str(st, 3));
            }
            for st in 3..6 {
                u.push(Unit::Str(st, 2));
            }
            u.push(Unit::Layouts(0));
            u.push(Unit::Layouts(1));
            u.push(Unit::Layouts(2));
            // three content lines: the smallest layouts in which a blank line lies strictly between two content
            // lines (rule R6), combined with opener residue × every indentation of the lines around it
            for first in 0..(4 * layout_menu(tier, 3)) {
                u.push(Unit::LayoutSlice(3, first));
            }
        }
        Tier::Thorough => {
            for st in 0..6 {
                u.push(Unit::Str(st, 3));
            }
            for st in 0..3 {
                for first in 0..MENU.len() {
                    u.push(Unit::StrSlice(st, 4, first));
                }
            }
            for n in 0..3 {
                u.push(Unit::Layouts(n));
            }
            for first in 0..(4 * layout_menu(tier, 3)) {
                u.push(Unit::LayoutSlice(3, first));
            }
        }
    }
    u
}

fn layout_menu(tier: Tier, nlines: usize) -> usize {
    match (tier, nlines) {
        (_, 0) | (_, 1) => LINE_MENU.len(),
        (Tier::Quick, _) => 3,
        (Tier::Thorough, _) => LINE_MENU.len(),
    }
}

fn unit_items(tier: Tier, u: &Unit) -> Vec<Item> {
    match u {
        Unit::IntsOk => ints_ok(tier),
        Unit::IntsBad => ints_bad(),
        Unit::FloatShort(il, fl, neg) => floats_short(*il, *fl, *neg),
        Unit::FloatShortSlice(il, fl, neg, d) => {
            let all = floats_short(*il, *fl, *neg);
            let n = all.len() / 10;
            all.into_iter().skip(*d as usize * n).take(n).collect()
        }
        Unit::FloatLong => floats_long(tier),
        Unit::FloatSep => floats_sep(tier),
        Unit::Str(style, len) => {
            let mut v = vec![];
            for l in 0..=*len {
                for s in all_strings(l) {
                    v.push(string_item(&s, *style));
                }
            }
            v
        }
        Unit::StrSlice(style, len, first) => {
            all_strings(*len - 1).into_iter().map(|s| string_item(&format!("{}{}", MENU[*first], s), *style)).collect()
        }
        Unit::Layouts(n) => layouts(*n, layout_menu(tier, *n)).iter().map(layout_item).collect(),
        Unit::LayoutSlice(n, first) => {
            let menu = layout_menu(tier, *n);
            layouts(*n, menu)
                .iter()
                .filter(|l| {
                    let (ind, li) = l.lines[0];
                    INDS.iter().position(|i| *i == ind).unwrap() * menu + li == *first
                })
                .map(layout_item)
                .collect()
        }
        Unit::Malformed => malformed(),
        Unit::HexEscapes => hex_escapes(),
    }
}

/// closed-form size of a unit where the family is combinatorial (None: an explicit list)
fn unit_closed_form(tier: Tier, u: &Unit) -> Option<u64> {
    let m = MENU.len() as u64;
    match u {
        Unit::FloatShort(il, fl, _) => Some(10u64.pow((*il + *fl) as u32)),
        Unit::FloatShortSlice(il, fl, _, _) => Some(10u64.pow((*il + *fl) as u32) / 10),
        Unit::Str(_, len) => Some((0..=*len as u32).map(|l| m.pow(l)).sum()),
        Unit::StrSlice(_, len, _) => Some(m.pow(*len as u32 - 1)),
        Unit::Layouts(n) => Some(2 * 5 * (4 * layout_menu(tier, *n) as u64).pow(*n as u32)),
        Unit::LayoutSlice(n, _) => Some(2 * 5 * (4 * layout_menu(tier, *n) as u64).pow(*n as u32 - 1)),
        _ => None,
    }
}

impl Prop for C30 {
    fn id(&self) -> &'static str {
        "C30"
    }
    fn level(&self) -> &'static str {
        "exploration"
    }
    fn n_units(&self, tier: Tier) -> usize {
        units(tier).len()
    }
    fn run_unit(&self, tier: Tier, unit: usize, out: &mut UnitOut) {
        let u = units(tier)[unit].clone();
        let items = unit_items(tier, &u);
        if let Some(n) = unit_closed_form(tier, &u) {
            assert_eq!(n, items.len() as u64, "closed-form size of {u:?} disagrees with the enumerator");
        }
        // stable order: batched cases first, then the cases compiled one per program
        let mut order: Vec<usize> = (0..items.len()).filter(|k| !items[*k].solo).collect();
        let n_batched = order.len();
        order.extend((0..items.len()).filter(|k| items[*k].solo));
        let cases: Vec<Case> = order.iter().map(|k| items[*k].case.clone()).collect();
        let bsize = if matches!(u, Unit::FloatLong) { 60 } else { 300 };
        let step = (cases.len() / 3).max(1);
        let judge = |out: &mut UnitOut, k: usize, c: &Case, r: &crate::batch::CaseResult| {
            let it = &items[order[k]];
            out.nontrivial_text(&c.name);
            if k % step == step / 2 {
                let body = if c.body.len() > 300 { format!("{}…", c.body.chars().take(300).collect::<String>()) } else { c.body.clone() };
                out.sample(json!({"case": c.name, "body": body, "expected": format!("{:?}", it.exp).chars().take(300).collect::<String>()}));
            }
            judge_isolating(out, c, r, &it.exp, &it.class, k >= n_batched, COpts::default(), ROpts::default());
        };
        run_cases(out, 0, &cases[..n_batched], bsize, COpts::default(), ROpts::default(), |out, k, c, r| judge(out, k, c, r));
        run_cases(out, n_batched as u64, &cases[n_batched..], 1, COpts::default(), ROpts::default(), |out, k, c, r| judge(out, n_batched + k, c, r));
    }
    fn expected_evaluations(&self, tier: Tier) -> Option<u64> {
        // combinatorial families by closed form, explicit lists by their length
        Some(units(tier).iter().map(|u| unit_closed_form(tier, u).unwrap_or_else(|| unit_items(tier, u).len() as u64)).sum())
    }
    fn rule(&self, tier: Tier) -> String {
        format!(
            "integer literals: C15 boundary grid × spellings (plain, `_` every 3 digits, `-N`, `- N`, parenthesised, leading zeros) × (argument, let), every single-`_` placement in digit strings {:?}{} (positive and negated), \
             out-of-range spellings (MAX+1, MIN-1, 2^64, 2^127, 10^19..10^400; one program each) must give diagnostics; \
             float literals: all I.F with |I|+|F| ≤ {} digits (positive and negated; expected = one correctly rounded division N/10^k, cross-checked with str::parse), round-half family from exact decimal expansions \
             (exact value, midpoint to the successor/predecessor, ±1 in the last digit, truncations to 17-20 significant digits, zero padding) of boundary values incl. subnormals, 2^53, 1e22/1e23, MAX, plus 300-400 digit spellings and `_` placements; \
             every float expectation is verified by an independent exact-decimal bracket check; literals that round to ±inf or underflow to 0 are Unspecified; \
             strings: all strings of length ≤ {} over {:?} as double-, single- and triple-quoted literals written by two escapers (only \\n \\t \\r \\\" \\' \\\\ \\xHH<0x80), and every \\xHH escape for 01..7f in every letter-case spelling of its digits in the three quote styles; \
             multi-line layouts: ≤ 3 content lines × indent {{0,2,4,TAB}} × line menu ({}) × opener residue × closer (own line with indent / inline): exact value where the repository's multiline_string_* tests pin the rule, \
             otherwise only 'no non-whitespace character is lost' (or rejection); malformed literals: no fault. Every case is distinct by construction and counted as non-trivial",
            DIGIT_MENU,
            tier.pick("", ", 2147483648, 4294967296, 999999, and MAX/MIN with ≤ 2 separators"),
            tier.pick(3, 4),
            tier.pick(3, 4),
            MENU,
            tier.pick("all 5 lines of LINE_MENU for ≤ 1 content line; `a`, `b c` and the blank line for 2 and 3 content lines", "all 5 lines of LINE_MENU"),
        )
    }
    fn assumptions(&self) -> Vec<String> {
        vec![
            "the property's 'all 64-bit integers (boundary plus random)' and 'random float spellings' are replaced by enumerated boundary families (no sampling)".into(),
            "float oracle: Rust str::parse::<f64> (the design allowed CPython float(); no Python is needed), verified per spelling by an independent exact-decimal bracket check, and for I.F spellings by a correctly rounded division".into(),
            "float literals whose nearest binary64 is ±inf, and non-zero spellings that round to 0, are Unspecified (the statement says both 'nearest binary64' and 'out of range is a diagnostic')".into(),
            "doubled/trailing `_`, `_` next to the decimal point, `1.` without fraction digits, `\\xHH` with HH ≥ 0x80, raw newlines in single-line strings and whitespace-only triple-quoted strings are not described anywhere: Unspecified (no fault)".into(),
            "multi-line strings: only layouts covered by rules R1-R8 (see Layout::pinned_value) have an exact expectation; tab indentation, closer indentation different from the content's, whitespace-only lines and leading/trailing blank lines only assert that no non-whitespace character of the content is lost".into(),
            "literals are exercised in expression position (call argument, let initialiser); literal patterns belong to C14".into(),
        ]
    }
    fn min_classes(&self) -> usize {
        6
    }
}

#[cfg(test)]
mod tests {
    use super::*;
    #[test]
    fn rounding_checker() {
        assert!(verify_rounding("0.1", 0.1));
        assert!(!verify_rounding("0.1", f64::from_bits(0.1f64.to_bits() + 1)));
        assert!(verify_rounding("9007199254740993.0", 9007199254740992.0));
        assert!(!verify_rounding("9007199254740993.0", 9007199254740994.0));
        assert!(verify_rounding("9007199254740993.0000001", 9007199254740994.0));
        assert!(verify_rounding(&exact_of(f64::MAX), f64::MAX));
    }
}
