//! C20 — immutable bindings cannot be assigned, and assignment never crashes.
//!
//! Universe: the full table binding form × assignment operator × assignment target (× position of the
//! assignment: directly in the binding's scope, or one block deeper; thorough only).
//! The lambda-capture forms vary the distance between the lambda and the declaration it captures: same block,
//! lambda inside an if / while / for / match-arm block of the declaring function body, a parameter of the
//! enclosing function, a lambda nested in another lambda (declaration two levels out).
//! Every program is compiled on its own, because a diagnostic is a possible outcome of most cells.

use super::features_util::{Want, judge};
use crate::batch::{Case, run_cases};
use crate::drive::{COpts, ROpts};
use crate::fw::{Prop, Tier, UnitOut};
use serde_json::json;

pub struct C20;

#[derive(Clone, Copy, PartialEq, Eq, Debug)]
enum Form {
    Let,
    Var,
    LetTuple,
    LetStruct,
    VarTuple,
    ForVar,
    FnParam,
    LambdaParam,
    MatchBinding,
    VariantBinding,
    OrPatBinding,
    CaptureLet,
    CaptureVar,
    CaptureVarAssignOnly,
    TaskCapture,
    /// the lambda sits in a block one scope deeper than the function body that declares the var
    CaptureVarLambdaInIf,
    CaptureVarLambdaInWhile,
    CaptureVarLambdaInFor,
    CaptureVarLambdaInArm,
    /// the assigned name is a parameter of the function that contains the lambda
    CaptureParam,
    /// lambda inside a lambda, the var is declared two levels out
    CaptureVarNestedLambda,
}
const FORMS: [Form; 21] = [
    Form::Let,
    Form::Var,
    Form::LetTuple,
    Form::LetStruct,
    Form::VarTuple,
    Form::ForVar,
    Form::FnParam,
    Form::LambdaParam,
    Form::MatchBinding,
    Form::VariantBinding,
    Form::OrPatBinding,
    Form::CaptureLet,
    Form::CaptureVar,
    Form::CaptureVarAssignOnly,
    Form::TaskCapture,
    Form::CaptureVarLambdaInIf,
    Form::CaptureVarLambdaInWhile,
    Form::CaptureVarLambdaInFor,
    Form::CaptureVarLambdaInArm,
    Form::CaptureParam,
    Form::CaptureVarNestedLambda,
];
impl Form {
    fn tag(self) -> &'static str {
        match self {
            Form::Let => "let",
            Form::Var => "var",
            Form::LetTuple => "let-tuple-destructuring",
            Form::LetStruct => "let-struct-destructuring",
            Form::VarTuple => "var-tuple-destructuring",
            Form::ForVar => "for-variable",
            Form::FnParam => "function-parameter",
            Form::LambdaParam => "lambda-parameter",
            Form::MatchBinding => "match-binding",
            Form::VariantBinding => "match-variant-payload-binding",
            Form::OrPatBinding => "or-pattern-binding",
            Form::CaptureLet => "lambda-capture-of-let",
            Form::CaptureVar => "lambda-capture-of-var",
            Form::CaptureVarAssignOnly => "lambda-capture-of-var(assignment-is-its-only-mention)",
            Form::TaskCapture => "task-capture-of-var",
            Form::CaptureVarLambdaInIf => "lambda-in-if-block-capture-of-function-body-var",
            Form::CaptureVarLambdaInWhile => "lambda-in-while-body-capture-of-function-body-var",
            Form::CaptureVarLambdaInFor => "lambda-in-for-body-capture-of-function-body-var",
            Form::CaptureVarLambdaInArm => "lambda-in-match-arm-capture-of-function-body-var",
            Form::CaptureParam => "lambda-capture-of-enclosing-function-parameter",
            Form::CaptureVarNestedLambda => "nested-lambda-capture-of-var-two-levels-out",
        }
    }
    /// what the statement demands when the *variable itself* is the target
    fn rule(self) -> Rule {
        match self {
            Form::Let | Form::LetTuple | Form::LetStruct | Form::CaptureLet | Form::CaptureVar | Form::CaptureVarAssignOnly => Rule::MustReject,
            Form::CaptureVarLambdaInIf
            | Form::CaptureVarLambdaInWhile
            | Form::CaptureVarLambdaInFor
            | Form::CaptureVarLambdaInArm
            | Form::CaptureParam
            | Form::CaptureVarNestedLambda => Rule::MustReject,
            Form::Var | Form::VarTuple => Rule::MustAccept,
            _ => Rule::Either,
        }
    }
}
#[derive(Clone, Copy, PartialEq, Eq, Debug)]
enum Rule {
    MustReject,
    MustAccept,
    Either,
}

const OPS: [&str; 6] = ["=", "+=", "-=", "*=", "/=", "%="];
#[derive(Clone, Copy, PartialEq, Eq, Debug)]
enum Target {
    Variable,
    Field,
    Index,
}
const TARGETS: [Target; 3] = [Target::Variable, Target::Field, Target::Index];

const OLD: i64 = 17;
const RHS: i64 = 3;
fn new_value(op: &str) -> i64 {
    match op {
        "=" => RHS,
        "+=" => OLD + RHS,
        "-=" => OLD - RHS,
        "*=" => OLD * RHS,
        "/=" => OLD / RHS,
        "%=" => OLD.rem_euclid(RHS),
        _ => unreachable!(),
    }
}

#[derive(Clone, Copy, Debug)]
struct Cell {
    form: Form,
    op: usize,
    target: Target,
    nested: bool,
}

impl Cell {
    fn ty(&self) -> &'static str {
        match self.target {
            Target::Variable => "int",
            Target::Field => "Pr",
            Target::Index => "array<int>",
        }
    }
    fn init(&self) -> String {
        match self.target {
            Target::Variable => format!("{OLD}"),
            Target::Field => format!("Pr({OLD}, 5)"),
            Target::Index => format!("[{OLD}, 5]"),
        }
    }
    fn lhs(&self) -> &'static str {
        match self.target {
            Target::Variable => "x",
            Target::Field => "x.fa",
            Target::Index => "x[0]",
        }
    }
    fn assign(&self) -> String {
        let a = format!("{} {} {RHS}", self.lhs(), OPS[self.op]);
        if self.nested { format!("if true {{\n{a}\n}}") } else { a }
    }
    fn obs(&self) -> String {
        format!("vh_emit_int({})", self.lhs())
    }
    fn name(&self) -> String {
        format!(
            "C20 binding={} target={} stmt=`{} {} {RHS}`{}",
            self.form.tag(),
            match self.target {
                Target::Variable => "the-variable",
                Target::Field => "struct-field-of-it",
                Target::Index => "array-element-of-it",
            },
            self.lhs(),
            OPS[self.op],
            if self.nested { " (inside a nested block)" } else { "" }
        )
    }
    fn case(&self) -> Case {
        let (t, init, a, obs) = (self.ty(), self.init(), self.assign(), self.obs());
        let mut decls: Vec<String> = vec![];
        if self.target == Target::Field {
            decls.push("type Pr = {\nfa: int\nfb: int\n}".into());
        }
        let mut body = String::new();
        match self.form {
            Form::Let => body = format!("let x = {init}\n{a}\n{obs}"),
            Form::Var => body = format!("var x = {init}\n{a}\n{obs}"),
            Form::LetTuple => body = format!("let (x, yy) = ({init}, 0)\n{a}\n{obs}"),
            Form::VarTuple => body = format!("var (x, yy) = ({init}, 0)\n{a}\n{obs}"),
            Form::LetStruct => {
                decls.push(format!("type Bx = {{\nc1: {t}\nc2: int\n}}"));
                body = format!("let Bx(x, yy) = Bx({init}, 0)\n{a}\n{obs}");
            }
            Form::ForVar => body = format!("for x in [{init}] {{\n{a}\n{obs}\n}}"),
            Form::FnParam => {
                decls.push(format!("fn fp(x: {t}) -> void {{\n{a}\n{obs}\n}}"));
                body = format!("fp({init})");
            }
            Form::LambdaParam => body = format!("let lam = (x: {t}) -> {{\n{a}\n{obs}\n}}\nlam({init})"),
            Form::MatchBinding => body = format!("match {init} {{\nx -> {{\n{a}\n{obs}\n}}\n}}"),
            Form::VariantBinding => {
                body = format!("let oo: option<{t}> = .some({init})\nmatch oo {{\n.some(x) -> {{\n{a}\n{obs}\n}}\n.none -> vh_emit_int(-2)\n}}")
            }
            Form::OrPatBinding => {
                decls.push(format!("type Ee =\n| Aa({t})\n| Bb({t})"));
                body = format!("match Ee.Aa({init}) {{\n.Aa(x) | .Bb(x) -> {{\n{a}\n{obs}\n}}\n}}");
            }
            Form::CaptureLet => body = format!("let x = {init}\nlet lam = () -> {{\n{a}\n{obs}\n}}\nlam()\n{obs}"),
            Form::CaptureVar => body = format!("var x = {init}\nlet lam = () -> {{\n{a}\n{obs}\n}}\nlam()\n{obs}"),
            Form::CaptureVarAssignOnly => body = format!("var x = {init}\nlet lam = () -> {{\n{a}\n}}\nlam()\n{obs}"),
            Form::CaptureVarLambdaInIf => body = format!("var x = {init}\nif true {{\nlet lam = () -> {{\n{a}\n{obs}\n}}\nlam()\n}}\n{obs}"),
            Form::CaptureVarLambdaInWhile => {
                body = format!("var x = {init}\nvar again = true\nwhile again {{\nagain = false\nlet lam = () -> {{\n{a}\n{obs}\n}}\nlam()\n}}\n{obs}")
            }
            Form::CaptureVarLambdaInFor => body = format!("var x = {init}\nfor it in [0] {{\nlet lam = () -> {{\n{a}\n{obs}\n}}\nlam()\n}}\n{obs}"),
            Form::CaptureVarLambdaInArm => body = format!("var x = {init}\nmatch 0 {{\n_ -> {{\nlet lam = () -> {{\n{a}\n{obs}\n}}\nlam()\n}}\n}}\n{obs}"),
            Form::CaptureParam => {
                decls.push(format!("fn fq(x: {t}) -> void {{\nlet lam = () -> {{\n{a}\n{obs}\n}}\nlam()\n{obs}\n}}"));
                body = format!("fq({init})");
            }
            Form::CaptureVarNestedLambda => {
                body = format!("var x = {init}\nlet outer = () -> {{\nlet inner = () -> {{\n{a}\n{obs}\n}}\ninner()\n}}\nouter()\n{obs}")
            }
            Form::TaskCapture => {
                // top-level program (tasks inside functions are a different, known defect: not this property)
                decls.push(format!(
                    "var x = {init}\nlet done: channel<int> = channel()\ntask {{\n{a}\ndone.write({})\n}}\nvh_emit_int(done.read())\n{obs}",
                    self.lhs()
                ));
            }
        }
        let mut c = Case::new(self.name(), body);
        c.decls = decls;
        c
    }
    fn want(&self) -> Want {
        let n = new_value(OPS[self.op]);
        let accepted: Vec<i64> = match self.form {
            Form::CaptureLet
            | Form::CaptureVar
            | Form::CaptureVarLambdaInIf
            | Form::CaptureVarLambdaInWhile
            | Form::CaptureVarLambdaInFor
            | Form::CaptureVarLambdaInArm
            | Form::CaptureParam
            | Form::CaptureVarNestedLambda => vec![n, n], // only reachable for field / element targets (shared object)
            Form::CaptureVarAssignOnly => vec![n],
            Form::TaskCapture => vec![n, OLD], // the task works on its own copy
            _ => vec![n],
        };
        if self.target != Target::Variable {
            return Want::Emits(accepted);
        }
        match self.form.rule() {
            Rule::MustReject => Want::Reject,
            Rule::MustAccept => Want::Emits(accepted),
            Rule::Either => Want::RejectOrEmits(accepted),
        }
    }
}

fn cells(tier: Tier) -> Vec<Cell> {
    let mut v = vec![];
    for nested in tier.pick(vec![false], vec![false, true]) {
        for form in FORMS {
            for target in TARGETS {
                for op in 0..OPS.len() {
                    v.push(Cell { form, op, target, nested });
                }
            }
        }
    }
    v
}

const PER_UNIT: usize = 36;

impl Prop for C20 {
    fn id(&self) -> &'static str {
        "C20"
    }
    fn level(&self) -> &'static str {
        "exploration"
    }
    fn n_units(&self, tier: Tier) -> usize {
        cells(tier).len().div_ceil(PER_UNIT)
    }
    fn expected_evaluations(&self, tier: Tier) -> Option<u64> {
        // forms × 3 targets × 6 operators × positions
        Some(FORMS.len() as u64 * 3 * 6 * tier.pick(1, 2))
    }
    fn run_unit(&self, tier: Tier, unit: usize, out: &mut UnitOut) {
        let all = cells(tier);
        let a = unit * PER_UNIT;
        let b = (a + PER_UNIT).min(all.len());
        let cs = &all[a..b];
        let cases: Vec<Case> = cs.iter().map(|c| c.case()).collect();
        run_cases(out, a as u64, &cases, 1, COpts::default(), ROpts::default(), |out, k, case, r| {
            let cell = &cs[k];
            out.nontrivial_text(&case.name);
            let want = cell.want();
            if k % 17 == 0 {
                out.sample(json!({"case": case.name, "program": case.standalone(), "expected": format!("{want:?}")}));
            }
            let stratum = format!(
                "{}|{}",
                cell.form.tag(),
                match cell.target {
                    Target::Variable => "variable",
                    Target::Field => "field",
                    Target::Index => "element",
                }
            );
            judge(out, &stratum, case, r, &want);
        });
    }
    fn rule(&self, tier: Tier) -> String {
        format!(
            "full table: binding form {{let, var, let (x,_) tuple destructuring, let St(x,_) struct destructuring, var (x,_) destructuring, for variable, function parameter, lambda parameter, \
             match binding, match variant-payload binding, or-pattern binding, lambda capture of a let, lambda capture of a var, lambda capture of a var mentioned only on the left-hand side of the assignment, task capture of a var, \
             lambda written inside an if block / while body / for body / match-arm block capturing a var of the enclosing function body, lambda capturing a parameter of the enclosing function, \
             lambda inside a lambda capturing a var declared two levels out}} \
             × operator {{= += -= *= /= %=}} × target {{the variable (int 17), field `.fa` of the struct it holds, element `[0]` of the array it holds}} × position {:?}; right-hand side 3, \
             the new value is emitted inside the binding's scope (and after the lambda/task for captures). Oracle: variable target — let forms and lambda captures (whatever the distance between the lambda and the declaration) must be rejected with a diagnostic, \
             var forms must be accepted with the new value, every other form is rejected or accepted with the new value (task: the task's copy changes, the outer variable keeps 17); \
             field / element targets — accepted for every binding form, the shared object shows the new value (a task changes its own deep copy only). Never a compiler panic or VM fault. \
             Each program is compiled on its own. Every cell is non-trivial.",
            tier.pick(vec!["direct"], vec!["direct", "inside `if true { }`"])
        )
    }
    fn assumptions(&self) -> Vec<String> {
        vec![
            "`var (x, y) = ..` is a var binding (patterns.md: let and var bindings accept patterns), so assignment must be accepted".into(),
            "the task-capture programs are top-level code, because a task inside a function is a separate known compiler defect outside this property".into(),
        ]
    }
    fn min_classes(&self) -> usize {
        3
    }
}
