//! C36 — host-function bindings carry arguments and results without loss.
//!
//! `prepare` (parent process, once per run):
//!   1. builds the type universe and writes `hostdecl.abra`: one echo function `fn eNNN(x: T) -> T`
//!      per type, and swap functions `fn pNNN(a: A, b: B) -> (B, A)` over all ordered pairs of a
//!      representative type list (multi-argument + tuple-returning);
//!   2. runs the bindings generator of the working tree (`abra_core::generate_host_function_enum`);
//!   3. writes a stand-alone Rust crate `$VERIF_ROOT/engine/hostgen_build/<tier>/` whose `main.rs`
//!      services every host call through the GENERATED `HostFunctionArgs::from_vm` /
//!      `HostFunctionRet::into_vm`, rendering what it received in a canonical text form and
//!      returning the received value unchanged; builds it with `cargo build --release --offline`;
//!   4. writes one Abra driver program per function: every value of the function's value grid is
//!      passed to the host function, and the result is rendered by Abra code (generated, structural,
//!      independent of the prelude's ToString) and reported through a host call.
//! Units run the built binary once per function (a process abort is attributable: the binary prints
//! the case id before running it) and compare, per case, (a) the canonical text of what the Rust side
//! received and (b) the canonical text of what Abra got back with the canonical text of the value.

use crate::fw::{Prop, Tier, UnitOut, hkey, verif_root};
use serde_json::{Value as J, json};
use std::collections::{BTreeMap, HashMap};
use std::io::{BufRead, BufReader};
use std::path::PathBuf;
use std::process::{Command, Stdio};

pub struct C36;

// ------------------------------------------------------------------ types and values

#[derive(Clone, Debug, PartialEq, Eq, Hash, PartialOrd, Ord)]
enum Ty {
    Int,
    Float,
    Bool,
    Str,
    Void,
    Arr(Box<Ty>),
    Tup(Vec<Ty>),
    Opt(Box<Ty>),
    Res(Box<Ty>, Box<Ty>),
    /// `#host` struct number i of `sdefs()`
    St(usize),
    /// `#host` enum number i of `edefs()`
    En(usize),
}
use Ty::*;

struct SDef {
    name: &'static str,
    fields: Vec<(&'static str, Ty)>,
}
struct EDef {
    name: &'static str,
    /// (constructor, payload field types)
    variants: Vec<(&'static str, Vec<Ty>)>,
    /// variants whose payload Abra code cannot look at (see `assumptions`): rendered `Name(?)` on the Abra side
    opaque_in_abra: Vec<&'static str>,
}
fn sdefs() -> Vec<SDef> {
    vec![
        SDef { name: "Hs", fields: vec![("a", Int), ("u", Void), ("s", Str)] },
        SDef {
            name: "Hs2",
            fields: vec![("p", Tup(vec![Int, Bool])), ("o", Opt(Box::new(Str))), ("ar", Arr(Box::new(Int))), ("h", St(0)), ("e", En(0))],
        },
    ]
}
fn edefs() -> Vec<EDef> {
    vec![
        EDef { name: "He", variants: vec![("Pa", vec![]), ("Pb", vec![Int]), ("Pc", vec![Int, Str])], opaque_in_abra: vec![] },
        EDef {
            name: "He2",
            variants: vec![
                ("Qa", vec![Tup(vec![Int, Bool])]),
                ("Qb", vec![Opt(Box::new(Int))]),
                ("Qc", vec![St(0)]),
                ("Qd", vec![Arr(Box::new(Str))]),
                ("Qf", vec![En(0), Float]),
            ],
            opaque_in_abra: vec![],
        },
        EDef { name: "He3", variants: vec![("Ra", vec![]), ("Rb", vec![Void]), ("Rc", vec![Int, Void, Str])], opaque_in_abra: vec![] },
        // A variant whose fields are one non-void value plus `void`: the compiler stores the bare value
        // but every Abra pattern on the variant (even `.Sd(_, _)`) tries to take a struct apart and
        // stops with "expected struct but got int" (pure-Abra defect, not a bindings matter), so the Abra
        // side can only observe that the value is "not Sa".
        EDef { name: "He4", variants: vec![("Sa", vec![]), ("Sd", vec![Int, Void])], opaque_in_abra: vec!["Sd"] },
    ]
}

const LEAVES: [Ty; 5] = [Int, Float, Bool, Str, Void];
const INTS: [i64; 3] = [0, i64::MAX, i64::MIN];
const FLOATS: [f64; 3] = [0.0, -2.5, 3.25];
const STRS: [&str; 2] = ["", "héllo wörld"];

#[derive(Clone, Debug, PartialEq)]
enum Val {
    Int(i64),
    Float(usize),
    Bool(bool),
    Str(String),
    Nil,
    Arr(Vec<Val>),
    Tup(Vec<Val>),
    Some(Box<Val>),
    None,
    Ok(Box<Val>),
    Err(Box<Val>),
    St(usize, Vec<Val>),
    /// enum index, variant index, payload
    En(usize, usize, Vec<Val>),
}

impl Ty {
    fn abra(&self) -> String {
        match self {
            Int => "int".into(),
            Float => "float".into(),
            Bool => "bool".into(),
            Str => "string".into(),
            Void => "void".into(),
            Arr(t) => format!("array<{}>", t.abra()),
            Tup(ts) => format!("({})", ts.iter().map(|t| t.abra()).collect::<Vec<_>>().join(", ")),
            Opt(t) => format!("option<{}>", t.abra()),
            Res(t, e) => format!("result<{}, {}>", t.abra(), e.abra()),
            St(i) => sdefs()[*i].name.into(),
            En(i) => edefs()[*i].name.into(),
        }
    }
    fn mangle(&self) -> String {
        match self {
            Int => "i".into(),
            Float => "f".into(),
            Bool => "b".into(),
            Str => "s".into(),
            Void => "v".into(),
            Arr(t) => format!("a{}z", t.mangle()),
            Tup(ts) => format!("t{}{}z", ts.len(), ts.iter().map(|t| t.mangle()).collect::<String>()),
            Opt(t) => format!("o{}z", t.mangle()),
            Res(t, e) => format!("r{}{}z", t.mangle(), e.mangle()),
            St(i) => format!("n{}_", sdefs()[*i].name.to_lowercase()),
            En(i) => format!("n{}_", edefs()[*i].name.to_lowercase()),
        }
    }
    fn depth(&self) -> usize {
        match self {
            Arr(t) | Opt(t) => 1 + t.depth(),
            Tup(ts) => 1 + ts.iter().map(|t| t.depth()).max().unwrap_or(0),
            Res(t, e) => 1 + t.depth().max(e.depth()),
            _ => 0,
        }
    }
    /// `void` somewhere below the top of a composite type
    fn void_inside(&self) -> bool {
        fn has_void(t: &Ty) -> bool {
            match t {
                Void => true,
                Arr(t) | Opt(t) => has_void(t),
                Tup(ts) => ts.iter().any(has_void),
                Res(t, e) => has_void(t) || has_void(e),
                St(i) => sdefs()[*i].fields.iter().any(|f| has_void(&f.1)),
                En(i) => edefs()[*i].variants.iter().any(|v| v.1.iter().any(has_void)),
                _ => false,
            }
        }
        match self {
            Void => false,
            t => has_void(t),
        }
    }
    fn head(&self) -> &'static str {
        match self {
            Int => "int",
            Float => "float",
            Bool => "bool",
            Str => "string",
            Void => "void",
            Arr(_) => "array",
            Tup(ts) => {
                if ts.len() == 2 {
                    "tuple2"
                } else {
                    "tuple3"
                }
            }
            Opt(_) => "option",
            Res(..) => "result",
            St(_) => "host-struct",
            En(_) => "host-enum",
        }
    }
    /// small covering value list (used for components)
    fn cover(&self) -> Vec<Val> {
        match self {
            Int => INTS.iter().map(|i| Val::Int(*i)).collect(),
            Float => (0..FLOATS.len()).map(Val::Float).collect(),
            Bool => vec![Val::Bool(true), Val::Bool(false)],
            Str => STRS.iter().map(|s| Val::Str(s.to_string())).collect(),
            Void => vec![Val::Nil],
            Arr(t) => {
                let mut c = t.cover();
                if c.len() == 1 {
                    c.push(c[0].clone());
                }
                vec![Val::Arr(vec![]), Val::Arr(vec![c[0].clone()]), Val::Arr(c)]
            }
            Tup(ts) => zip_cyclic(&ts.iter().map(|t| t.cover()).collect::<Vec<_>>()).into_iter().map(Val::Tup).collect(),
            Opt(t) => {
                let mut v = vec![Val::None];
                v.extend(t.cover().into_iter().map(|x| Val::Some(Box::new(x))));
                v
            }
            Res(t, e) => {
                let mut v: Vec<Val> = t.cover().into_iter().map(|x| Val::Ok(Box::new(x))).collect();
                v.extend(e.cover().into_iter().map(|x| Val::Err(Box::new(x))));
                v
            }
            St(i) => {
                let cols: Vec<Vec<Val>> = sdefs()[*i].fields.iter().map(|f| f.1.cover()).collect();
                zip_cyclic(&cols).into_iter().map(|v| Val::St(*i, v)).collect()
            }
            En(i) => {
                let mut out = vec![];
                for (vi, (_, payload)) in edefs()[*i].variants.iter().enumerate() {
                    if payload.is_empty() {
                        out.push(Val::En(*i, vi, vec![]));
                    } else {
                        let cols: Vec<Vec<Val>> = payload.iter().map(|t| t.cover()).collect();
                        out.extend(zip_cyclic(&cols).into_iter().map(|v| Val::En(*i, vi, v)));
                    }
                }
                out
            }
        }
    }
    /// value grid of an echo function of this type: full product over the components' covers
    fn full(&self) -> Vec<Val> {
        match self {
            Tup(ts) => product(&ts.iter().map(|t| t.cover()).collect::<Vec<_>>()).into_iter().map(Val::Tup).collect(),
            St(i) => {
                let cols: Vec<Vec<Val>> = sdefs()[*i].fields.iter().map(|f| f.1.cover()).collect();
                let size: usize = cols.iter().map(|c| c.len()).product();
                if size <= 32 {
                    product(&cols).into_iter().map(|v| Val::St(*i, v)).collect()
                } else {
                    self.cover()
                }
            }
            t => t.cover(),
        }
    }
}

fn zip_cyclic(cols: &[Vec<Val>]) -> Vec<Vec<Val>> {
    let n = cols.iter().map(|c| c.len()).max().unwrap_or(0);
    (0..n).map(|i| cols.iter().map(|c| c[i % c.len()].clone()).collect()).collect()
}
fn product(cols: &[Vec<Val>]) -> Vec<Vec<Val>> {
    let mut out: Vec<Vec<Val>> = vec![vec![]];
    for c in cols {
        let mut next = vec![];
        for o in &out {
            for v in c {
                let mut o2 = o.clone();
                o2.push(v.clone());
                next.push(o2);
            }
        }
        out = next;
    }
    out
}

impl Val {
    /// canonical text, implemented identically by the Rust `Rend` trait of the generated crate and
    /// by the generated Abra render functions
    fn canon(&self) -> String {
        self.canon_side(false)
    }
    /// `abra_side`: what the generated Abra render code prints (opaque variants hide their payload)
    fn canon_side(&self, abra_side: bool) -> String {
        let canon = |x: &Val| x.canon_side(abra_side);
        match self {
            Val::Int(i) => i.to_string(),
            Val::Float(k) => format!("F{k}"),
            Val::Bool(b) => b.to_string(),
            Val::Str(s) => format!("<{s}>"),
            Val::Nil => "nil".into(),
            Val::Arr(v) => format!("[{}]", v.iter().map(|x| canon(x)).collect::<Vec<_>>().join(",")),
            Val::Tup(v) => format!("({})", v.iter().map(|x| canon(x)).collect::<Vec<_>>().join(",")),
            Val::Some(x) => format!("some({})", canon(x)),
            Val::None => "none".into(),
            Val::Ok(x) => format!("ok({})", canon(x)),
            Val::Err(x) => format!("err({})", canon(x)),
            Val::St(i, v) => format!("{}{{{}}}", sdefs()[*i].name, v.iter().map(|x| canon(x)).collect::<Vec<_>>().join(",")),
            Val::En(i, vi, v) => {
                let vn = edefs()[*i].variants[*vi].0;
                if abra_side && edefs()[*i].opaque_in_abra.contains(&vn) {
                    return format!("{vn}(?)");
                }
                if v.is_empty() { vn.to_string() } else { format!("{vn}({})", v.iter().map(|x| canon(x)).collect::<Vec<_>>().join(",")) }
            }
        }
    }
    /// Abra expression (used as the initialiser of an annotated `let`)
    fn abra(&self) -> String {
        match self {
            Val::Int(i) => {
                if *i == i64::MIN {
                    "(-9223372036854775807 - 1)".into()
                } else if *i < 0 {
                    format!("({i})")
                } else {
                    i.to_string()
                }
            }
            Val::Float(k) => ["0.0", "(-2.5)", "3.25"][*k].into(),
            Val::Bool(b) => b.to_string(),
            Val::Str(s) => format!("\"{s}\""),
            Val::Nil => "nil".into(),
            Val::Arr(v) => format!("[{}]", v.iter().map(|x| x.abra()).collect::<Vec<_>>().join(", ")),
            Val::Tup(v) => format!("({})", v.iter().map(|x| x.abra()).collect::<Vec<_>>().join(", ")),
            // qualified constructors: the `.some(..)` shorthand cannot be inferred when nested
            Val::Some(x) => format!("option.some({})", x.abra()),
            Val::None => "option.none".into(),
            Val::Ok(x) => format!("result.ok({})", x.abra()),
            Val::Err(x) => format!("result.err({})", x.abra()),
            Val::St(i, v) => format!("{}({})", sdefs()[*i].name, v.iter().map(|x| x.abra()).collect::<Vec<_>>().join(", ")),
            Val::En(i, vi, v) => {
                let e = &edefs()[*i];
                let vn = e.variants[*vi].0;
                if v.is_empty() {
                    format!("{}.{vn}", e.name)
                } else {
                    format!("{}.{vn}({})", e.name, v.iter().map(|x| x.abra()).collect::<Vec<_>>().join(", "))
                }
            }
        }
    }
}

// ------------------------------------------------------------------ the function universe

#[derive(Clone, Debug)]
enum FnKind {
    Echo(Ty),
    Swap(Ty, Ty),
}
#[derive(Clone, Debug)]
struct HostFn {
    name: String,
    kind: FnKind,
}
impl HostFn {
    fn decl(&self) -> String {
        match &self.kind {
            FnKind::Echo(t) => format!("#host\nfn {}(x: {}) -> {}\n", self.name, t.abra(), t.abra()),
            FnKind::Swap(a, b) => format!("#host\nfn {}(a: {}, b: {}) -> ({}, {})\n", self.name, a.abra(), b.abra(), b.abra(), a.abra()),
        }
    }
    fn sig(&self) -> String {
        self.decl().lines().nth(1).unwrap().to_string()
    }
    /// value grid: (abra let-statements + call result type, expected received text, expected returned text)
    fn cases(&self) -> Vec<(Vec<Val>, String, String)> {
        match &self.kind {
            FnKind::Echo(t) => t.full().into_iter().map(|v| { let c = v.canon(); let r = v.canon_side(true); (vec![v], c, r) }).collect(),
            FnKind::Swap(a, b) => zip_cyclic(&[a.cover(), b.cover()])
                .into_iter()
                .map(|p| {
                    let recv = format!("{}|{}", p[0].canon(), p[1].canon());
                    let ret = Val::Tup(vec![p[1].clone(), p[0].clone()]).canon_side(true);
                    (p, recv, ret)
                })
                .collect(),
        }
    }
    fn ret_ty(&self) -> Ty {
        match &self.kind {
            FnKind::Echo(t) => t.clone(),
            FnKind::Swap(a, b) => Tup(vec![b.clone(), a.clone()]),
        }
    }
    fn void_inside(&self) -> bool {
        match &self.kind {
            FnKind::Echo(t) => t.void_inside(),
            FnKind::Swap(a, b) => a.void_inside() || b.void_inside() || *a == Void || *b == Void,
        }
    }
    fn head(&self) -> String {
        match &self.kind {
            FnKind::Echo(t) => format!("echo:{}", t.head()),
            FnKind::Swap(..) => "swap".into(),
        }
    }
}

fn depth1_types(with_triples: bool) -> Vec<Ty> {
    let mut v = vec![];
    for l in &LEAVES {
        v.push(Arr(Box::new(l.clone())));
    }
    for a in &LEAVES {
        for b in &LEAVES {
            v.push(Tup(vec![a.clone(), b.clone()]));
        }
    }
    if with_triples {
        for a in &LEAVES {
            for b in &LEAVES {
                for c in &LEAVES {
                    v.push(Tup(vec![a.clone(), b.clone(), c.clone()]));
                }
            }
        }
    }
    for l in &LEAVES {
        v.push(Opt(Box::new(l.clone())));
    }
    for a in &LEAVES {
        for b in &LEAVES {
            v.push(Res(Box::new(a.clone()), Box::new(b.clone())));
        }
    }
    for i in 0..sdefs().len() {
        v.push(St(i));
    }
    for i in 0..edefs().len() {
        v.push(En(i));
    }
    v
}

fn representative_types() -> Vec<Ty> {
    let b = |t: Ty| Box::new(t);
    vec![
        Int,
        Float,
        Bool,
        Str,
        Void,
        Arr(b(Int)),
        Arr(b(Str)),
        Tup(vec![Int, Bool]),
        Tup(vec![Str, Float, Int]),
        Tup(vec![Int, Void]),
        Opt(b(Int)),
        Opt(b(Str)),
        Res(b(Int), b(Str)),
        Res(b(Void), b(Str)),
        St(0),
        En(0),
        En(2),
    ]
}

fn universe(tier: Tier) -> Vec<HostFn> {
    let mut tys: Vec<Ty> = LEAVES.to_vec();
    tys.extend(depth1_types(true));
    if tier == Tier::Thorough {
        let bx = |t: &Ty| Box::new(t.clone());
        for d in depth1_types(false) {
            tys.push(Arr(bx(&d)));
            tys.push(Opt(bx(&d)));
            tys.push(Tup(vec![d.clone(), Int]));
            tys.push(Tup(vec![Int, d.clone()]));
            tys.push(Res(bx(&d), bx(&Str)));
            tys.push(Res(bx(&Int), bx(&d)));
        }
    }
    let mut v = vec![];
    for (i, t) in tys.iter().enumerate() {
        v.push(HostFn { name: format!("e{i:03}"), kind: FnKind::Echo(t.clone()) });
    }
    let reps = representative_types();
    let mut k = 0;
    for a in &reps {
        for b in &reps {
            v.push(HostFn { name: format!("p{k:03}"), kind: FnKind::Swap(a.clone(), b.clone()) });
            k += 1;
        }
    }
    v
}

fn type_decls() -> String {
    let mut s = String::new();
    for d in sdefs() {
        s.push_str(&format!("#host\ntype {} = {{\n", d.name));
        for (n, t) in &d.fields {
            s.push_str(&format!("    {n}: {}\n", t.abra()));
        }
        s.push_str("}\n\n");
    }
    for d in edefs() {
        s.push_str(&format!("#host\ntype {} =\n", d.name));
        for (n, p) in &d.variants {
            if p.is_empty() {
                s.push_str(&format!("    | {n}\n"));
            } else {
                s.push_str(&format!("    | {n}({})\n", p.iter().map(|t| t.abra()).collect::<Vec<_>>().join(", ")));
            }
        }
        s.push('\n');
    }
    s
}

fn hostdecl_text(fns: &[HostFn]) -> String {
    let mut s = type_decls();
    s.push_str("#host\nfn tsel() -> int\n\n#host\nfn trep(s: string) -> void\n\n");
    for f in fns {
        s.push_str(&f.decl());
        s.push('\n');
    }
    s
}

// ------------------------------------------------------------------ Abra driver generation

/// name of the Abra render function for `t`, emitting it (and its dependencies) into `defs` once
fn render_fn(t: &Ty, defs: &mut BTreeMap<String, String>, order: &mut Vec<String>) -> String {
    let name = format!("r_{}", t.mangle());
    if defs.contains_key(&name) {
        return name;
    }
    defs.insert(name.clone(), String::new()); // reserve (no recursion in types, but keeps order simple)
    let ta = t.abra();
    let body = match t {
        Int => "  v.str()\n".to_string(),
        Float => "  if v == 0.0 {\n    \"F0\"\n  } else {\n    if v == (-2.5) {\n      \"F1\"\n    } else {\n      if v == 3.25 {\n        \"F2\"\n      } else {\n        \"F?\"\n      }\n    }\n  }\n".to_string(),
        Bool => "  if v {\n    \"true\"\n  } else {\n    \"false\"\n  }\n".to_string(),
        Str => "  \"<\" .. v .. \">\"\n".to_string(),
        Void => "  \"nil\"\n".to_string(),
        Arr(e) => {
            let re = rend_expr(e, "v[i]", defs, order);
            format!("  var s = \"[\"\n  var i = 0\n  while i < v.len() {{\n    if i > 0 {{\n      s = s .. \",\"\n    }}\n    s = s .. {re}\n    i = i + 1\n  }}\n  s .. \"]\"\n")
        }
        Tup(ts) => {
            let names: Vec<String> = (0..ts.len()).map(|i| format!("c{i}")).collect();
            let mut b = format!("  let ({}) = v\n  \"(\"", names.join(", "));
            for (i, ct) in ts.iter().enumerate() {
                if i > 0 {
                    b.push_str(" .. \",\"");
                }
                b.push_str(&format!(" .. {}", rend_expr(ct, &names[i], defs, order)));
            }
            b.push_str(" .. \")\"\n");
            b
        }
        Opt(e) => {
            let re = rend_expr(e, "x", defs, order);
            format!("  match v {{\n    .some(x) -> \"some(\" .. {re} .. \")\"\n    .none -> \"none\"\n  }}\n")
        }
        Res(a, e) => {
            let ra = rend_expr(a, "x", defs, order);
            let re = rend_expr(e, "y", defs, order);
            format!("  match v {{\n    .ok(x) -> \"ok(\" .. {ra} .. \")\"\n    .err(y) -> \"err(\" .. {re} .. \")\"\n  }}\n")
        }
        St(i) => {
            let d = &sdefs()[*i];
            let mut b = format!("  \"{}{{\"", d.name);
            for (k, (fname, ft)) in d.fields.iter().enumerate() {
                if k > 0 {
                    b.push_str(" .. \",\"");
                }
                b.push_str(&format!(" .. {}", rend_expr(ft, &format!("v.{fname}"), defs, order)));
            }
            b.push_str(" .. \"}\"\n");
            b
        }
        En(i) => {
            let d = &edefs()[*i];
            let mut b = String::from("  match v {\n");
            for (vn, payload) in &d.variants {
                if d.opaque_in_abra.contains(vn) {
                    continue;
                }
                if payload.is_empty() {
                    b.push_str(&format!("    .{vn} -> \"{vn}\"\n"));
                } else {
                    let qs: Vec<String> = (0..payload.len()).map(|k| format!("q{k}")).collect();
                    b.push_str(&format!("    .{vn}({}) -> \"{vn}(\"", qs.join(", ")));
                    for (k, pt) in payload.iter().enumerate() {
                        if k > 0 {
                            b.push_str(" .. \",\"");
                        }
                        b.push_str(&format!(" .. {}", rend_expr(pt, &qs[k], defs, order)));
                    }
                    b.push_str(" .. \")\"\n");
                }
            }
            if let Some(vn) = d.opaque_in_abra.first() {
                // only one opaque variant per enum is supported: it is whatever the explicit arms do not match
                b.push_str(&format!("    _ -> \"{vn}(?)\"\n"));
            }
            b.push_str("  }\n");
            b
        }
    };
    defs.insert(name.clone(), format!("fn {name}(v: {ta}) -> string {{\n{body}}}\n"));
    order.push(name.clone());
    name
}

/// Abra expression rendering `expr` of type `t`; `void` is rendered as the constant "nil"
fn rend_expr(t: &Ty, expr: &str, defs: &mut BTreeMap<String, String>, order: &mut Vec<String>) -> String {
    if *t == Void {
        return "\"nil\"".into();
    }
    let f = render_fn(t, defs, order);
    format!("{f}({expr})")
}

fn driver_text(f: &HostFn) -> String {
    let mut defs = BTreeMap::new();
    let mut order = vec![];
    let rt = f.ret_ty();
    let rexpr = rend_expr(&rt, "r", &mut defs, &mut order);
    let mut s = String::from("use hostdecl\n\n");
    for n in &order {
        s.push_str(&defs[n]);
        s.push('\n');
    }
    let cases = f.cases();
    for (i, (vals, _, _)) in cases.iter().enumerate() {
        s.push_str(&format!("fn case{i}() -> void {{\n"));
        match &f.kind {
            FnKind::Echo(t) => {
                s.push_str(&format!("  let x: {} = {}\n  let r = {}(x)\n", t.abra(), vals[0].abra(), f.name));
            }
            FnKind::Swap(a, b) => {
                s.push_str(&format!(
                    "  let a: {} = {}\n  let b: {} = {}\n  let r = {}(a, b)\n",
                    a.abra(),
                    vals[0].abra(),
                    b.abra(),
                    vals[1].abra(),
                    f.name
                ));
            }
        }
        s.push_str(&format!("  trep({rexpr})\n}}\n\n"));
    }
    s.push_str("let sel = tsel()\n");
    for i in 0..cases.len() {
        s.push_str(&format!("if sel == {i} {{\n  case{i}()\n}}\n"));
    }
    s
}

// ------------------------------------------------------------------ the generated crate

const MAIN_RS_HEAD: &str = r##"// @generated by the verification engine (property C36). Do not edit.
#![allow(unused, non_snake_case, clippy::all)]
use abra_core::OsFileProvider;
use abra_core::vm::{Runtime, RuntimeStatusKind, VmGreenThread};
use std::cell::RefCell;
use std::io::Write;
use std::mem::ManuallyDrop;
use std::panic::{AssertUnwindSafe, catch_unwind};
use std::path::PathBuf;

mod generated {
    include!("generated/mod.rs");
}
use generated::*;

trait Rend {
    fn rend(&self) -> String;
}
impl Rend for i64 {
    fn rend(&self) -> String {
        self.to_string()
    }
}
impl Rend for f64 {
    fn rend(&self) -> String {
        let grid = [0.0f64, -2.5, 3.25];
        for (i, g) in grid.iter().enumerate() {
            if g.to_bits() == self.to_bits() {
                return format!("F{i}");
            }
        }
        format!("F?{:?}", self)
    }
}
impl Rend for bool {
    fn rend(&self) -> String {
        self.to_string()
    }
}
impl Rend for String {
    fn rend(&self) -> String {
        format!("<{}>", self)
    }
}
impl Rend for () {
    fn rend(&self) -> String {
        "nil".into()
    }
}
impl<T: Rend> Rend for Vec<T> {
    fn rend(&self) -> String {
        format!("[{}]", self.iter().map(|x| x.rend()).collect::<Vec<_>>().join(","))
    }
}
impl<T: Rend> Rend for Option<T> {
    fn rend(&self) -> String {
        match self {
            Some(x) => format!("some({})", x.rend()),
            None => "none".into(),
        }
    }
}
impl<T: Rend, E: Rend> Rend for Result<T, E> {
    fn rend(&self) -> String {
        match self {
            Ok(x) => format!("ok({})", x.rend()),
            Err(x) => format!("err({})", x.rend()),
        }
    }
}
impl<A: Rend, B: Rend> Rend for (A, B) {
    fn rend(&self) -> String {
        format!("({},{})", self.0.rend(), self.1.rend())
    }
}
impl<A: Rend, B: Rend, C: Rend> Rend for (A, B, C) {
    fn rend(&self) -> String {
        format!("({},{},{})", self.0.rend(), self.1.rend(), self.2.rend())
    }
}
//@@REND_IMPLS@@

fn esc(s: &str) -> String {
    let mut o = String::new();
    for c in s.chars() {
        match c {
            '"' => o.push_str("\\\""),
            '\\' => o.push_str("\\\\"),
            '\n' => o.push_str("\\n"),
            '\r' => o.push_str("\\r"),
            '\t' => o.push_str("\\t"),
            c if (c as u32) < 0x20 => o.push_str(&format!("\\u{:04x}", c as u32)),
            c => o.push(c),
        }
    }
    o
}
fn optj(s: &Option<String>) -> String {
    match s {
        Some(s) => format!("\"{}\"", esc(s)),
        None => "null".into(),
    }
}

thread_local! {
    static LAST_PANIC: RefCell<Option<String>> = const { RefCell::new(None) };
}

#[derive(Default)]
struct St {
    case: i64,
    received: Option<String>,
    returned: Option<String>,
    host_calls: u32,
}

fn say(line: String) {
    let mut so = std::io::stdout().lock();
    let _ = writeln!(so, "{line}");
    let _ = so.flush();
}

fn take_panic() -> String {
    LAST_PANIC.with(|p| p.borrow_mut().take()).unwrap_or_else(|| "?".into())
}

fn main() {
    std::panic::set_hook(Box::new(|info| {
        let loc = info.location().map(|l| format!("{}:{}", l.file(), l.line())).unwrap_or_else(|| "?".into());
        let msg = if let Some(s) = info.payload().downcast_ref::<&str>() {
            s.to_string()
        } else if let Some(s) = info.payload().downcast_ref::<String>() {
            s.clone()
        } else {
            "<non-string panic payload>".into()
        };
        LAST_PANIC.with(|p| *p.borrow_mut() = Some(format!("{loc}: {msg}")));
    }));
    let args: Vec<String> = std::env::args().collect();
    let dir = PathBuf::from(&args[1]);
    let name = args[2].clone();
    let from: i64 = args[3].parse().unwrap();
    let to: i64 = args[4].parse().unwrap();
    let main_file = format!("drv_{name}.abra");
    say(format!("{{\"compiling\":\"{name}\"}}"));
    let program = match catch_unwind(AssertUnwindSafe(|| abra_core::compile_bytecode(&main_file, OsFileProvider::single_dir(dir.clone())))) {
        Ok(Ok(p)) => p,
        Ok(Err(e)) => {
            say(format!("{{\"fn\":\"{name}\",\"compile\":\"error\",\"msg\":\"{}\"}}", esc(&format!("{e}"))));
            return;
        }
        Err(_) => {
            say(format!("{{\"fn\":\"{name}\",\"compile\":\"panic\",\"msg\":\"{}\"}}", esc(&take_panic())));
            return;
        }
    };
    for case in from..to {
        say(format!("{{\"begin\":\"{name}\",\"case\":{case}}}"));
        let mut st = St { case, ..Default::default() };
        let r = catch_unwind(AssertUnwindSafe(|| {
            let mut rt = ManuallyDrop::new(Runtime::new(program.clone()));
            let mut steps: u64 = 0;
            let end = loop {
                let status = rt.run_n_steps(100_000);
                steps += status.steps_consumed as u64;
                match status.kind {
                    RuntimeStatusKind::Done => break "done".to_string(),
                    RuntimeStatusKind::MainThreadError(e) => break format!("error: {e}"),
                    RuntimeStatusKind::PendingHostFunc => {
                        for thread in rt.iter_threads_mut() {
                            if let Some(id) = thread.get_pending_host_func() {
                                st.host_calls += 1;
                                service(thread, id, &mut st);
                            }
                        }
                    }
                    RuntimeStatusKind::OutOfSteps => {}
                }
                if steps > 50_000_000 {
                    break "step-cap".to_string();
                }
            };
            // only a runtime that ended normally is dropped; after a panic it is leaked
            unsafe { ManuallyDrop::drop(&mut rt) };
            end
        }));
        let end = match r {
            Ok(e) => e,
            Err(_) => format!("panic: {}", take_panic()),
        };
        say(format!(
            "{{\"fn\":\"{name}\",\"case\":{case},\"end\":\"{}\",\"received\":{},\"returned\":{},\"host_calls\":{}}}",
            esc(&end),
            optj(&st.received),
            optj(&st.returned),
            st.host_calls
        ));
    }
}

fn service(thread: &mut VmGreenThread, id: u16, st: &mut St) {
    let args = HostFunctionArgs::from_vm(thread, id);
    match args {
        HostFunctionArgs::PrintString(_s) => HostFunctionRet::PrintString.into_vm(thread),
        HostFunctionArgs::EprintString(_s) => HostFunctionRet::EprintString.into_vm(thread),
        HostFunctionArgs::Readline => HostFunctionRet::Readline(String::new()).into_vm(thread),
        HostFunctionArgs::GetArgs => HostFunctionRet::GetArgs(vec![]).into_vm(thread),
        HostFunctionArgs::Tsel => HostFunctionRet::Tsel(st.case).into_vm(thread),
        HostFunctionArgs::Trep(s) => {
            st.returned = Some(s);
            HostFunctionRet::Trep.into_vm(thread)
        }
"##;

fn camel(name: &str) -> String {
    let mut c = name.chars();
    match c.next() {
        Some(f) => f.to_uppercase().collect::<String>() + c.as_str(),
        None => String::new(),
    }
}

/// Shape of the generated Rust types, read back from the generated `mod.rs`: field names of every
/// struct and payload arity of every enum variant (0 = unit variant, 1 = single value, k = k-tuple).
/// The harness accepts both layouts a binding generator may choose for `void` members (kept as
/// `()` or dropped), because `void` carries no information.
struct GenShape {
    struct_fields: HashMap<String, Vec<String>>,
    variant_arity: HashMap<(String, String), usize>,
}

fn split_top(s: &str) -> Vec<String> {
    let mut out = vec![];
    let mut depth = 0i32;
    let mut cur = String::new();
    for c in s.chars() {
        match c {
            '(' | '<' | '[' | '{' => {
                depth += 1;
                cur.push(c);
            }
            ')' | '>' | ']' | '}' => {
                depth -= 1;
                cur.push(c);
            }
            ',' if depth == 0 => {
                out.push(std::mem::take(&mut cur));
            }
            c => cur.push(c),
        }
    }
    if !cur.is_empty() {
        out.push(cur);
    }
    out
}

fn parse_generated(generated: &str) -> GenShape {
    let flat: String = generated.chars().filter(|c| !c.is_whitespace()).collect();
    let mut g = GenShape { struct_fields: HashMap::new(), variant_arity: HashMap::new() };
    let body_of = |kw: &str, name: &str| -> Option<String> {
        let pat = format!("pub{kw}{name}{{");
        let i = flat.find(&pat)? + pat.len();
        let mut depth = 1;
        let mut j = i;
        for (k, c) in flat[i..].char_indices() {
            if c == '{' {
                depth += 1;
            } else if c == '}' {
                depth -= 1;
                if depth == 0 {
                    j = i + k;
                    break;
                }
            }
        }
        Some(flat[i..j].to_string())
    };
    for d in sdefs() {
        if let Some(b) = body_of("struct", d.name) {
            let fields = split_top(&b).into_iter().filter_map(|f| f.split_once(':').map(|x| x.0.trim_start_matches("pub").to_string())).collect();
            g.struct_fields.insert(d.name.to_string(), fields);
        }
    }
    for d in edefs() {
        if let Some(b) = body_of("enum", d.name) {
            for v in split_top(&b) {
                let (vn, arity) = match v.split_once('(') {
                    None => (v.clone(), 0),
                    Some((vn, rest)) => {
                        let inner = rest.strip_suffix(')').unwrap_or(rest);
                        let a = if inner == "()" {
                            1 // a single payload of unit type
                        } else if inner.starts_with('(') && inner.ends_with(')') {
                            split_top(&inner[1..inner.len() - 1]).len()
                        } else {
                            1
                        };
                        (vn.to_string(), a)
                    }
                };
                g.variant_arity.insert((d.name.to_string(), vn), arity);
            }
        }
    }
    g
}

fn rend_impls(shape: &GenShape) -> String {
    let mut s = String::new();
    for d in sdefs() {
        let have = shape.struct_fields.get(d.name).cloned().unwrap_or_default();
        let parts: Vec<String> = d
            .fields
            .iter()
            .map(|f| if f.1 == Void && !have.iter().any(|h| h == f.0) { "\"nil\".to_string()".to_string() } else { format!("self.{}.rend()", f.0) })
            .collect();
        s.push_str(&format!(
            "impl Rend for {n} {{\n    fn rend(&self) -> String {{\n        format!(\"{n}{{{{{{}}}}}}\", [{}].join(\",\"))\n    }}\n}}\n",
            parts.join(", "),
            n = d.name
        ));
    }
    for d in edefs() {
        s.push_str(&format!("impl Rend for {n} {{\n    fn rend(&self) -> String {{\n        match self {{\n", n = d.name));
        for (vn, payload) in &d.variants {
            let arity = shape.variant_arity.get(&(d.name.to_string(), vn.to_string())).copied().unwrap_or(if payload.is_empty() { 0 } else { 1 });
            let pat = if arity == 0 { format!("{}::{vn}", d.name) } else { format!("{}::{vn}(p)", d.name) };
            let nonvoid = payload.iter().filter(|t| **t != Void).count();
            let tuple_elems = |k: usize| -> Vec<String> { if k == 1 { vec!["p".to_string()] } else { (0..k).map(|i| format!("p.{i}")).collect() } };
            // which of the two accepted layouts did the generator choose for this variant?
            let layout: Option<(Vec<String>, bool)> = if arity == 0 {
                if nonvoid == 0 { Some((vec![], false)) } else { None }
            } else if payload.len() == 1 || arity == payload.len() {
                Some((tuple_elems(payload.len()), true)) // every field materialised
            } else if nonvoid == 1 || arity == nonvoid {
                Some((tuple_elems(nonvoid), false)) // void fields dropped
            } else {
                None
            };
            let mut parts: Vec<String> = vec![];
            match layout {
                Some((elems, true)) => parts = elems.iter().map(|e| format!("{e}.rend()")).collect(),
                Some((elems, false)) => {
                    let mut it = elems.iter();
                    for t in payload {
                        if *t == Void {
                            parts.push("\"nil\".to_string()".into());
                        } else {
                            parts.push(format!("{}.rend()", it.next().unwrap()));
                        }
                    }
                }
                None => parts.push(format!("\"?unexpected payload arity {arity}\".to_string()")),
            }
            if payload.is_empty() {
                s.push_str(&format!("            {pat} => \"{vn}\".to_string(),\n"));
            } else {
                s.push_str(&format!("            {pat} => format!(\"{vn}({{}})\", [{}].join(\",\")),\n", parts.join(", ")));
            }
        }
        s.push_str("        }\n    }\n}\n");
    }
    s
}

fn main_rs_text(fns: &[HostFn], shape: &GenShape) -> String {
    let mut s = MAIN_RS_HEAD.replace("//@@REND_IMPLS@@", &rend_impls(shape));
    for f in fns {
        let cn = camel(&f.name);
        match &f.kind {
            FnKind::Echo(t) => {
                let ret = match t {
                    Void => format!("HostFunctionRet::{cn}.into_vm(thread)"),
                    Tup(ts) => {
                        let parts: Vec<String> = (0..ts.len()).map(|i| format!("x.{i}")).collect();
                        format!("HostFunctionRet::{cn}({}).into_vm(thread)", parts.join(", "))
                    }
                    _ => format!("HostFunctionRet::{cn}(x).into_vm(thread)"),
                };
                s.push_str(&format!(
                    "        HostFunctionArgs::{cn}(x) => {{\n            st.received = Some(x.rend());\n            {ret}\n        }}\n"
                ));
            }
            FnKind::Swap(..) => {
                s.push_str(&format!(
                    "        HostFunctionArgs::{cn}(a, b) => {{\n            st.received = Some(format!(\"{{}}|{{}}\", a.rend(), b.rend()));\n            HostFunctionRet::{cn}(b, a).into_vm(thread)\n        }}\n"
                ));
            }
        }
    }
    s.push_str("    }\n}\n");
    s
}

fn build_dir(tier: Tier) -> PathBuf {
    verif_root().join("engine").join("hostgen_build").join(tier.name())
}
fn target_dir() -> PathBuf {
    verif_root().join("engine").join("hostgen_build").join("target")
}
fn binary(tier: Tier) -> PathBuf {
    target_dir().join("release").join(format!("hostgen_{}", tier.name()))
}

fn write_if_changed(path: &std::path::Path, text: &str) -> std::io::Result<()> {
    if let Ok(old) = std::fs::read_to_string(path) {
        if old == text {
            return Ok(());
        }
    }
    if let Some(p) = path.parent() {
        std::fs::create_dir_all(p)?;
    }
    std::fs::write(path, text)
}

fn cargo_toml(tier: Tier) -> String {
    format!(
        "[package]\nname = \"hostgen_{}\"\nversion = \"0.0.0\"\nedition = \"2024\"\npublish = false\n\n[dependencies]\nabra_core = {{ path = \"{}\" }}\n\n\
         [profile.release]\nopt-level = 0\ndebug-assertions = true\noverflow-checks = true\npanic = \"unwind\"\ndebug = false\ncodegen-units = 16\nincremental = false\n\n\
         [profile.release.package.\"*\"]\nopt-level = 2\n\n[workspace]\n",
        tier.name(),
        abra_core_path()
    )
}

/// path of the abra_core the engine itself was built against (so a private copy of /repo is followed):
/// the `path = ".."` of the abra_core dependency in the Cargo.toml this engine was compiled from
fn abra_core_path() -> String {
    if let Ok(p) = std::env::var("VERIF_ABRA_CORE") {
        return p;
    }
    let mf = concat!(env!("CARGO_MANIFEST_DIR"), "/Cargo.toml");
    if let Ok(t) = std::fs::read_to_string(mf) {
        for l in t.lines() {
            if l.trim_start().starts_with("abra_core") {
                if let Some(i) = l.find("path = \"") {
                    let rest = &l[i + 8..];
                    if let Some(j) = rest.find('"') {
                        return rest[..j].to_string();
                    }
                }
            }
        }
    }
    "/repo/abra_core".into()
}

fn status_path(tier: Tier) -> PathBuf {
    build_dir(tier).join("prepare_status.json")
}

fn do_prepare(tier: Tier) -> Result<J, String> {
    let dir = build_dir(tier);
    let fns = universe(tier);
    std::fs::create_dir_all(dir.join("abra")).map_err(|e| e.to_string())?;
    std::fs::create_dir_all(dir.join("src/generated")).map_err(|e| e.to_string())?;
    // 1. Abra sources
    let hostdecl = hostdecl_text(&fns);
    write_if_changed(&dir.join("abra/hostdecl.abra"), &hostdecl).map_err(|e| e.to_string())?;
    for f in &fns {
        write_if_changed(&dir.join(format!("abra/drv_{}.abra", f.name)), &driver_text(f)).map_err(|e| e.to_string())?;
    }
    // 2. the generator of the working tree
    let tmp = dir.join("gen_tmp");
    let _ = std::fs::remove_dir_all(&tmp);
    std::fs::create_dir_all(&tmp).map_err(|e| e.to_string())?;
    let mut m = HashMap::new();
    m.insert(PathBuf::from("hostdecl.abra"), hostdecl.clone());
    let provider = abra_core::MockFileProvider::new(m);
    let g = crate::drive::catch(|| abra_core::generate_host_function_enum("hostdecl.abra", provider, &tmp));
    match g {
        Err(p) => return Ok(json!({"ok": false, "stage": "generator-panic", "message": format!("{}: {}", p.site, p.msg), "site_key": p.site_key()})),
        Ok(Err(e)) => return Ok(json!({"ok": false, "stage": "generator-error", "message": format!("{e}")})),
        Ok(Ok(())) => {}
    }
    let generated = std::fs::read_to_string(tmp.join("mod.rs")).map_err(|e| format!("generator wrote no mod.rs: {e}"))?;
    write_if_changed(&dir.join("src/generated/mod.rs"), &generated).map_err(|e| e.to_string())?;
    // 3. the crate
    write_if_changed(&dir.join("src/main.rs"), &main_rs_text(&fns, &parse_generated(&generated))).map_err(|e| e.to_string())?;
    write_if_changed(&dir.join("Cargo.toml"), &cargo_toml(tier)).map_err(|e| e.to_string())?;
    let core = PathBuf::from(abra_core_path());
    if let Some(lock) = core.parent().map(|p| p.join("Cargo.lock")) {
        if let Ok(t) = std::fs::read_to_string(lock) {
            if !dir.join("Cargo.lock").exists() {
                let _ = std::fs::write(dir.join("Cargo.lock"), t);
            }
        }
    }
    let out = Command::new("cargo")
        .args(["build", "--release", "--offline"])
        .current_dir(&dir)
        .env("CARGO_TARGET_DIR", target_dir())
        .output()
        .map_err(|e| format!("cannot run cargo: {e}"))?;
    if !out.status.success() {
        let err = String::from_utf8_lossy(&out.stderr);
        let first: Vec<&str> = err.lines().filter(|l| l.starts_with("error")).take(20).collect();
        let tail: String = err.lines().rev().take(60).collect::<Vec<_>>().into_iter().rev().collect::<Vec<_>>().join("\n");
        return Ok(json!({"ok": false, "stage": "generated-crate-does-not-build", "message": first.join("\n"), "tail": tail}));
    }
    Ok(json!({"ok": true, "functions": fns.len()}))
}

const CHUNK: usize = 8;

impl Prop for C36 {
    fn id(&self) -> &'static str {
        "C36"
    }
    fn level(&self) -> &'static str {
        "exploration"
    }
    fn prepare(&self, tier: Tier) -> Result<(), String> {
        let st = do_prepare(tier)?;
        std::fs::write(status_path(tier), serde_json::to_string_pretty(&st).unwrap()).map_err(|e| e.to_string())?;
        Ok(())
    }
    fn n_units(&self, tier: Tier) -> usize {
        universe(tier).len().div_ceil(CHUNK)
    }
    fn expected_evaluations(&self, tier: Tier) -> Option<u64> {
        Some(universe(tier).iter().map(|f| f.cases().len() as u64).sum())
    }
    fn min_classes(&self) -> usize {
        3
    }
    fn run_unit(&self, tier: Tier, unit: usize, out: &mut UnitOut) {
        let fns = universe(tier);
        let st: J = std::fs::read_to_string(status_path(tier)).ok().and_then(|s| serde_json::from_str(&s).ok()).unwrap_or(json!({"ok": false, "stage": "no-prepare-status", "message": "prepare did not run"}));
        if !st["ok"].as_bool().unwrap_or(false) {
            if unit == 0 && out.begin_case(0) {
                let stage = st["stage"].as_str().unwrap_or("?").to_string();
                let mut keys = vec![format!("input:{}", hkey(&format!("C36 prepare {stage} {}", tier.name()))), format!("stage:{stage}")];
                if let Some(k) = st["site_key"].as_str() {
                    keys.push(k.to_string());
                }
                out.class(&format!("violation:{stage}"));
                out.violation(
                    keys,
                    format!("C36 bindings pipeline failed at stage {stage}: {}", st["message"].as_str().unwrap_or("").lines().next().unwrap_or("")),
                    json!({"status": st, "hostdecl": build_dir(tier).join("abra/hostdecl.abra").display().to_string()}),
                );
            }
            return;
        }
        let lo = unit * CHUNK;
        let hi = ((unit + 1) * CHUNK).min(fns.len());
        let mut base: u64 = 0;
        for f in &fns[lo..hi] {
            let cases = f.cases();
            run_fn(tier, out, f, &cases, base);
            base += cases.len() as u64;
        }
    }
    fn rule(&self, tier: Tier) -> String {
        let fns = universe(tier);
        let echo = fns.iter().filter(|f| matches!(f.kind, FnKind::Echo(_))).count();
        let swap = fns.len() - echo;
        let maxd = fns.iter().filter_map(|f| if let FnKind::Echo(t) = &f.kind { Some(t.depth()) } else { None }).max().unwrap_or(0);
        format!(
            "{echo} echo functions `fn e(x: T) -> T`, one per type T of depth <= {maxd} over leaves {{int, float, bool, string, void}} and constructors array<.>, (.,.), (.,.,.), option<.>, result<.,.>, \
             #host structs Hs {{a: int, u: void, s: string}}, Hs2 {{p: (int, bool), o: option<string>, ar: array<int>, h: Hs, e: He}}, \
             #host enums He = Pa | Pb(int) | Pc(int, string), He2 = Qa((int, bool)) | Qb(option<int>) | Qc(Hs) | Qd(array<string>) | Qf(He, float), He3 = Ra | Rb(void) | Rc(int, void, string), He4 = Sa | Sd(int, void) \
             (depth 1: every constructor over every leaf combination; depth 2: array<D>, option<D>, (D, int), (int, D), result<D, string>, result<int, D> for every depth-1 type D except triples), \
             plus {swap} two-argument tuple-returning functions `fn p(a: A, b: B) -> (B, A)` over all ordered pairs of {} representative types. \
             Values: leaves int {{0, MAX, MIN}}, float {{0.0, -2.5, 3.25}}, bool {{true, false}}, string {{\"\", \"héllo wörld\"}}, void {{nil}}; an echo function of a tuple / struct type gets the full product of its components' covering lists, \
             other types their covering list (arrays: empty, singleton, all; option: none + some of each; result: ok/err of each; components of composite values are combined position-wise cyclically). \
             Oracle per case: canonical text of the argument as received through the generated HostFunctionArgs::from_vm (rendered in Rust) and canonical text of the value Abra receives back through HostFunctionRet::into_vm (rendered by generated structural Abra code) \
             both equal the canonical text of the value; the run ends normally. Every (function, value) case is distinct and counted as non-trivial.",
            representative_types().len()
        )
    }
    fn assumptions(&self) -> Vec<String> {
        vec![
            "the property's 'random argument values' are replaced by the enumerated boundary grid".into(),
            "float values are exactly representable decimals so that literal parsing (another property) cannot interfere".into(),
            "rendering on the Abra side uses generated structural code (match / destructuring / indexing), not the prelude's ToString".into(),
            "He4.Sd(int, void): any Abra pattern on a variant whose fields are one value plus void stops with `expected struct but got int` in pure Abra (compiler defect outside this property), so the Abra side only checks that the returned value is not Sa; the host side checks the full value".into(),
        ]
    }
}

fn run_fn(tier: Tier, out: &mut UnitOut, f: &HostFn, cases: &[(Vec<Val>, String, String)], base: u64) {
    let dir = build_dir(tier).join("abra");
    let n = cases.len() as i64;
    let wanted: Vec<bool> = (0..cases.len()).map(|i| out.begin_case(base + i as u64)).collect();
    if !wanted.iter().any(|w| *w) {
        return;
    }
    let driver = std::fs::read_to_string(dir.join(format!("drv_{}.abra", f.name))).unwrap_or_default();
    let mut results: HashMap<i64, J> = HashMap::new();
    let mut fn_level: Option<J> = None;
    let mut aborted: HashMap<i64, String> = HashMap::new();
    let mut from = 0i64;
    let mut spawns = 0;
    while from < n && spawns < 64 {
        spawns += 1;
        let child = Command::new(binary(tier))
            .arg(&dir)
            .arg(&f.name)
            .arg(from.to_string())
            .arg(n.to_string())
            .stdin(Stdio::null())
            .stdout(Stdio::piped())
            .stderr(Stdio::null())
            .spawn();
        let mut child = match child {
            Ok(c) => c,
            Err(e) => {
                out.notes.push(format!("cannot start generated binary: {e}"));
                out.capped = true;
                return;
            }
        };
        let rd = BufReader::new(child.stdout.take().unwrap());
        let mut last_begin: Option<i64> = None;
        for line in rd.lines() {
            let Ok(line) = line else { break };
            let Ok(j) = serde_json::from_str::<J>(line.trim()) else { continue };
            if j.get("begin").is_some() {
                last_begin = j["case"].as_i64();
            } else if j.get("compile").is_some() {
                fn_level = Some(j);
            } else if let Some(c) = j.get("case").and_then(|c| c.as_i64()) {
                results.insert(c, j);
                last_begin = None;
            }
        }
        let status = child.wait().map(|s| format!("{s}")).unwrap_or("?".into());
        if fn_level.is_some() {
            break;
        }
        match last_begin {
            Some(c) => {
                // the process died while running case c
                aborted.insert(c, status);
                from = c + 1;
            }
            None => {
                if (from..n).all(|c| results.contains_key(&c)) {
                    break;
                }
                // died outside a case (e.g. while compiling): attribute to the function
                fn_level = Some(json!({"compile": "abort", "msg": format!("process ended with {status} before running a case")}));
                break;
            }
        }
    }
    let vkey = if f.void_inside() { Some("cause:void-inside-composite".to_string()) } else { None };
    for (i, (vals, exp_recv, exp_ret)) in cases.iter().enumerate() {
        if !wanted[i] {
            continue;
        }
        out.begin_case_quiet(base + i as u64);
        out.evaluations += 1;
        let case_text = format!("C36 {} value {}", f.sig(), vals.iter().map(|v| v.abra()).collect::<Vec<_>>().join(" , "));
        out.nontrivial_text(&case_text);
        let mut keys = vec![format!("input:{}", hkey(&case_text))];
        let detail = |obs: J| {
            json!({"case": case_text, "host_declaration": format!("{}{}", type_decls(), f.decl()), "driver_program": driver, "case_index": i,
                   "expected_received_by_host": exp_recv, "expected_returned_to_abra": exp_ret, "observed": obs,
                   "how": "the driver is compiled with hostdecl.abra beside it; host calls are serviced with the generated HostFunctionArgs::from_vm / HostFunctionRet::into_vm; tsel() returns case_index"})
        };
        let fail = |out: &mut UnitOut, cls: &str, what: String, obs: J, keys: &mut Vec<String>| {
            if let Some(k) = &vkey {
                keys.push(k.clone());
            }
            keys.push(format!("symptom:{cls}"));
            out.class(&format!("violation:{cls}{}", if vkey.is_some() { "(void inside)" } else { "" }));
            out.violation(keys.clone(), format!("{case_text}: {what}"), detail(obs));
        };
        if let Some(fl) = &fn_level {
            let kind = fl["compile"].as_str().unwrap_or("?");
            let msg = strip_ansi(fl["msg"].as_str().unwrap_or(""));
            let first = msg.lines().find(|l| !l.trim().is_empty()).unwrap_or("").to_string();
            fail(out, &format!("driver-compile-{kind}"), format!("driver program does not compile ({kind}): {first}"), json!({"compile": kind, "message": msg}), &mut keys);
            continue;
        }
        if let Some(status) = aborted.get(&(i as i64)) {
            keys.push("abort".into());
            fail(out, "process-abort", format!("process abort ({status}) while servicing the case"), json!({"exit": status}), &mut keys);
            continue;
        }
        let Some(r) = results.get(&(i as i64)) else {
            fail(out, "no-result", "the generated binary reported nothing for this case".into(), json!(null), &mut keys);
            continue;
        };
        let end = r["end"].as_str().unwrap_or("");
        let recv = r["received"].as_str();
        let ret = r["returned"].as_str();
        if end != "done" {
            let first = strip_ansi(end).lines().next().unwrap_or("").to_string();
            let cls = if end.starts_with("panic") { "rust-panic" } else if end.starts_with("error") { "vm-error" } else { "no-normal-end" };
            fail(out, cls, format!("run ended with `{first}` (host received {recv:?}, Abra got back {ret:?})"), r.clone(), &mut keys);
            continue;
        }
        if recv != Some(exp_recv.as_str()) {
            fail(out, "host-received-wrong-value", format!("host received {recv:?}, expected {exp_recv:?}"), r.clone(), &mut keys);
            continue;
        }
        if ret != Some(exp_ret.as_str()) {
            fail(out, "abra-got-back-wrong-value", format!("Abra got back {ret:?}, expected {exp_ret:?}"), r.clone(), &mut keys);
            continue;
        }
        out.class(&format!("ok:{}", f.head()));
        if (base + i as u64) % 97 == 0 {
            out.sample(json!({"case": case_text, "received_by_host": recv, "returned_to_abra": ret}));
        }
    }
}

fn strip_ansi(s: &str) -> String {
    let mut o = String::new();
    let mut it = s.chars().peekable();
    while let Some(c) = it.next() {
        if c == '\x1b' {
            for d in it.by_ref() {
                if d.is_ascii_alphabetic() {
                    break;
                }
            }
        } else {
            o.push(c);
        }
    }
    o
}
