//! C21 — names resolve to the innermost visible declaration; imports are exact.
//!
//! Family A (imports): three files `main.abra`, `aa.abra`, `dir/bb.abra`. `aa` and `dir/bb` each
//! declare a subset of {f, g, Ty} whose bodies identify the file; `main` imports each with one of
//! the seven forms {none, glob, `.f`, `.(f,g)`, `except f`, `except (f,g)`, `as q`} and optionally
//! declares its own `fn f` (a file-level declaration) or a top-level `let f` (a local binding).
//! A 40-line model resolver computes the set of declarations visible under each name; from it
//! the expected outcome of every generated program: accepted with an exact list of emitted tags,
//! rejected with a clash diagnostic, or rejected with an unresolved-identifier diagnostic.
//!
//! Family E (imported enums): the same three files, but `aa` and `dir/bb` declare ∅, {En} or {En, mk}
//! (`type En = Ra | Rb` with a member function `who` whose values identify the file and the variant;
//! `fn mk() -> En`); `main` imports each with one of nine forms {none, glob, `.mk`, `.En`, `.(mk, En)`,
//! `except mk`, `except En`, `except (mk, En)`, `as q`} and optionally declares its own `type En`.
//! `En` is used in main as a type annotation, in qualified variant expressions (`En.Ra`) and in
//! enum-qualified variant PATTERNS (`match v { En.Ra -> .. En.Rb -> .. }`, resolved through the
//! namespace table rather than the declaration table). Same model resolver, same three outcomes.
//!
//! Family B (nested scopes): chains of ≤ d nested scopes (block, if, while, for, match arm, lambda;
//! for / arm / lambda either binding `x` or another name), each level optionally declaring
//! `let x` before or after the inner scope; `x` is observed innermost and again after every scope
//! closes. Expected values from a lexical-scoping model (environment stack).

use crate::batch::{Case, CaseResult, run_cases};
use crate::drive::{self, COpts, Compiled, Emit, End, ROpts, Src, StdHost};
use crate::fw::{Prop, Tier, UnitOut, hkey};
use serde_json::json;

pub struct C21;

// ------------------------------------------------------------------ family A: imports

const NAMES: [&str; 3] = ["f", "g", "Ty"];

#[derive(Clone, Copy, Debug, PartialEq, Eq)]
pub enum Form {
    None,
    Glob,
    OnlyF,
    OnlyFG,
    ExceptF,
    ExceptFG,
    As,
}
const FORMS: [Form; 7] = [Form::None, Form::Glob, Form::OnlyF, Form::OnlyFG, Form::ExceptF, Form::ExceptFG, Form::As];

#[derive(Clone, Copy, Debug, PartialEq, Eq)]
pub enum Own {
    None,
    /// `fn f() -> int = 1` in main: a file-level declaration
    FnF,
    /// `let f = () -> 2` at main's top level: a local binding (innermost)
    LetF,
}
const OWNS: [Own; 3] = [Own::None, Own::FnF, Own::LetF];

#[derive(Clone, Copy, Debug)]
pub struct Layout {
    /// bit i set: the file declares NAMES[i]
    pub sa: u8,
    pub sb: u8,
    pub fa: Form,
    pub fb: Form,
    pub own: Own,
}

fn has(set: u8, i: usize) -> bool {
    set & (1 << i) != 0
}

/// --- the model resolver -------------------------------------------------------------------
/// names of the imported file that `form` makes visible unqualified
fn bare_visible(set: u8, form: Form) -> u8 {
    let f = 1u8;
    let g = 2u8;
    match form {
        Form::None | Form::As => 0,
        Form::Glob => set,
        Form::OnlyF => set & f,
        Form::OnlyFG => set & (f | g),
        Form::ExceptF => set & !f,
        Form::ExceptFG => set & !(f | g),
    }
}
/// an inclusion list names something the file does not declare
fn imports_missing(set: u8, form: Form) -> bool {
    match form {
        Form::OnlyF => set & 1 == 0,
        Form::OnlyFG => set & 3 != 3,
        _ => false,
    }
}
#[derive(Clone, Debug, PartialEq)]
pub enum Res {
    /// exactly one visible declaration: its tag
    Tag(i64),
    Unresolved,
    Clash,
}
/// file-level declarations visible in main under NAMES[i]
fn file_level(l: &Layout, i: usize) -> Vec<i64> {
    let mut v = vec![];
    if i == 0 && l.own == Own::FnF {
        v.push(1);
    }
    if has(bare_visible(l.sa, l.fa), i) {
        v.push(11 + i as i64);
    }
    if has(bare_visible(l.sb, l.fb), i) {
        v.push(21 + i as i64);
    }
    v
}
fn resolve_file_level(l: &Layout, i: usize) -> Res {
    let v = file_level(l, i);
    match v.len() {
        0 => Res::Unresolved,
        1 => Res::Tag(v[0]),
        _ => Res::Clash,
    }
}
fn any_clash(l: &Layout) -> bool {
    (0..3).any(|i| resolve_file_level(l, i) == Res::Clash)
}
/// --------------------------------------------------------------------------------------------

fn file_text(set: u8, base: i64) -> String {
    let mut s = String::new();
    if has(set, 0) {
        s.push_str(&format!("fn f() -> int = {}\n", base));
    }
    if has(set, 1) {
        s.push_str(&format!("fn g() -> int = {}\n", base + 1));
    }
    if has(set, 2) {
        s.push_str(&format!(
            "type Ty = {{\nx: int\n}}\nextend Ty {{\nfn tag() -> int = {}\nfn who(self) -> int = {}\n}}\n",
            base + 2,
            base + 2
        ));
    }
    s
}

fn use_line(path: &str, alias: &str, f: Form) -> String {
    match f {
        Form::None => String::new(),
        Form::Glob => format!("use {path}\n"),
        Form::OnlyF => format!("use {path}.f\n"),
        Form::OnlyFG => format!("use {path}.(f, g)\n"),
        Form::ExceptF => format!("use {path} except f\n"),
        Form::ExceptFG => format!("use {path} except (f, g)\n"),
        Form::As => format!("use {path} as {alias}\n"),
    }
}

fn header(l: &Layout) -> String {
    let mut s = String::from("use vh\n");
    s.push_str(&use_line("aa", "qa", l.fa));
    s.push_str(&use_line("dir/bb", "qb", l.fb));
    match l.own {
        Own::None => {}
        Own::FnF => s.push_str("fn f() -> int = 1\n"),
        Own::LetF => s.push_str("let f = () -> 2\n"),
    }
    s
}

fn layout_name(l: &Layout) -> String {
    let set = |s: u8| -> String {
        let v: Vec<&str> = (0..3).filter(|i| has(s, *i)).map(|i| NAMES[i]).collect();
        format!("{{{}}}", v.join(","))
    };
    format!("aa={} {:?}; dir/bb={} {:?}; main own={:?}", set(l.sa), l.fa, set(l.sb), l.fb, l.own)
}

#[derive(Clone, Debug, PartialEq)]
pub enum ExpA {
    /// accepted, emits exactly these
    Emits(Vec<i64>),
    /// acceptance is not determined by the documentation; if accepted, emits exactly these
    EmitsIfAccepted(Vec<i64>),
    RejectedClash,
    RejectedUnresolved,
    /// nothing asserted but "no fault"
    Unspecified,
}

pub struct ProgA {
    pub name: String,
    pub main: String,
    pub exp: ExpA,
}

/// emit a call expression `e` (of type int) at the five use positions; `id` makes helper names unique
fn uses_at_positions(id: &str, e: &str, in_fn: bool, out: &mut String, n: &mut usize) {
    out.push_str(&format!("vh_emit_int({e})\n"));
    out.push_str(&format!("if true {{\nvh_emit_int({e})\n}}\n"));
    out.push_str(&format!("let l{id} = () -> {e}\nvh_emit_int(l{id}())\n"));
    out.push_str(&format!("match 0 {{\n0 -> vh_emit_int({e})\n_ -> nil\n}}\n"));
    *n += 4;
    if in_fn {
        out.push_str(&format!("fn u{id}() -> int = {e}\nvh_emit_int(u{id}())\n"));
        *n += 1;
    }
}

pub fn programs(l: &Layout) -> Vec<ProgA> {
    let ln = layout_name(l);
    let hd = header(l);
    let mut v = vec![];
    let missing = imports_missing(l.sa, l.fa) || imports_missing(l.sb, l.fb);
    if any_clash(l) {
        v.push(ProgA { name: format!("{ln} | no uses"), main: format!("{hd}vh_emit_int(0)\n"), exp: ExpA::RejectedClash });
        return v;
    }
    // positive program: every use the model resolves
    let mut body = String::new();
    let mut exp: Vec<i64> = vec![];
    for i in 0..3 {
        let r = resolve_file_level(l, i);
        let let_f = i == 0 && l.own == Own::LetF;
        // the value seen at top-level positions (block, lambda, arm): the innermost binding
        let top_tag = if let_f { Some(2) } else if let Res::Tag(t) = r { Some(t) } else { None };
        let n = NAMES[i];
        if i < 2 {
            if let Some(t) = top_tag {
                let mut k = 0;
                // inside a function the top-level `let` is not in scope (functions do not see top-level
                // variables); what a function sees then is left unasserted, so that use is omitted.
                uses_at_positions(n, &format!("{n}()"), !let_f, &mut body, &mut k);
                exp.extend(std::iter::repeat_n(t, k));
            }
            // a local binding of the same name in a nested scope shadows whatever is outside
            body.push_str(&format!("if true {{\nlet {n} = () -> 3{i}\nvh_emit_int({n}())\n}}\n"));
            exp.push(30 + i as i64);
            body.push_str(&format!("let s{n} = {n} -> {n}()\nvh_emit_int(s{n}(() -> 4{i}))\n"));
            exp.push(40 + i as i64);
            body.push_str(&format!("match (() -> 5{i}) {{\n{n} -> vh_emit_int({n}())\n}}\n"));
            exp.push(50 + i as i64);
            if let Some(t) = top_tag {
                // and the outer one is back afterwards
                body.push_str(&format!("vh_emit_int({n}())\n"));
                exp.push(t);
            }
        } else if let Some(t) = top_tag {
            let mut k = 0;
            uses_at_positions("Ty1", "Ty.tag()", true, &mut body, &mut k);
            uses_at_positions("Ty2", "Ty(0).who()", true, &mut body, &mut k);
            exp.extend(std::iter::repeat_n(t, k));
        }
    }
    for (alias, set, form, base) in [("qa", l.sa, l.fa, 11i64), ("qb", l.sb, l.fb, 21i64)] {
        if form != Form::As {
            continue;
        }
        for i in 0..3 {
            if !has(set, i) {
                continue;
            }
            let t = base + i as i64;
            let e = if i < 2 { format!("{alias}.{}()", NAMES[i]) } else { format!("{alias}.Ty(0).who()") };
            let mut k = 0;
            uses_at_positions(&format!("{alias}{}", NAMES[i]), &e, true, &mut body, &mut k);
            exp.extend(std::iter::repeat_n(t, k));
        }
    }
    v.push(ProgA {
        name: format!("{ln} | all resolvable uses"),
        main: format!("{hd}{body}"),
        exp: if missing { ExpA::EmitsIfAccepted(exp) } else { ExpA::Emits(exp) },
    });
    // static member through the alias, on its own (qualified names reach the same declarations)
    for (alias, set, form, base) in [("qa", l.sa, l.fa, 11i64), ("qb", l.sb, l.fb, 21i64)] {
        if form == Form::As && has(set, 2) {
            let e = vec![base + 2];
            v.push(ProgA {
                name: format!("{ln} | use {alias}.Ty.tag()"),
                main: format!("{hd}vh_emit_int({alias}.Ty.tag())\n"),
                exp: if missing { ExpA::EmitsIfAccepted(e) } else { ExpA::Emits(e) },
            });
        }
    }
    // negative programs: one per name that no visible declaration provides
    for i in 0..3 {
        if resolve_file_level(l, i) != Res::Unresolved {
            continue;
        }
        let n = NAMES[i];
        let let_f = i == 0 && l.own == Own::LetF;
        let e = if i < 2 { format!("{n}()") } else { "Ty.tag()".to_string() };
        if !let_f {
            v.push(ProgA {
                name: format!("{ln} | use bare {n} (not visible)"),
                main: format!("{hd}vh_emit_int({e})\n"),
                exp: ExpA::RejectedUnresolved,
            });
            if i == 2 {
                v.push(ProgA {
                    name: format!("{ln} | use bare Ty constructor (not visible)"),
                    main: format!("{hd}let t = Ty(0)\nvh_emit_int(t.x)\n"),
                    exp: ExpA::RejectedUnresolved,
                });
            }
        }
        // inside a function the same name is not visible either (own LetF: not asserted, see above)
        if !let_f {
            v.push(ProgA {
                name: format!("{ln} | use bare {n} inside a function (not visible)"),
                main: format!("{hd}fn uu() -> int = {e}\nvh_emit_int(uu())\n"),
                exp: ExpA::RejectedUnresolved,
            });
        }
    }
    for (alias, set, form) in [("qa", l.sa, l.fa), ("qb", l.sb, l.fb)] {
        if form != Form::As {
            continue;
        }
        for i in 0..3 {
            if has(set, i) {
                continue;
            }
            let e = if i < 2 { format!("{alias}.{}()", NAMES[i]) } else { format!("{alias}.Ty(0).who()") };
            v.push(ProgA {
                name: format!("{ln} | use {alias}.{} (not declared by the file)", NAMES[i]),
                main: format!("{hd}vh_emit_int({e})\n"),
                exp: ExpA::RejectedUnresolved,
            });
        }
    }
    v
}

/// fully qualified names written without an alias: the manual names them but does not say they
/// can be written in source; only "no fault" is asserted.
fn fq_programs() -> Vec<(Layout, ProgA)> {
    let mut v = vec![];
    for fa in FORMS {
        let l = Layout { sa: 7, sb: 7, fa, fb: Form::None, own: Own::None };
        v.push((l, ProgA { name: format!("{} | use aa.f() fully qualified", layout_name(&l)), main: format!("{}vh_emit_int(aa.f())\n", header(&l)), exp: ExpA::Unspecified }));
        let l = Layout { sa: 7, sb: 7, fa: Form::None, fb: fa, own: Own::None };
        v.push((l, ProgA { name: format!("{} | use dir.bb.f() fully qualified", layout_name(&l)), main: format!("{}vh_emit_int(dir.bb.f())\n", header(&l)), exp: ExpA::Unspecified }));
    }
    // aliases are declarations too
    let l = Layout { sa: 7, sb: 7, fa: Form::None, fb: Form::None, own: Own::None };
    let mk = |name: &str, main: &str, exp: ExpA| (l, ProgA { name: format!("special | {name}"), main: format!("use vh\n{main}"), exp });
    v.push(mk("two imports under the same alias", "use aa as qq\nuse dir/bb as qq\nvh_emit_int(0)\n", ExpA::RejectedClash));
    v.push(mk("alias equal to an imported function name", "use aa\nuse dir/bb as f\nvh_emit_int(0)\n", ExpA::RejectedClash));
    v.push(mk("alias equal to main's own function name", "use aa as hh\nfn hh() -> int = 1\nvh_emit_int(0)\n", ExpA::RejectedClash));
    v.push(mk("the same file imported twice", "use aa\nuse aa\nvh_emit_int(f())\n", ExpA::Unspecified));
    v.push(mk("the same file imported as glob and under an alias", "use aa\nuse aa as qa\nvh_emit_int(f())\nvh_emit_int(qa.f())\nvh_emit_int(qa.g())\n", ExpA::Emits(vec![11, 11, 12])));
    v.push(mk("a file that does not exist", "use zz\nvh_emit_int(0)\n", ExpA::RejectedUnresolved));
    v.push(mk("a name of aa used in main without any import", "vh_emit_int(g())\n", ExpA::RejectedUnresolved));
    v
}

fn subsets(tier: Tier) -> Vec<u8> {
    // quick: subsets of {f, Ty}; thorough: subsets of {f, g, Ty}
    tier.pick(vec![0, 1, 4, 5], (0..8).collect())
}

fn run_prog_a(out: &mut UnitOut, l: &Layout, p: &ProgA) {
    run_prog_files(out, &file_text(l.sa, 11), &file_text(l.sb, 21), p)
}

fn run_prog_files(out: &mut UnitOut, aa_text: &str, bb_text: &str, p: &ProgA) {
    let src = Src::with_vh(&p.main).add("aa.abra", aa_text).add("dir/bb.abra", bb_text);
    out.evaluations += 1;
    let key = format!("input:{}", hkey(&p.name));
    let files = json!({"main.abra": p.main, "aa.abra": aa_text, "dir/bb.abra": bb_text, "vh.abra": "(harness host functions)"});
    let mut viol = |out: &mut UnitOut, observed: String, extra: Vec<String>| {
        out.class("violation");
        let mut keys = vec![key.clone()];
        keys.extend(extra);
        out.violation(
            keys,
            format!("{}: expected {:?}, observed {}", p.name, p.exp, observed.lines().next().unwrap_or("")),
            json!({"case": p.name, "files": files, "program": p.main, "expected": format!("{:?}", p.exp), "observed": observed}),
        );
    };
    // non-trivial: the layout makes at least one imported or own name visible, or expects a rejection
    out.nontrivial_text(&format!("{}\n{}", p.name, p.main));
    match drive::compile(&src, COpts::default()) {
        Compiled::Panic(pi) => viol(out, format!("compiler panic at {}: {}", pi.site, pi.msg), vec![pi.site_key(), format!("at:{}", pi.site)]),
        Compiled::Diag(d) => {
            let clash = d.contains("declared more than once");
            let unres = d.contains("Could not resolve identifier");
            let kind = if clash { "clash" } else if unres { "unresolved" } else { "other" };
            match &p.exp {
                ExpA::RejectedClash if clash => out.class("rejected: clash"),
                ExpA::RejectedUnresolved if unres && !clash => out.class("rejected: unresolved"),
                ExpA::Unspecified => out.class("unspecified: rejected"),
                ExpA::EmitsIfAccepted(_) if !clash => out.class("unspecified acceptance (import of a missing name): rejected"),
                _ => viol(out, format!("rejected ({kind}): {d}"), vec![format!("diag:{kind}")]),
            }
        }
        Compiled::Ok(prog) => {
            let r = drive::run(&prog, &src.host_table(), StdHost::default(), ROpts { budget: u32::MAX, max_steps: 200_000 });
            if let End::Fault(pi) = &r.end {
                return viol(out, format!("VM fault at {}: {}", pi.site, pi.msg), vec![pi.site_key()]);
            }
            let got: Vec<i64> = r.host.emits.iter().map(|e| if let Emit::Int(x) = e { *x } else { -1 }).collect();
            match &p.exp {
                ExpA::Unspecified => out.class("unspecified: accepted"),
                ExpA::Emits(e) | ExpA::EmitsIfAccepted(e) => {
                    if r.end == End::Done && got == *e {
                        out.class(if matches!(p.exp, ExpA::Emits(_)) { "accepted: tags as modelled" } else { "unspecified acceptance (import of a missing name): accepted, tags as modelled" });
                        out.sample(json!({"case": p.name, "main": p.main, "emits": got}));
                    } else {
                        viol(out, format!("accepted; end={} emits={:?}", r.end.class(), got), vec!["wrong-tags".into()]);
                    }
                }
                ExpA::RejectedClash | ExpA::RejectedUnresolved => {
                    viol(out, format!("accepted; end={} emits={:?}", r.end.class(), got), vec!["accepted-but-expected-rejection".into()]);
                }
            }
        }
    }
}


// ------------------------------------------------------------------ family E: imported enums

const MK: u8 = 1;
const EN: u8 = 2;
/// what an imported file may declare: nothing, the enum, the enum and a function returning it
const FILE_SETS_E: [u8; 3] = [0, EN, EN | MK];

#[derive(Clone, Copy, Debug, PartialEq, Eq)]
pub enum FormE {
    None,
    Glob,
    OnlyMk,
    OnlyEn,
    OnlyBoth,
    ExceptMk,
    ExceptEn,
    ExceptBoth,
    As,
}
const FORMS_E: [FormE; 9] =
    [FormE::None, FormE::Glob, FormE::OnlyMk, FormE::OnlyEn, FormE::OnlyBoth, FormE::ExceptMk, FormE::ExceptEn, FormE::ExceptBoth, FormE::As];

#[derive(Clone, Copy, Debug)]
pub struct LayoutE {
    /// names the file declares (bits MK, EN)
    pub sa: u8,
    pub sb: u8,
    pub fa: FormE,
    pub fb: FormE,
    /// main declares its own `type En = Rc | Ra | Rb`
    pub own: bool,
}

/// which declaration a name denotes
#[derive(Clone, Copy, Debug, PartialEq, Eq)]
enum Who {
    Own,
    Aa,
    Bb,
}
impl Who {
    /// `who()` of that declaration's enum gives base*10 + 1 for Ra, base*10 + 2 for Rb
    fn base(self) -> i64 {
        match self {
            Who::Own => 3,
            Who::Aa => 13,
            Who::Bb => 23,
        }
    }
}

/// --- the model resolver (same rules as family A) ----------------------------------------------
fn bare_visible_e(set: u8, form: FormE) -> u8 {
    match form {
        FormE::None | FormE::As => 0,
        FormE::Glob => set,
        FormE::OnlyMk => set & MK,
        FormE::OnlyEn => set & EN,
        FormE::OnlyBoth => set & (MK | EN),
        FormE::ExceptMk => set & !MK,
        FormE::ExceptEn => set & !EN,
        FormE::ExceptBoth => set & !(MK | EN),
    }
}
fn imports_missing_e(set: u8, form: FormE) -> bool {
    match form {
        FormE::OnlyMk => set & MK == 0,
        FormE::OnlyEn => set & EN == 0,
        FormE::OnlyBoth => set & (MK | EN) != (MK | EN),
        _ => false,
    }
}
fn file_level_e(l: &LayoutE, bit: u8) -> Vec<Who> {
    let mut v = vec![];
    if bit == EN && l.own {
        v.push(Who::Own);
    }
    if bare_visible_e(l.sa, l.fa) & bit != 0 {
        v.push(Who::Aa);
    }
    if bare_visible_e(l.sb, l.fb) & bit != 0 {
        v.push(Who::Bb);
    }
    v
}
/// --------------------------------------------------------------------------------------------

fn enum_text(variants: &str, base: i64, third: bool) -> String {
    format!(
        "type En = {variants}\nextend En {{\nfn who(self) -> int {{\nmatch self {{\n.Ra -> {base}1\n.Rb -> {base}2\n{}}}\n}}\n}}\n",
        if third { format!(".Rc -> {base}3\n") } else { String::new() }
    )
}

/// the two files declare the variants in opposite order, so a variant resolved in the wrong enum has another index
fn file_text_e(set: u8, who: Who) -> String {
    let mut s = String::new();
    if set & EN != 0 {
        s.push_str(&enum_text(if who == Who::Aa { "Ra | Rb" } else { "Rb | Ra" }, who.base(), false));
    }
    if set & MK != 0 {
        s.push_str("fn mk() -> En = En.Rb\n");
    }
    s
}

fn use_line_e(path: &str, alias: &str, f: FormE) -> String {
    match f {
        FormE::None => String::new(),
        FormE::Glob => format!("use {path}\n"),
        FormE::OnlyMk => format!("use {path}.mk\n"),
        FormE::OnlyEn => format!("use {path}.En\n"),
        FormE::OnlyBoth => format!("use {path}.(mk, En)\n"),
        FormE::ExceptMk => format!("use {path} except mk\n"),
        FormE::ExceptEn => format!("use {path} except En\n"),
        FormE::ExceptBoth => format!("use {path} except (mk, En)\n"),
        FormE::As => format!("use {path} as {alias}\n"),
    }
}

fn header_e(l: &LayoutE) -> String {
    let mut s = String::from("use vh\n");
    s.push_str(&use_line_e("aa", "qa", l.fa));
    s.push_str(&use_line_e("dir/bb", "qb", l.fb));
    if l.own {
        s.push_str(&enum_text("Rc | Ra | Rb", Who::Own.base(), true));
    }
    s
}

fn layout_name_e(l: &LayoutE) -> String {
    let set = |s: u8| -> &'static str {
        match s {
            0 => "{}",
            EN => "{En}",
            _ => "{En,mk}",
        }
    };
    format!("enum family: aa={} {:?}; dir/bb={} {:?}; main own={}", set(l.sa), l.fa, set(l.sb), l.fb, if l.own { "type En" } else { "none" })
}

pub fn programs_e(l: &LayoutE) -> Vec<ProgA> {
    let ln = layout_name_e(l);
    let hd = header_e(l);
    let mut v = vec![];
    let missing = imports_missing_e(l.sa, l.fa) || imports_missing_e(l.sb, l.fb);
    let (ens, mks) = (file_level_e(l, EN), file_level_e(l, MK));
    if ens.len() > 1 || mks.len() > 1 {
        v.push(ProgA { name: format!("{ln} | no uses"), main: format!("{hd}vh_emit_int(0)\n"), exp: ExpA::RejectedClash });
        return v;
    }
    let (en, mk) = (ens.first().copied(), mks.first().copied());
    // positive program: every use the model resolves
    let mut body = String::new();
    let mut exp: Vec<i64> = vec![];
    if let Some(w) = en {
        let own = w == Who::Own;
        // the enum name as a type annotation, and as the qualifier of variant patterns inside a function
        body.push_str(&format!("fn cls(e: En) -> int {{\nmatch e {{\nEn.Ra -> 1\nEn.Rb -> 2\n{}}}\n}}\nfn wh(e: En) -> int = e.who()\n", if own { "En.Rc -> 3\n" } else { "" }));
        let mut k = 0;
        uses_at_positions("En1", "wh(En.Rb)", true, &mut body, &mut k);
        exp.extend(std::iter::repeat_n(w.base() * 10 + 2, k));
        let mut k = 0;
        uses_at_positions("En2", "cls(En.Ra)", true, &mut body, &mut k);
        exp.extend(std::iter::repeat_n(1, k));
        // qualified variant expression as scrutinee, qualified variant patterns at top level
        body.push_str(&format!("match En.Rb {{\nEn.Ra -> vh_emit_int(1)\nEn.Rb -> vh_emit_int(2)\n{}}}\n", if own { "En.Rc -> vh_emit_int(3)\n" } else { "" }));
        exp.push(2);
        body.push_str("let e9 = En.Ra\nmatch e9 {\n.Ra -> vh_emit_int(e9.who())\n_ -> vh_emit_int(0)\n}\n");
        exp.push(w.base() * 10 + 1);
    }
    if let Some(m) = mk {
        let mut k = 0;
        uses_at_positions("mk1", "mk().who()", true, &mut body, &mut k);
        exp.extend(std::iter::repeat_n(m.base() * 10 + 2, k));
        body.push_str("match mk() {\n.Ra -> vh_emit_int(1)\n.Rb -> vh_emit_int(2)\n}\n");
        exp.push(2);
        if en == Some(m) {
            // the visible enum name is the type of mk's result
            body.push_str("vh_emit_int(cls(mk()))\nmatch mk() {\nEn.Ra -> vh_emit_int(1)\nEn.Rb -> vh_emit_int(2)\n}\n");
            exp.extend([2, 2]);
        }
    }
    for (alias, set, form, who) in [("qa", l.sa, l.fa, Who::Aa), ("qb", l.sb, l.fb, Who::Bb)] {
        if form != FormE::As {
            continue;
        }
        if set & EN != 0 {
            body.push_str(&format!("let {alias}e = {alias}.En.Ra\nvh_emit_int({alias}e.who())\n"));
            exp.push(who.base() * 10 + 1);
        }
        if set & MK != 0 {
            let mut k = 0;
            uses_at_positions(&format!("{alias}mk"), &format!("{alias}.mk().who()"), true, &mut body, &mut k);
            exp.extend(std::iter::repeat_n(who.base() * 10 + 2, k));
        }
    }
    body.push_str("vh_emit_int(0)\n");
    exp.push(0);
    v.push(ProgA {
        name: format!("{ln} | all resolvable uses"),
        main: format!("{hd}{body}"),
        exp: if missing { ExpA::EmitsIfAccepted(exp) } else { ExpA::Emits(exp) },
    });
    // negative programs: one per way of naming an enum that no visible declaration provides
    if en.is_none() {
        let mut neg = |what: &str, text: String| {
            v.push(ProgA { name: format!("{ln} | {what} (En not visible)"), main: format!("{hd}{text}"), exp: ExpA::RejectedUnresolved });
        };
        neg("qualified variant expression En.Ra", "let e1 = En.Ra\nvh_emit_int(0)\n".into());
        neg("qualified variant pattern En.Ra on an inferred parameter", "fn cls(e) -> int {\nmatch e {\nEn.Ra -> 1\n_ -> 2\n}\n}\nvh_emit_int(0)\n".into());
        neg("type annotation En", "fn wh(e: En) -> int = 0\nvh_emit_int(0)\n".into());
        if mk.is_some() {
            neg("qualified variant patterns on the result of the imported mk()", "match mk() {\nEn.Ra -> vh_emit_int(1)\nEn.Rb -> vh_emit_int(2)\n}\n".into());
        }
        for (alias, set, form) in [("qa", l.sa, l.fa), ("qb", l.sb, l.fb)] {
            if form == FormE::As && set & MK != 0 {
                neg(&format!("qualified variant patterns on the result of {alias}.mk()"), format!("match {alias}.mk() {{\nEn.Ra -> vh_emit_int(1)\nEn.Rb -> vh_emit_int(2)\n}}\n"));
            }
        }
    }
    if mk.is_none() {
        v.push(ProgA { name: format!("{ln} | use bare mk (not visible)"), main: format!("{hd}let m1 = mk()\nvh_emit_int(0)\n"), exp: ExpA::RejectedUnresolved });
    }
    v
}

fn file_sets_e(tier: Tier) -> (Vec<u8>, Vec<u8>) {
    // quick: aa ∈ {{En}, {En,mk}} × dir/bb ∈ {∅, {En,mk}}; thorough: all nine combinations
    tier.pick((vec![EN, EN | MK], vec![0, EN | MK]), (FILE_SETS_E.to_vec(), FILE_SETS_E.to_vec()))
}

// ------------------------------------------------------------------ family B: nested scopes

#[derive(Clone, Copy, Debug, PartialEq, Eq)]
pub enum Sc {
    Bare,
    If,
    While,
    ForY,
    ArmY,
    LamY,
    ForX,
    ArmX,
    LamX,
}
const SCS: [Sc; 9] = [Sc::Bare, Sc::If, Sc::While, Sc::ForY, Sc::ArmY, Sc::LamY, Sc::ForX, Sc::ArmX, Sc::LamX];
impl Sc {
    fn binds_x(self) -> bool {
        matches!(self, Sc::ForX | Sc::ArmX | Sc::LamX)
    }
}
#[derive(Clone, Copy, Debug, PartialEq, Eq)]
pub enum Dl {
    None,
    Before,
    After,
}

#[derive(Clone, Debug)]
pub struct Nest {
    pub scopes: Vec<Sc>,
    /// decl option of level 1..=n (level 0 always declares x before)
    pub decls: Vec<Dl>,
}

pub fn nests(d: usize) -> Vec<Nest> {
    let mut all = vec![Nest { scopes: vec![], decls: vec![] }];
    let mut cur = all.clone();
    for _ in 1..=d {
        let mut next = vec![];
        for n in &cur {
            for s in SCS {
                let opts: &[Dl] = if s.binds_x() { &[Dl::None] } else { &[Dl::None, Dl::Before, Dl::After] };
                for o in opts {
                    let mut m = n.clone();
                    m.scopes.push(s);
                    m.decls.push(*o);
                    next.push(m);
                }
            }
        }
        all.extend(next.iter().cloned());
        cur = next;
    }
    all
}
pub fn nests_closed_form(d: usize) -> u64 {
    (0..=d as u32).map(|n| 21u64.pow(n)).sum()
}

/// Generates the statements of level `l` and, in lock step, the model's expected emits.
/// `env` is the stack of visible bindings of `x` (innermost last).
fn nest_body(n: &Nest, l: usize, env: &mut Vec<i64>, exp: &mut Vec<i64>) -> String {
    let mut s = String::new();
    let base = 100 + 10 * l as i64;
    let dl = if l == 0 { Dl::Before } else { n.decls[l - 1] };
    let mut pushed = 0;
    if dl == Dl::Before {
        s.push_str(&format!("let x = {}\n", base + 1));
        env.push(base + 1);
        pushed += 1;
    }
    if l < n.scopes.len() {
        let k = l + 1;
        let bt = 100 + 10 * k as i64 + 5;
        let sc = n.scopes[l];
        if sc.binds_x() {
            env.push(bt);
        }
        let b = nest_body(n, k, env, exp);
        if sc.binds_x() {
            env.pop();
        }
        s.push_str(&match sc {
            Sc::Bare => format!("{{\n{b}}}\n"),
            Sc::If => format!("if true {{\n{b}}}\n"),
            Sc::While => format!("var w{k} = 0\nwhile w{k} < 1 {{\nw{k} += 1\n{b}}}\n"),
            Sc::ForY => format!("for y{k} in 1 {{\n{b}}}\n"),
            Sc::ArmY => format!("match {bt} {{\ny{k} -> {{\n{b}}}\n}}\n"),
            Sc::LamY => format!("let lam{k} = (y{k}: int) -> {{\n{b}nil\n}}\nlam{k}({bt})\n"),
            Sc::ForX => format!("for x in range({bt}, {}) {{\n{b}}}\n", bt + 1),
            Sc::ArmX => format!("match {bt} {{\nx -> {{\n{b}}}\n}}\n"),
            Sc::LamX => format!("let lam{k} = (x: int) -> {{\n{b}nil\n}}\nlam{k}({bt})\n"),
        });
    }
    // observation: innermost use, or the use after the inner scope has closed
    s.push_str("vh_emit_int(x)\n");
    exp.push(*env.last().expect("x is always bound at level 0"));
    if dl == Dl::After {
        s.push_str(&format!("let x = {}\nvh_emit_int(x)\n", base + 2));
        env.push(base + 2);
        pushed += 1;
        exp.push(base + 2);
    }
    for _ in 0..pushed {
        env.pop();
    }
    s
}

pub fn nest_name(n: &Nest) -> String {
    let v: Vec<String> = n.scopes.iter().zip(&n.decls).map(|(s, d)| format!("{s:?}{}", match d { Dl::None => "", Dl::Before => "+let-before", Dl::After => "+let-after" })).collect();
    format!("scopes [{}]", v.join(" > "))
}

pub fn nest_case(n: &Nest, place: &str) -> (Case, Vec<i64>) {
    let mut env = vec![];
    let mut exp = vec![];
    let body = nest_body(n, 0, &mut env, &mut exp);
    (Case::new(format!("{} ({place})", nest_name(n)), body), exp)
}

fn depth_fn(tier: Tier) -> usize {
    tier.pick(2, 3)
}
const DEPTH_TOP: usize = 2;
const B_PER_UNIT: usize = 1200;

fn judge_b(out: &mut UnitOut, name: &str, program: &str, n: &Nest, exp: &[i64], res: Result<(End, Vec<Emit>), String>, panic_keys: Vec<String>) {
    let key = format!("input:{}", hkey(name));
    out.nontrivial_text(name);
    let mut viol = |out: &mut UnitOut, observed: String, mut extra: Vec<String>| {
        out.class("violation");
        let mut keys = vec![key.clone()];
        keys.append(&mut extra);
        for s in [Sc::ForX, Sc::ForY, Sc::ArmX, Sc::LamX] {
            if n.scopes.contains(&s) {
                keys.push(format!("has:{s:?}"));
            }
        }
        out.violation(
            keys,
            format!("{name}: expected emits {exp:?}, observed {}", observed.lines().next().unwrap_or("")),
            json!({"case": name, "program": program, "expected": format!("accepted, emits {exp:?}"), "observed": observed}),
        );
    };
    match res {
        Err(e) => viol(out, e, panic_keys),
        Ok((end, emits)) => {
            let got: Vec<i64> = emits.iter().map(|e| if let Emit::Int(x) = e { *x } else { -1 }).collect();
            if let End::Fault(pi) = &end {
                return viol(out, format!("VM fault at {}: {}", pi.site, pi.msg), vec![pi.site_key()]);
            }
            if end == End::Done && got == exp {
                let depth_shadow = exp.iter().collect::<std::collections::BTreeSet<_>>().len();
                out.class(&format!("accepted: values as modelled ({depth_shadow} distinct bindings observed)"));
                out.sample(json!({"case": name, "program": program, "emits": got}));
            } else {
                viol(out, format!("end={} emits={:?}", end.class(), got), vec!["wrong-binding".into()]);
            }
        }
    }
}


// ------------------------------------------------------------------ family S: sibling scopes

/// A binding of `x` made in one scope must not be visible in a LATER SIBLING scope (another arm of the same match,
/// the other branch of an if, the next block / loop / lambda / match), which must see the enclosing `x = 101`.
/// Each construct runs the binding sibling first (so its slot has been written) and then the sibling that reads.
/// (name, statements after `let x = 101`, expected emits)
pub fn sibling_cases() -> Vec<(String, String, Vec<i64>)> {
    let e = |v: &str| format!("vh_emit_int({v})");
    let mut v: Vec<(String, String, Vec<i64>)> = vec![];
    let mut add = |n: &str, b: String, x: Vec<i64>| v.push((format!("siblings: {n}"), b, x));
    for binder_first in [true, false] {
        let (a1, a2) = (format!(".some(x) -> {}", e("x")), format!(".none -> {}", e("x")));
        let arms = if binder_first { format!("{a1}\n{a2}") } else { format!("{a2}\n{a1}") };
        add(
            &format!("arm pattern .some(x) then arm .none reads x (binder arm {})", if binder_first { "first" } else { "second" }),
            format!("for sel in [option.some(115), option.none, option.some(116), option.none] {{\nmatch sel {{\n{arms}\n}}\n}}\n"),
            vec![115, 101, 116, 101],
        );
    }
    add("tuple pattern (x, 1) then wildcard arm reads x", format!("for t in [(115, 1), (116, 2)] {{\nmatch t {{\n(x, 1) -> {}\n_ -> {}\n}}\n}}\n", e("x"), e("x")), vec![115, 101]);
    add("literal arm reads x, later arm binds x", format!("for n in [115, 5, 116, 5] {{\nmatch n {{\n5 -> {}\nx -> {}\n}}\n}}\n", e("x"), e("x")), vec![115, 101, 116, 101]);
    add("or-pattern arm binds x in both alternatives, later arm reads x", format!("for t in [(115, 1), (116, 2), (117, 3)] {{\nmatch t {{\n(x, 1) | (x, 2) -> {}\n_ -> {}\n}}\n}}\n", e("x"), e("x")), vec![115, 116, 101]);
    add("arm block declares x, later arm reads x", format!("for n in [1, 2] {{\nmatch n {{\n1 -> {{\nlet x = 115\n{}\n}}\n_ -> {}\n}}\n}}\n", e("x"), e("x")), vec![115, 101]);
    add("string payload bound as x, later arm reads the int x", format!("for sel in [option.some(\"s\"), option.none] {{\nmatch sel {{\n.some(x) -> {}\n.none -> {}\n}}\n}}\n", e("if x == \"s\" {\n1\n} else {\n0\n}"), e("x + 1")), vec![1, 102]);
    add("then-branch declares x, else-branch reads x", format!("for c in [true, false] {{\nif c {{\nlet x = 115\n{}\n}} else {{\n{}\n}}\n}}\n", e("x"), e("x")), vec![115, 101]);
    add("else-branch declares x, then-branch reads x", format!("for c in [false, true] {{\nif c {{\n{}\n}} else {{\nlet x = 115\n{}\n}}\n}}\n", e("x"), e("x")), vec![115, 101]);
    add("block declares x, next block reads x", format!("{{\nlet x = 115\n{}\n}}\n{{\n{}\n}}\n", e("x"), e("x")), vec![115, 101]);
    add("lambda parameter x, next lambda reads x", format!("let l1 = (x: int) -> x + 1\nlet l2 = (y: int) -> x + y\n{}\n{}\n", e("l1(115)"), e("l2(1)")), vec![116, 102]);
    add("match arm binds x, next match reads x", format!("match option.some(115) {{\n.some(x) -> {}\n.none -> {}\n}}\nmatch 1 {{\n_ -> {}\n}}\n", e("x"), e("0"), e("x")), vec![115, 101]);
    add("for variable x, next loop reads x", format!("for x in range(115, 116) {{\n{}\n}}\nfor y in 1 {{\n{}\n}}\n", e("x"), e("x")), vec![115, 101]);
    add("while body declares x, next while reads x", format!("var w = 0\nwhile w < 1 {{\nw += 1\nlet x = 115\n{}\n}}\nwhile w < 2 {{\nw += 1\n{}\n}}\n", e("x"), e("x")), vec![115, 101]);
    add(
        "nested: inner match arm binds x, outer match's later arm reads x",
        format!("for sel in [option.some(option.some(115)), option.some(option.none), option.none] {{\nmatch sel {{\n.some(inner) -> match inner {{\n.some(x) -> {}\n.none -> {}\n}}\n.none -> {}\n}}\n}}\n", e("x"), e("x"), e("x")),
        vec![115, 101, 101],
    );
    // a binder's own initialiser / iterable / scrutinee is outside the scope it opens: it reads the enclosing x
    add("for x in range(x, x + 2): the iterable reads the enclosing x", format!("for x in range(x, x + 2) {{\n{}\n}}\n", e("x")), vec![101, 102]);
    add("for (x, y) in [(x + 1, 1)]: the iterable reads the enclosing x", format!("for (x, y) in [(x + 1, 1)] {{\n{}\n}}\n", e("x + y")), vec![103]);
    add("block: let x = x + 1 reads the enclosing x", format!("{{\nlet x = x + 1\n{}\n}}\n", e("x")), vec![102]);
    add("match x + 1 {{ x -> .. }}: the scrutinee reads the enclosing x", format!("match x + 1 {{\nx -> {}\n}}\n", e("x")), vec![102]);
    add("lambda parameter x applied to the enclosing x", format!("let f = (x: int) -> x + 1\n{}\n", e("f(x)")), vec![102]);
    add("while body: let x = x + 1 on every iteration reads the enclosing x", format!("var w = 0\nwhile w < 2 {{\nw += 1\nlet x = x + w\n{}\n}}\n", e("x")), vec![102, 103]);
    add("arm block: let x = x + 1 reads the enclosing x", format!("match 1 {{\n_ -> {{\nlet x = x + 1\n{}\n}}\n}}\n", e("x")), vec![102]);
    // inside a lambda that CAPTURES x: a shadowing let in a nested block ends with the block (and with each loop iteration)
    add(
        "lambda capturing x: a nested block declares x, the lambda reads the captured x afterwards",
        format!("let f = (c: bool) -> {{\nif c {{\nlet x = 115\n{}\n}}\n{}\nnil\n}}\nf(true)\nf(false)\n", e("x"), e("x")),
        vec![115, 101, 101],
    );
    add(
        "lambda capturing x: a loop body reads the captured x, then declares x, on every iteration",
        format!("let g = () -> {{\nvar w = 0\nwhile w < 2 {{\nw += 1\n{}\nlet x = 115 + w\n{}\n}}\nnil\n}}\ng()\n", e("x"), e("x")),
        vec![101, 116, 101, 117],
    );
    add(
        "nested lambdas capturing x: the inner one shadows x in a match arm block and reads it afterwards",
        format!("let h = () -> {{\nlet k = (n: int) -> {{\nmatch n {{\n1 -> {{\nlet x = 115\n{}\n}}\n_ -> nil\n}}\n{}\nnil\n}}\nk(1)\nk(2)\nnil\n}}\nh()\n", e("x"), e("x")),
        vec![115, 101, 101],
    );
    // every case ends by reading x again after all siblings have closed
    v.into_iter().map(|(n, b, mut x)| { x.push(101); (n, format!("let x = 101\n{b}vh_emit_int(x)\n"), x) }).collect()
}

// ------------------------------------------------------------------ units

struct Plan {
    a_units: Vec<(u8, Own, u8)>,
    b_fn_units: usize,
    b_top_units: usize,
    /// family E units come last, so the unit numbers of the older families are unchanged
    e_units: Vec<(u8, bool, u8)>,
}
fn plan(tier: Tier) -> Plan {
    let mut a = vec![];
    for sa in subsets(tier) {
        for own in OWNS {
            for sb in subsets(tier) {
                a.push((sa, own, sb));
            }
        }
    }
    let mut e = vec![];
    let (ea, eb) = file_sets_e(tier);
    for sa in ea {
        for own in [false, true] {
            for &sb in &eb {
                e.push((sa, own, sb));
            }
        }
    }
    Plan {
        a_units: a,
        b_fn_units: (nests_closed_form(depth_fn(tier)) as usize).div_ceil(B_PER_UNIT),
        b_top_units: 4,
        e_units: e,
    }
}

impl Prop for C21 {
    fn id(&self) -> &'static str {
        "C21"
    }
    fn level(&self) -> &'static str {
        "exploration"
    }
    fn n_units(&self, tier: Tier) -> usize {
        let p = plan(tier);
        p.a_units.len() + 1 + p.b_fn_units + p.b_top_units + p.e_units.len() + 1
    }
    fn run_unit(&self, tier: Tier, unit: usize, out: &mut UnitOut) {
        let p = plan(tier);
        let na = p.a_units.len();
        if unit < na {
            let (sa, own, sb) = p.a_units[unit];
            let mut idx = 0u64;
            {
                for fa in FORMS {
                    for fb in FORMS {
                        let l = Layout { sa, sb, fa, fb, own };
                        out.count("layouts", 1);
                        for pr in programs(&l) {
                            if out.begin_case(idx) {
                                out.describe_case(&format!("{}\n{}", pr.name, pr.main));
                                run_prog_a(out, &l, &pr);
                            }
                            idx += 1;
                        }
                    }
                }
            }
        } else if unit == na {
            for (idx, (l, pr)) in fq_programs().iter().enumerate() {
                if out.begin_case(idx as u64) {
                    out.describe_case(&format!("{}\n{}", pr.name, pr.main));
                    run_prog_a(out, l, pr);
                }
            }
        } else if unit < na + 1 + p.b_fn_units {
            // nested scopes inside a function body, batched
            let u = unit - na - 1;
            let all = nests(depth_fn(tier));
            let lo = u * B_PER_UNIT;
            let hi = (lo + B_PER_UNIT).min(all.len());
            let mut cases = vec![];
            let mut exps = vec![];
            for n in &all[lo..hi] {
                let (c, e) = nest_case(n, "in a function body");
                cases.push(c);
                exps.push(e);
            }
            run_cases(out, 0, &cases, 300, COpts::default(), ROpts { budget: u32::MAX, max_steps: 100_000 }, |out, k, c, r| {
                let n = &all[lo + k];
                let (res, pk) = match r {
                    CaseResult::Ran(o) => (Ok((o.end.clone(), o.emits.clone())), vec![]),
                    CaseResult::Diag(d) => (Err(format!("rejected: {d}")), vec!["rejected".to_string()]),
                    CaseResult::CompilerPanic(pi) => (Err(format!("compiler panic at {}: {}", pi.site, pi.msg)), vec![pi.site_key()]),
                };
                judge_b(out, &c.name, &c.standalone(), n, &exps[k], res, pk);
            });
        } else if unit == na + 1 + p.b_fn_units + p.b_top_units + p.e_units.len() {
            // sibling scopes: inside a function body and at top level, each program standalone
            let empty = Nest { scopes: vec![], decls: vec![] };
            let mut idx = 0u64;
            for (name, body, exp) in sibling_cases() {
                for top in [false, true] {
                    idx += 1;
                    if !out.begin_case(idx - 1) {
                        continue;
                    }
                    let text = if top { format!("use vh\n{body}") } else { format!("use vh\nfn sib() {{\n{body}}}\nsib()\n") };
                    let name = format!("{name} ({})", if top { "at top level" } else { "in a function body" });
                    out.describe_case(&format!("{name}\n{text}"));
                    out.evaluations += 1;
                    out.count("sibling_programs", 1);
                    let src = Src::with_vh(&text);
                    let (res, pk) = match drive::compile(&src, COpts::default()) {
                        Compiled::Ok(prog) => {
                            let r = drive::run(&prog, &src.host_table(), StdHost::default(), ROpts { budget: u32::MAX, max_steps: 100_000 });
                            (Ok((r.end, r.host.emits)), vec![])
                        }
                        Compiled::Diag(d) => (Err(format!("rejected: {d}")), vec!["rejected".to_string()]),
                        Compiled::Panic(pi) => (Err(format!("compiler panic at {}: {}", pi.site, pi.msg)), vec![pi.site_key()]),
                    };
                    judge_b(out, &name, &text, &empty, &exp, res, pk);
                }
            }
        } else if unit >= na + 1 + p.b_fn_units + p.b_top_units {
            let (sa, own, sb) = p.e_units[unit - (na + 1 + p.b_fn_units + p.b_top_units)];
            let (aa_text, bb_text) = (file_text_e(sa, Who::Aa), file_text_e(sb, Who::Bb));
            let mut idx = 0u64;
            for fa in FORMS_E {
                for fb in FORMS_E {
                    let l = LayoutE { sa, sb, fa, fb, own };
                    out.count("enum_layouts", 1);
                    for pr in programs_e(&l) {
                        if out.begin_case(idx) {
                            out.describe_case(&format!("{}\n{}", pr.name, pr.main));
                            out.count("enum_programs", 1);
                            run_prog_files(out, &aa_text, &bb_text, &pr);
                        }
                        idx += 1;
                    }
                }
            }
        } else {
            // the same at top level (globals), each program standalone
            let u = unit - na - 1 - p.b_fn_units;
            let all = nests(DEPTH_TOP);
            for (idx, n) in all.iter().enumerate() {
                if idx % p.b_top_units != u {
                    continue;
                }
                if !out.begin_case(idx as u64) {
                    continue;
                }
                let (c, e) = nest_case(n, "at top level");
                let text = format!("use vh\n{}", c.body);
                out.describe_case(&format!("{}\n{}", c.name, text));
                out.evaluations += 1;
                let src = Src::with_vh(&text);
                let (res, pk) = match drive::compile(&src, COpts::default()) {
                    Compiled::Ok(prog) => {
                        let r = drive::run(&prog, &src.host_table(), StdHost::default(), ROpts { budget: u32::MAX, max_steps: 100_000 });
                        (Ok((r.end, r.host.emits)), vec![])
                    }
                    Compiled::Diag(d) => (Err(format!("rejected: {d}")), vec!["rejected".to_string()]),
                    Compiled::Panic(pi) => (Err(format!("compiler panic at {}: {}", pi.site, pi.msg)), vec![pi.site_key()]),
                };
                judge_b(out, &c.name, &text, n, &e, res, pk);
            }
        }
    }
    fn rule(&self, tier: Tier) -> String {
        format!(
            "A (imports): all layouts aa ⊆ S × dir/bb ⊆ S × 7 import forms × 7 import forms × main's own declaration {{none, fn f, top-level let f}} with S = {}; \
             per layout: one program with every use the model resolves (each name bare at top level, in a block, in a lambda, in a match arm, in a function; through the alias; \
             with a local binding of the same name in a nested block / lambda parameter / arm pattern and the outer one again afterwards), one program per alias for the static member `q.Ty.tag()`, \
             one program per name the model finds invisible (expected: unresolved-identifier diagnostic), or a single program when the model finds a clash (expected: clash diagnostic, raised even when the name is not used). \
             Plus 14 fully-qualified-name programs (unspecified: no fault only) and 7 special layouts (alias clashes, double import, missing file). \
             E (imported enums): all layouts aa ∈ D × dir/bb ∈ D' × 9 import forms {{none, glob, `.mk`, `.En`, `.(mk, En)`, `except mk`, `except En`, `except (mk, En)`, `as q`}}² × main's own `type En` {{absent, present}} with (D, D') = {}, \
             where a file's En is `type En = Ra | Rb` (variants in opposite order in the two files, three variants in main) with `who()` returning a value that identifies the declaring file and the variant, and mk is `fn mk() -> En`; \
             per layout: one program with every use the model resolves (En as type annotation, `En.Rb` / `En.Ra` as expressions at five positions, enum-qualified variant PATTERNS `En.Ra -> .. En.Rb -> ..` inside a function and at top level, \
             mk() matched by unqualified and, when En is mk's own enum, by qualified patterns, `q.En.Ra` and `q.mk()` through an alias), one program per way of naming an invisible En \
             (qualified expression, qualified pattern on an inferred parameter, type annotation, qualified patterns on the result of a visible mk() / q.mk(); expected: unresolved-identifier diagnostic), one for an invisible mk, or a single program when the model finds a clash. \
             B (scopes): all chains of ≤ {} nested scopes from {:?} inside a function body (batched) and ≤ {} at top level (standalone), levels of non-x-binding scopes declare `let x` {{never, before, after}} the inner scope; \
             x is read innermost and after every scope closes; expected values from an environment-stack model. \
             S (sibling scopes): a binding of x made in one arm / branch / block / loop / lambda / match must not be visible in a later sibling, which reads the enclosing x (arm patterns of several shapes, arm blocks, if/else branches, blocks, loops, lambdas, nested matches; each run so that the binding sibling executes first), and a binder's own initialiser / iterable / scrutinee reads the enclosing x (for, let in a block, match scrutinee, lambda argument), in a function body and at top level. Every case is non-trivial (each checks at least one resolution); distinct by case name.",
            tier.pick("{f, Ty}", "{f, g, Ty}"),
            tier.pick("{{En}, {En,mk}} × {∅, {En,mk}}", "{∅, {En}, {En,mk}}²"),
            depth_fn(tier),
            SCS,
            DEPTH_TOP
        )
    }
    fn assumptions(&self) -> Vec<String> {
        vec![
            "a top-level `let f` in main is a local binding and shadows an imported `f` (innermost binding); uses of `f` inside functions of such a layout are not asserted (the manual does not say what a function sees)".into(),
            "an inclusion list naming something the file does not declare (`use aa.f` when aa has no f): acceptance unspecified; if accepted the other names must resolve as modelled".into(),
            "redeclaring x in the same scope as another binding of x (let after let, let in the body of a for/arm/lambda that binds x) is left out of the universe: the manual does not say whether it is a new scope".into(),
            "diagnostics are compared by kind (clash = 'declared more than once', unresolved = 'Could not resolve identifier'), never by full text".into(),
            "fully qualified names without an alias (`aa.f()`) are named by namespaces.md but not said to be writable: no-fault only".into(),
            "enum family: a member call written directly on a qualified payload-less variant (`En.Ra.who()`, `(En.Ra).who()`) is rejected by the resolver as an unresolved identifier even when En is visible (resolve_names_member_helper treats every member of an EnumVariant declaration as unresolved); the manual does not show that form, so the programs pass the variant to a function or bind it with `let` first".into(),
            "enum family: an alias-qualified variant pattern (`q.En.Ra -> ..`) is not in the grammar (parse error), so aliases are exercised through expressions only".into(),
        ]
    }
}
