//! C14 — match and destructuring select the first matching arm and bind correctly.
//!
//! Same universe as C12 (pat_util.rs). Every arm list the checker accepts is compiled (each arm emits its
//! index and the domain index of every variable it binds, in name order) and run on every value of the
//! domain that matches some arm; arm index and bindings must equal the brute-force matcher's. In the
//! placements the checker does not analyse (arm body, scrutinee, task block) lists with redundant arms
//! compile too, which exercises first-match on overlapping arms. Extra units run every irrefutable
//! pattern of the product types as `let`, `var` and `for` destructuring.

use super::c12::{cause_keys, is_nontrivial};
use super::pat_util::*;
use crate::drive::End;
use crate::fw::{Prop, Tier, UnitOut};
use serde_json::json;

pub struct C14;

fn judge_run(out: &mut UnitOut, c: &MatchCase, vals: &[Val], feed: &[i64], r: &RunRes) {
    let ctx = c.ctx.name();
    let fail = |out: &mut UnitOut, sym: &str, extra: Vec<String>, what: String, observed: String| {
        let mut keys = cause_keys("c14", sym, c);
        keys.extend(extra);
        out.class(&format!("{ctx}:violation:{sym}"));
        out.violation(
            keys,
            format!("{}: {what}", c.text()),
            json!({"case": c.text(), "program": standalone(c), "host_inputs": format!("0, {:?}, -1", feed), "observed": observed, "what": what}),
        );
    };
    match r {
        RunRes::Diag(d) => fail(out, "compile-diagnostics", vec![], "accepted by the checker but compilation reports diagnostics".into(), d.clone()),
        RunRes::CompilerPanic(p) => {
            fail(out, "compiler-panic", vec![p.site_key()], format!("compiler panic at {}: {}", p.site, p.msg), p.msg.clone())
        }
        RunRes::Ran(emits, end) => {
            let (groups, tail, alien) = split_emits(emits);
            let mut wrong: Vec<String> = vec![];
            let mut sym = "wrong-binding";
            for (n, vi) in feed.iter().enumerate() {
                let exp = expected_for_index(c, vals, *vi as usize).expect("fed value matches an arm");
                out.count("value_runs", 1);
                match groups.get(n) {
                    Some(g) if *g == exp => out.class(&format!("{ctx}:arm{}-{}bindings", exp[0].min(3), bind_tys(&c.arms[exp[0] as usize], &c.ty).len().min(3))),
                    g => {
                        if g.map(|g| g.first() != exp.first()).unwrap_or(true) {
                            sym = "wrong-arm";
                        }
                        wrong.push(format!("value {} : expected arm+bindings {:?}, observed {:?}", show_val(&c.ty, &vals[*vi as usize]), exp, g));
                    }
                }
            }
            let mut extra = vec![];
            if let End::Fault(p) = end {
                extra.push(p.site_key());
                sym = "vm-fault";
            } else if matches!(end, End::InternalError { .. }) {
                sym = "vm-internal-error";
            }
            if wrong.is_empty() && *end == End::Done && tail.is_empty() && !alien && groups.len() == feed.len() {
                return;
            }
            fail(
                out,
                sym,
                extra,
                format!("end={}; {}", crate::batch::short_end(end), if wrong.is_empty() { "extra output".to_string() } else { wrong.join(" | ") }),
                format!("end={:?} per-value emits={:?} tail={:?}", end, groups, tail),
            );
        }
    }
}

fn destructuring_units() -> usize {
    destructuring_types().len()
}

impl Prop for C14 {
    fn id(&self) -> &'static str {
        "C14"
    }
    fn level(&self) -> &'static str {
        "exploration"
    }
    fn n_units(&self, tier: Tier) -> usize {
        plan(tier, true).1.len() + destructuring_units()
    }
    fn expected_evaluations(&self, tier: Tier) -> Option<u64> {
        Some(total_cases(tier, true) + (0..destructuring_units()).map(|t| destructuring_cases(t).len() as u64).sum::<u64>())
    }
    fn min_classes(&self) -> usize {
        3
    }
    fn run_unit(&self, tier: Tier, unit: usize, out: &mut UnitOut) {
        let n_match_units = plan(tier, true).1.len();
        let destructuring = unit >= n_match_units;
        let cases = if destructuring { destructuring_cases(unit - n_match_units) } else { unit_cases(tier, true, unit) };
        if cases.is_empty() {
            return;
        }
        let ty = cases[0].ty.clone();
        let vals = values(&ty);
        if let Err(e) = roundtrip_ok(&ty) {
            out.begin_case_quiet(0);
            out.class("violation:support-roundtrip");
            out.violation(
                vec![format!("input:{}", crate::fw::hkey(&format!("roundtrip {}", ty.texpr()))), "c14:support-roundtrip".into()],
                format!("enc(mk(i)) != i for {} (binding-only tuple / variant patterns or constructors are broken)", ty.texpr()),
                json!({"detail": e}),
            );
        }
        let mut stats = CheckStats::default();
        let mut run_programs = 0u64;
        let bs = batch_size(out, &cases);
        let mut i = 0;
        while i < cases.len() {
            let j = (i + bs).min(cases.len());
            let sel = select(out, i, j);
            i = j;
            if sel.is_empty() {
                continue;
            }
            if bs == 1 {
                out.describe_case(&format!("{}\n{}", cases[sel[0]].text(), standalone(&cases[sel[0]])));
            }
            let refs: Vec<&MatchCase> = sel.iter().map(|k| &cases[*k]).collect();
            let verdicts: Vec<Verdict> =
                if destructuring { refs.iter().map(|_| Verdict::default()).collect() } else { check_cases_w(&refs, &mut stats, false) };
            let mut accepted: Vec<usize> = vec![];
            let mut feeds: Vec<Vec<i64>> = vec![];
            for (n, k) in sel.iter().enumerate() {
                out.begin_case_quiet(*k as u64);
                out.evaluations += 1;
                let c = &cases[*k];
                if is_nontrivial(c) {
                    out.nontrivial_text(&c.text());
                }
                let v = &verdicts[n];
                if v.panic.is_some() || !v.foreign.is_empty() || !v.machinery.is_empty() {
                    // reported by C12 / C13; nothing to run
                    out.class(&format!("{}:not-run:checker-trouble", c.ctx.name()));
                    continue;
                }
                if !v.accepted() {
                    out.class(&format!("{}:not-run:rejected-by-checker", c.ctx.name()));
                    continue;
                }
                // feed the values that match some arm (a value without an arm is C12's concern)
                let feed: Vec<i64> = (0..vals.len())
                    .filter(|i| {
                        first_match(&c.arms, &vals[*i]).is_some()
                            && (c.ctx != Ctx::For || first_match(&c.arms, &vals[(*i + 1) % vals.len()]).is_some())
                    })
                    .map(|i| i as i64)
                    .collect();
                if feed.len() < vals.len() {
                    out.count("accepted_lists_with_unmatched_values(skipped values)", 1);
                }
                accepted.push(n);
                feeds.push(feed);
                if *k % 701 == 5 {
                    out.sample(json!({"case": c.text(), "values_fed": feeds.last().unwrap().len(),
                        "expected_first_value": feeds.last().unwrap().first().map(|i| expected_for_index(c, &vals, *i as usize))}));
                }
            }
            let acc_refs: Vec<&MatchCase> = accepted.iter().map(|n| refs[*n]).collect();
            let runs = run_cases(&acc_refs, &feeds, &mut run_programs);
            for (m, n) in accepted.iter().enumerate() {
                out.begin_case_quiet(sel[*n] as u64);
                out.count("arm_lists_run", 1);
                judge_run(out, refs[*n], &vals, &feeds[m], &runs[m]);
            }
        }
        out.count("checker_programs", stats.programs as i64);
        out.count("compiled_programs", run_programs as i64);
    }
    fn rule(&self, tier: Tier) -> String {
        format!(
            "U-pat: {}; plus let / var / for destructuring: every irrefutable pattern (wildcard, binding, nil, tuple, struct positional/named/named-reversed, depth <= 2) of {:?}. \
             Every arm list the checker accepts is compiled; each arm emits its index and enc_<type>(binding) for every binding in name order; the program is fed every value of the \
             domain that matches some arm via mk_<type>(host index). Expected: index of the first matching arm and the values bound by the brute-force matcher (left alternative of an \
             or-pattern first). `for` iterates over [v_i, v_(i+1)]. Non-trivial: at least one arm is not a top-level wildcard/binding.",
            describe_universe(tier, true),
            destructuring_types().iter().map(|t| t.texpr()).collect::<Vec<_>>()
        )
    }
    fn assumptions(&self) -> Vec<String> {
        vec![
            "arm lists the checker rejects (non-exhaustive or redundant arms) cannot be run and are only counted; whether the rejection is right is decided by C12 / C13".into(),
            "values that match no arm of an accepted list (only possible in placements the checker does not analyse) are not fed: the property does not say what happens then (C12 does)".into(),
            "mk_/enc_ support functions use field access for structs and binding-only patterns for tuples/variants; their round trip enc(mk(i)) = i is validated once per unit".into(),
        ]
    }
}
