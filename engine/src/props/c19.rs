//! C19 — lambdas capture values at creation, including for nested lambdas.
//!
//! Universe: programs with lambdas nested to depth d (2 quick, 3 thorough). Level 0 is either a
//! function body (parameter `p0`, `let l0`, `var v0`) or the top level (`let gl`, `var gv`); lambda k
//! (1 <= k < d) has its parameter `pk` and a `var vk` local. Up to two of these variables are
//! "active": each active variable x declared at level j is read directly by every level of a
//! non-empty set S_x ⊆ {j+1..d} — all such sets are enumerated, in particular the ones where x is
//! read only by a lambda nested inside lambdas that do not mention it. Every active `var` is
//! reassigned according to a pattern r ⊆ {before creation of the next lambda, between creation and
//! the first call, between the two calls}; every lambda is called twice.
//!
//! Model: creating a lambda snapshots the values of all visible variables; a call runs the body on the
//! snapshot plus a fresh parameter and fresh locals.

use super::features_util::{Want, chunk, judge, n_chunks};
use crate::batch::{Case, run_cases};
use crate::drive::{COpts, ROpts};
use crate::fw::{Prop, Tier, UnitOut, hkey};
use serde_json::json;

pub struct C19;

#[derive(Clone, Copy, PartialEq, Eq, Debug)]
enum VK {
    Param,
    Let,
    Var,
}

#[derive(Clone, Debug)]
struct V {
    name: String,
    level: usize,
    kind: VK,
}

fn vars(root_fn: bool, d: usize) -> Vec<V> {
    let mut v = vec![];
    if root_fn {
        v.push(V { name: "p0".into(), level: 0, kind: VK::Param });
        v.push(V { name: "l0".into(), level: 0, kind: VK::Let });
        v.push(V { name: "v0".into(), level: 0, kind: VK::Var });
    } else {
        v.push(V { name: "gl".into(), level: 0, kind: VK::Let });
        v.push(V { name: "gv".into(), level: 0, kind: VK::Var });
    }
    for k in 1..d {
        v.push(V { name: format!("p{k}"), level: k, kind: VK::Param });
        v.push(V { name: format!("v{k}"), level: k, kind: VK::Var });
    }
    v
}

/// one program of the universe
#[derive(Clone, Debug)]
struct Prog {
    root_fn: bool,
    d: usize,
    /// (variable index, bitmask of levels that read it directly)
    active: Vec<(usize, u32)>,
    /// reassignment pattern bits: 1 before creation, 2 between creation and first call, 4 between calls
    r: u32,
}

impl Prog {
    fn uses(&self, var: usize) -> u32 {
        self.active.iter().find(|a| a.0 == var).map(|a| a.1).unwrap_or(0)
    }
    /// every level between the declaration and the innermost reader reads the variable itself
    fn chain_complete(&self) -> bool {
        let vs = vars(self.root_fn, self.d);
        self.active.iter().all(|(vi, s)| {
            let j = vs[*vi].level;
            let max = 31 - s.leading_zeros() as usize;
            (j + 1..=max).all(|k| s >> k & 1 == 1)
        })
    }
    fn name(&self) -> String {
        let vs = vars(self.root_fn, self.d);
        let uses: Vec<String> = self
            .active
            .iter()
            .map(|(vi, s)| {
                let lv: Vec<String> = (1..=self.d).filter(|k| s >> k & 1 == 1).map(|k| k.to_string()).collect();
                format!("{} read by lambda level(s) {}", vs[*vi].name, lv.join("+"))
            })
            .collect();
        let mut rs = vec![];
        if self.r & 1 != 0 {
            rs.push("before-creation");
        }
        if self.r & 2 != 0 {
            rs.push("between-creation-and-call");
        }
        if self.r & 4 != 0 {
            rs.push("between-calls");
        }
        format!(
            "C19 root={} depth={} [{}] reassign-vars=[{}]",
            if self.root_fn { "function" } else { "top-level" },
            self.d,
            uses.join("; "),
            rs.join(",")
        )
    }

    fn level_vars(&self, k: usize) -> Vec<usize> {
        vars(self.root_fn, self.d).iter().enumerate().filter(|(_, v)| v.level == k).map(|(i, _)| i).collect()
    }

    /// statements of level k after its header: declarations, inner lambda, calls
    fn level_stmts(&self, k: usize) -> String {
        let vs = vars(self.root_fn, self.d);
        let mut s = String::new();
        let my_var: Option<&V> =
            self.level_vars(k).into_iter().map(|i| (i, &vs[i])).find(|(i, v)| v.kind == VK::Var && self.uses(*i) != 0).map(|x| x.1);
        for i in self.level_vars(k) {
            if self.uses(i) == 0 {
                continue;
            }
            match vs[i].kind {
                VK::Let => s.push_str(&format!("let {} = 6\n", vs[i].name)),
                VK::Var => {
                    if k == 0 {
                        s.push_str(&format!("var {} = 10\n", vs[i].name));
                    } else {
                        s.push_str(&format!("var {} = p{k} + {}\n", vs[i].name, 100 * k));
                    }
                }
                VK::Param => {}
            }
        }
        if let Some(v) = my_var {
            if self.r & 1 != 0 {
                s.push_str(&format!("{0} = {0} + 1\n", v.name));
            }
        }
        s.push_str(&format!("let f{} = {}\n", k + 1, self.lambda(k + 1)));
        if let Some(v) = my_var {
            if self.r & 2 != 0 {
                s.push_str(&format!("{0} = {0} + 2\n", v.name));
            }
        }
        s.push_str(&format!("vh_emit_int(f{}({}))\n", k + 1, 10 * (k + 1) + 1));
        if let Some(v) = my_var {
            if self.r & 4 != 0 {
                s.push_str(&format!("{0} = {0} + 4\n", v.name));
            }
        }
        s.push_str(&format!("vh_emit_int(f{}({}))\n", k + 1, 10 * (k + 1) + 2));
        if let Some(v) = my_var {
            s.push_str(&format!("vh_emit_int({})\n", v.name));
        }
        s
    }

    fn lambda(&self, k: usize) -> String {
        let vs = vars(self.root_fn, self.d);
        let mut s = format!("(p{k}: int) -> {{\nvh_emit_int(-{k})\n");
        for (i, v) in vs.iter().enumerate() {
            if v.level < k && self.uses(i) >> k & 1 == 1 {
                s.push_str(&format!("vh_emit_int({})\n", v.name));
            }
        }
        s.push_str(&format!("vh_emit_int(p{k})\n"));
        if k < self.d {
            s.push_str(&self.level_stmts(k));
        }
        s.push_str(&format!("p{k} * 2\n}}"));
        s
    }

    fn case(&self, uniq: usize) -> Case {
        if self.root_fn {
            let f = format!("root_{uniq}");
            let decl = format!("fn {f}(p0: int) -> void {{\n{}}}", self.level_stmts(0));
            Case::new(self.name(), format!("{f}(5)")).decl(decl)
        } else {
            // the whole program is top-level code; compiled one program per case
            Case::new(self.name(), "").decl(self.level_stmts(0).trim_end().to_string())
        }
    }

    // ---------------------------------------------------------------- model
    fn sim(&self, k: usize, env: &[i64], arg: i64, tr: &mut Vec<i64>) -> i64 {
        let vs = vars(self.root_fn, self.d);
        let mut env = env.to_vec();
        if k >= 1 {
            tr.push(-(k as i64));
            for (i, v) in vs.iter().enumerate() {
                if v.level < k && self.uses(i) >> k & 1 == 1 {
                    tr.push(env[i]);
                }
            }
            tr.push(arg);
        }
        if k < self.d {
            let mut my_var = None;
            for i in self.level_vars(k) {
                match vs[i].kind {
                    VK::Param => env[i] = arg,
                    VK::Let => env[i] = 6,
                    VK::Var => {
                        env[i] = if k == 0 { 10 } else { arg + 100 * k as i64 };
                        if self.uses(i) != 0 {
                            my_var = Some(i);
                        }
                    }
                }
            }
            if let Some(i) = my_var {
                if self.r & 1 != 0 {
                    env[i] += 1;
                }
            }
            let snapshot = env.clone(); // creation of lambda k+1: capture by value
            if let Some(i) = my_var {
                if self.r & 2 != 0 {
                    env[i] += 2;
                }
            }
            let a = self.sim(k + 1, &snapshot, 10 * (k as i64 + 1) + 1, tr);
            tr.push(a);
            if let Some(i) = my_var {
                if self.r & 4 != 0 {
                    env[i] += 4;
                }
            }
            let b = self.sim(k + 1, &snapshot, 10 * (k as i64 + 1) + 2, tr);
            tr.push(b);
            if let Some(i) = my_var {
                tr.push(env[i]);
            }
        }
        arg * 2
    }
    fn model(&self) -> Vec<i64> {
        let n = vars(self.root_fn, self.d).len();
        let mut tr = vec![];
        self.sim(0, &vec![0; n], 5, &mut tr);
        tr
    }
}

fn universe(root_fn: bool, d: usize) -> Vec<Prog> {
    let vs = vars(root_fn, d);
    // all (variable, non-empty set of reader levels)
    let mut opts: Vec<(usize, u32)> = vec![];
    for (i, v) in vs.iter().enumerate() {
        let lo = v.level + 1;
        let nl = d - v.level; // levels lo..=d
        for m in 1u32..(1 << nl) {
            opts.push((i, m << lo));
        }
    }
    let mut shapes: Vec<Vec<(usize, u32)>> = vec![vec![]];
    for a in &opts {
        shapes.push(vec![*a]);
    }
    for (x, a) in opts.iter().enumerate() {
        for b in &opts[x + 1..] {
            if a.0 != b.0 {
                shapes.push(vec![*a, *b]);
            }
        }
    }
    let mut out = vec![];
    for sh in shapes {
        let has_var = sh.iter().any(|(vi, _)| vs[*vi].kind == VK::Var);
        let rs: Vec<u32> = if has_var { (0..8).collect() } else { vec![0] };
        for r in rs {
            out.push(Prog { root_fn, d, active: sh.clone(), r });
        }
    }
    out
}

/// closed form of `universe(..).len()`: shapes with 0, 1, 2 active variables, ×8 when a `var` is active
fn universe_closed_form(root_fn: bool, d: usize) -> u64 {
    let vs = vars(root_fn, d);
    // per variable: number of non-empty reader sets, weight class (var or not)
    let w: Vec<(u64, bool)> = vs.iter().map(|v| ((1u64 << (d - v.level)) - 1, v.kind == VK::Var)).collect();
    let mut total = 1;
    for (n, is_var) in &w {
        total += n * if *is_var { 8 } else { 1 };
    }
    for i in 0..w.len() {
        for j in i + 1..w.len() {
            total += w[i].0 * w[j].0 * if w[i].1 || w[j].1 { 8 } else { 1 };
        }
    }
    total
}

const CHUNK: usize = 250;

/// strata: 0 function-rooted, every reader chain complete (batched); 1 function-rooted, some variable read only
/// further inside (one program per case); 2 top-level-rooted complete chains; 3 top-level-rooted incomplete chains
fn stratum(tier: Tier, st: usize) -> Vec<Prog> {
    let d = tier.pick(2, 3);
    let root_fn = st < 2;
    let complete = st % 2 == 0;
    universe(root_fn, d).into_iter().filter(|p| p.chain_complete() == complete).collect()
}
const STRATA: [&str; 4] =
    ["fn-root|every-level-reads", "fn-root|read-only-further-inside", "top-level-root|every-level-reads", "top-level-root|read-only-further-inside"];

fn layout(tier: Tier) -> Vec<(usize, usize)> {
    let mut v = vec![];
    for st in 0..4 {
        let n = stratum(tier, st).len();
        for c in 0..n_chunks(n, CHUNK) {
            v.push((st, c));
        }
    }
    v.push((4, 0));
    v
}

/// stratum 4: the syntactic form of the (only) read of the captured variable inside the lambda
const READ_FORMS: [(&str, &str); 12] = [
    ("call-argument", "vh_emit_int(X)"),
    ("binary-operand", "vh_emit_int(X + 0)"),
    ("unary-operand", "vh_emit_int(0 - (-X))"),
    ("let-rhs", "let cc = X\nvh_emit_int(cc)"),
    ("assignment-rhs", "var ww = 0\nww = X\nvh_emit_int(ww)"),
    ("match-scrutinee", "match X {\nqq -> vh_emit_int(qq)\n}"),
    ("while-condition", "var ww = 0\nwhile ww < X {\nww = ww + 1\n}\nvh_emit_int(ww)"),
    ("if-condition", "if X == 11 {\nvh_emit_int(11)\n} else {\nvh_emit_int(-5)\n}"),
    ("array-element", "let ar = [X]\nvh_emit_int(ar[0])"),
    ("tuple-element", "let (ta, tb) = (X, 0)\nvh_emit_int(ta)"),
    ("for-iterable", "for it in [X] {\nvh_emit_int(it)\n}"),
    ("nested-block", "if true {\nvh_emit_int(X)\n}"),
];

fn read_form_cases() -> Vec<(Case, Want)> {
    let mut v = vec![];
    for root_fn in [true, false] {
        for depth in [1usize, 2] {
            for (i, (fname, form)) in READ_FORMS.iter().enumerate() {
                let x = if root_fn { "v0" } else { "gv" };
                let read = form.replace('X', x);
                let lam = if depth == 1 {
                    format!("(p1: int) -> {{\n{read}\np1 * 2\n}}")
                } else {
                    format!("(p1: int) -> {{\nvh_emit_int({x})\nlet f2 = (p2: int) -> {{\n{read}\np2 * 2\n}}\nf2(p1)\n}}")
                };
                let stmts = format!(
                    "var {x} = 10\n{x} = {x} + 1\nlet f1 = {lam}\n{x} = {x} + 2\nvh_emit_int(f1(11))\n{x} = {x} + 4\nvh_emit_int(f1(12))\nvh_emit_int({x})"
                );
                let want = if depth == 1 { vec![11, 22, 11, 24, 17] } else { vec![11, 11, 22, 11, 11, 24, 17] };
                let name = format!(
                    "C19 read-form={fname} root={} lambda-depth={depth} (var assigned before creation, between creation and call, between calls)",
                    if root_fn { "function" } else { "top-level" }
                );
                let case = if root_fn {
                    let f = format!("rootrf_{depth}_{i}");
                    Case::new(name, format!("{f}(5)")).decl(format!("fn {f}(p0: int) -> void {{\n{stmts}\n}}"))
                } else {
                    Case::new(name, "").decl(stmts)
                };
                v.push((case, Want::Emits(want)));
            }
        }
    }
    // a binding declared in an inner block of the lambda body under the NAME of a captured variable: it is a fresh local of
    // that invocation, and once its block ends the lambda sees the captured value again (in both calls)
    for root_fn in [true, false] {
        for depth in [1usize, 2] {
            for (i, (fname, form, semits)) in SHADOW_FORMS.iter().enumerate() {
                let x = if root_fn { "v0" } else { "gv" };
                let sh = form.replace('X', x);
                let lam = if depth == 1 {
                    format!("(p1: int) -> {{\n{sh}\nvh_emit_int({x})\np1 * 2\n}}")
                } else {
                    format!("(p1: int) -> {{\nvh_emit_int({x})\nlet f2 = (p2: int) -> {{\n{sh}\nvh_emit_int({x})\np2 * 2\n}}\nf2(p1)\n}}")
                };
                let stmts = format!(
                    "var {x} = 10\n{x} = {x} + 1\nlet f1 = {lam}\n{x} = {x} + 2\nvh_emit_int(f1(11))\n{x} = {x} + 4\nvh_emit_int(f1(12))\nvh_emit_int({x})"
                );
                let mut want = vec![];
                for res in [22, 24] {
                    if depth == 2 {
                        want.push(11);
                    }
                    want.extend_from_slice(semits);
                    want.push(11);
                    want.push(res);
                }
                want.push(17);
                let name = format!(
                    "C19 inner-block binding named like the capture: {fname} root={} lambda-depth={depth}",
                    if root_fn { "function" } else { "top-level" }
                );
                let case = if root_fn {
                    let f = format!("rootsh_{depth}_{i}");
                    Case::new(name, format!("{f}(5)")).decl(format!("fn {f}(p0: int) -> void {{\n{stmts}\n}}"))
                } else {
                    Case::new(name, "").decl(stmts)
                };
                v.push((case, Want::Emits(want)));
            }
        }
    }
    v
}

/// (name, statements with X = the captured variable, what they emit when the captured value is 11)
const SHADOW_FORMS: [(&str, &str, &[i64]); 5] = [
    ("if-block let", "if p1 > 0 {\nlet X = 500\nvh_emit_int(X)\n}", &[500]),
    ("while-body let from itself", "var wi = 0\nwhile wi < 2 {\nlet X = X * 2\nvh_emit_int(X)\nwi = wi + 1\n}", &[22, 22]),
    ("match-arm binding", "match option.some(700) {\n.some(X) -> vh_emit_int(X)\n.none -> vh_emit_int(0)\n}", &[700]),
    ("for variable", "for X in [800, 801] {\nvh_emit_int(X)\n}", &[800, 801]),
    ("if-block var assigned", "if p1 > 0 {\nvar X = 900\nX = X + 1\nvh_emit_int(X)\n}", &[901]),
];

impl Prop for C19 {
    fn id(&self) -> &'static str {
        "C19"
    }
    fn level(&self) -> &'static str {
        "exploration"
    }
    fn n_units(&self, tier: Tier) -> usize {
        layout(tier).len()
    }
    fn expected_evaluations(&self, tier: Tier) -> Option<u64> {
        let d = tier.pick(2, 3);
        Some(universe_closed_form(true, d) + universe_closed_form(false, d) + 2 * 2 * (READ_FORMS.len() + SHADOW_FORMS.len()) as u64)
    }
    fn run_unit(&self, tier: Tier, unit: usize, out: &mut UnitOut) {
        let (st, c) = layout(tier)[unit];
        if st == 4 {
            let cw = read_form_cases();
            let cases: Vec<Case> = cw.iter().map(|x| x.0.clone()).collect();
            run_cases(out, 5_000_000, &cases, 1, COpts::default(), ROpts::default(), |out, k, case, r| {
                out.nontrivial_text(&case.name);
                judge(out, "read-form", case, r, &cw[k].1);
            });
            return;
        }
        let all = stratum(tier, st);
        let (a, b) = chunk(all.len(), CHUNK, c);
        let progs = &all[a..b];
        let cases: Vec<Case> = progs.iter().enumerate().map(|(i, p)| p.case(a + i)).collect();
        let bs = if st == 0 { 125 } else { 1 };
        run_cases(out, a as u64, &cases, bs, COpts::default(), ROpts::default(), |out, k, case, r| {
            let p = &progs[k];
            if !p.active.is_empty() {
                out.nontrivial_text(&case.name);
            }
            let want = Want::Emits(p.model());
            if k % 83 == 0 {
                out.sample(json!({"case": case.name, "program": case.standalone(), "expected_trace": format!("{:?}", p.model())}));
            }
            let ok = judge(out, STRATA[st], case, r, &want);
            if !ok && !p.chain_complete() {
                // keep the shape identifiable: which variable is read only further inside
                out.count("violations_in_shapes_where_a_variable_is_read_only_by_an_inner_lambda", 1);
            }
            let _ = hkey;
        });
    }
    fn rule(&self, tier: Tier) -> String {
        let d = tier.pick(2, 3);
        format!(
            "lambda nesting depth {d}; level 0 is a function body (p0, let l0, var v0) or the top level (let gl, var gv); lambda k<{d} has parameter pk and a local var vk = pk+100k; \
             0, 1 or 2 active variables, each with every non-empty set of directly reading lambda levels below its declaration; active vars reassigned per pattern r ⊆ {{before creation, between \
             creation and first call, between the two calls}} (increments 1/2/4 make the visible value identify the reassignments seen); every lambda called twice with distinct arguments and \
             its result emitted; each body emits a level marker, the outer variables it reads, its parameter, and (after the calls) its own local. Model: creation snapshots all visible values, \
             a call runs on the snapshot with fresh parameter/locals. Count = closed form 1 + Σ_x n_x·w_x + Σ_(x<y) n_x·n_y·w_xy with n_x = 2^(d-level(x))-1, w = 8 if a var is active else 1. \
             non-trivial = at least one captured variable. Shapes where some level between declaration and reader does not itself read the variable are a separate stratum, one program per case. \
             Extra stratum: a var captured by a lambda (depth 1, and depth 2 with the outer lambda also reading it) whose only read inside the lambda has each of 12 syntactic forms \
             (call argument, operand, let/assignment rhs, match scrutinee, while/if condition, array/tuple element, for iterable, nested block); and the same 2x2 settings with a binding declared \
             in an inner block of the lambda body under the captured variable's own name (if-block let/var, while-body let initialised from itself, match-arm binding, for variable), \
             the capture read again after the block",
        )
    }
    fn assumptions(&self) -> Vec<String> {
        vec![
            "functions cannot read top-level variables, so top-level let/var are captured only by lambdas created at the top level (top-level-rooted stratum)".into(),
            "at most two captured variables per program (all pairs); the reassignment pattern is shared by the active vars of a program".into(),
        ]
    }
}
