//! Shared helpers of the library group (C25 sorting, C26 arrays, C27 core/map + core/set):
//! a compiled host-driven driver program, a sharded variant of the operation-history BFS, and
//! small text utilities used to cut functions out of `modules/prelude.abra` at check time.

use crate::drive::{self, COpts, Compiled, Emit, End, Input, ROpts, RunOut, Src, StdHost};
use crate::fw::UnitOut;
use abra_core::verif::CompiledProgram;
use std::collections::{HashSet, VecDeque};
use std::hash::Hash;

/// One compiled driver program; every history runs in a fresh `Runtime` built from a clone of it.
pub struct Driver {
    pub prog: CompiledProgram,
    pub table: Vec<String>,
    pub text: String,
}

impl Driver {
    pub fn build(src: &Src) -> Result<Driver, String> {
        match drive::compile(src, COpts::default()) {
            Compiled::Ok(p) => Ok(Driver { prog: p, table: src.host_table(), text: src.main_text().to_string() }),
            Compiled::Diag(d) => Err(format!("driver program does not compile: {d}")),
            Compiled::Panic(p) => Err(format!("compiler panicked on the driver program at {}: {}", p.site, p.msg)),
        }
    }
    pub fn run(&self, inputs: Vec<Input>, max_steps: u64) -> RunOut {
        let mut host = StdHost::default();
        host.inputs = VecDeque::from(inputs);
        drive::run(&self.prog, &self.table, host, ROpts { budget: u32::MAX, max_steps })
    }
}

/// A runtime error that stops the program cleanly (as opposed to a host panic or a VM-internal
/// error). `classify_error` only knows the four documented messages; an error kind added later
/// (e.g. a dedicated "pop from empty array") is still a clean stop.
pub fn is_clean_runtime_error(end: &End) -> bool {
    match end {
        End::Error { .. } => true,
        End::InternalError { text } => {
            let first = text.lines().next().unwrap_or("");
            !(first.starts_with("internal error")
                || first.contains("expected type")
                || first.starts_with("ffi")
                || first.starts_with("failed to load"))
        }
        _ => false,
    }
}

pub fn end_short(e: &End) -> String {
    match e {
        End::Error { kind, text } => format!("error:{kind} ({})", text.lines().next().unwrap_or("")),
        End::InternalError { text } => format!("internal-error ({})", text.lines().next().unwrap_or("")),
        End::Fault(p) => format!("FAULT: Rust panic escaped the VM at {}: {}", p.site, p.msg),
        other => other.class(),
    }
}

pub fn emits_short(e: &[Emit]) -> String {
    let mut s = String::from("[");
    for (i, x) in e.iter().enumerate() {
        if i > 0 {
            s.push(' ');
        }
        match x {
            Emit::Int(v) => s.push_str(&format!("{v}")),
            Emit::Str(v) => s.push_str(&format!("{v:?}")),
            Emit::Bool(v) => s.push_str(if *v { "T" } else { "F" }),
            Emit::Arr(v) => s.push_str(&format!("{v:?}")),
            Emit::Float(v) => s.push_str(&format!("f{v:x}")),
        }
    }
    s.push(']');
    s
}

/// Breadth-first exploration of operation histories with history-derived state keys, like
/// `explore::opseq_bfs`, but *sharded*: every shard performs the same (cheap, model-only)
/// enumeration and executes on the implementation only the transitions whose global BFS index
/// is congruent to `shard` modulo `nshards`. Case index = global transition number, so replay
/// files are valid whatever the shard count. `states` is counted by shard 0 only, `transitions`
/// and `traces` count what the shard executed (their sums over shards are the global numbers).
#[allow(clippy::too_many_arguments)]
pub fn sharded_bfs<Op: Clone, K: Hash + Eq>(
    init: Vec<Op>,
    ops: &[Op],
    depth: usize,
    key: impl Fn(&[Op]) -> Option<K>,
    mut exec: impl FnMut(&[Op], &mut UnitOut),
    out: &mut UnitOut,
    case_base: u64,
    shard: usize,
    nshards: usize,
    state_cap: usize,
) {
    let mut seen: HashSet<K> = HashSet::new();
    let mut frontier: VecDeque<Vec<Op>> = VecDeque::new();
    let mut case: u64 = 0;
    let mine = |c: u64| (c % nshards as u64) as usize == shard;
    if let Some(k) = key(&init) {
        seen.insert(k);
        if mine(case) {
            out.transitions += 1;
            if out.begin_case(case_base + case) {
                exec(&init, out);
                out.evaluations += 1;
                out.traces += 1;
            }
        }
        case += 1;
        frontier.push_back(init.clone());
        if shard == 0 {
            out.states += 1;
        }
    }
    let base = init.len();
    while let Some(h) = frontier.pop_front() {
        if h.len() - base >= depth {
            continue;
        }
        for op in ops {
            let mut h2 = h.clone();
            h2.push(op.clone());
            let Some(k) = key(&h2) else { continue };
            if mine(case) {
                out.transitions += 1;
                if out.begin_case(case_base + case) {
                    exec(&h2, out);
                    out.evaluations += 1;
                    out.traces += 1;
                }
            }
            case += 1;
            if seen.insert(k) {
                if shard == 0 {
                    out.states += 1;
                }
                if seen.len() >= state_cap {
                    out.capped = true;
                    out.notes.push(format!("state cap {state_cap} reached"));
                    return;
                }
                frontier.push_back(h2);
            }
        }
    }
}

// ------------------------------------------------------------------ text utilities

/// Cut the function `fn <name>(…) … { … }` out of `text` (brace matching, `//` comments and
/// string literals skipped). Error if the function is missing or occurs more than once.
pub fn extract_fn(text: &str, name: &str) -> Result<String, String> {
    let pat = format!("fn {name}(");
    let mut starts = vec![];
    let mut from = 0;
    while let Some(p) = text[from..].find(&pat) {
        let at = from + p;
        let prev_ok = at == 0 || !is_ident_char(text[..at].chars().next_back().unwrap());
        if prev_ok {
            starts.push(at);
        }
        from = at + pat.len();
    }
    if starts.len() != 1 {
        return Err(format!("expected exactly one definition `fn {name}(` in the prelude, found {}", starts.len()));
    }
    let start = starts[0];
    let b = text.as_bytes();
    let mut i = start;
    let mut depth = 0usize;
    let mut opened = false;
    while i < b.len() {
        let c = b[i];
        if c == b'/' && i + 1 < b.len() && b[i + 1] == b'/' {
            while i < b.len() && b[i] != b'\n' {
                i += 1;
            }
            continue;
        }
        if c == b'"' || c == b'\'' {
            let q = c;
            i += 1;
            while i < b.len() && b[i] != q {
                if b[i] == b'\\' {
                    i += 1;
                }
                i += 1;
            }
            i += 1;
            continue;
        }
        if c == b'{' {
            depth += 1;
            opened = true;
        } else if c == b'}' {
            if depth == 0 {
                return Err(format!("unbalanced braces while cutting out `{name}`"));
            }
            depth -= 1;
            if opened && depth == 0 {
                return Ok(text[start..=i].to_string());
            }
        }
        i += 1;
    }
    Err(format!("no body found for `{name}`"))
}

fn is_ident_char(c: char) -> bool {
    c.is_alphanumeric() || c == '_'
}

/// Rename whole identifiers (never substrings of longer identifiers).
pub fn rename_idents(text: &str, map: &[(&str, &str)]) -> String {
    let mut out = String::with_capacity(text.len() + 16);
    let chars: Vec<char> = text.chars().collect();
    let mut i = 0;
    while i < chars.len() {
        if is_ident_char(chars[i]) {
            let s = i;
            while i < chars.len() && is_ident_char(chars[i]) {
                i += 1;
            }
            let id: String = chars[s..i].iter().collect();
            match map.iter().find(|m| m.0 == id) {
                Some(m) => out.push_str(m.1),
                None => out.push_str(&id),
            }
        } else {
            out.push(chars[i]);
            i += 1;
        }
    }
    out
}
