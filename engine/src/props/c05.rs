//! C05 — optimization and literal operands never change program behaviour.
//!
//! (a) Every program of U-prog (ugen.rs) is compiled twice — peephole optimizer on and off (hook
//!     `set_skip_optimizer`) — and run; printed output, host emits, end kind and, for runtime
//!     errors, the traceback (file, line, function of every frame) must be identical.
//! (b) Operand grid: every (op, a, b) with op in `+ - * / % ^ == != < <= > >=` on the C15 integer
//!     boundary grid and `+ - * / ^ == != < <= > >=` on the C16 float grid, written in every operand
//!     form (literal∘literal, var∘literal, literal∘var, var∘var, `var op= var`, `var op= literal`),
//!     each compiled with the optimizer on and off: all observations of one (op, a, b) must be equal
//!     (value bit for bit, or the same runtime error kind). Integer results are additionally compared
//!     with the i128 model of C15. Variables are fed by the host, so nothing about them can be folded.

use super::c02::{Res, Seen, from_case_result, keys_for, res_text};
use super::c15;
use super::c16;
use super::floatlit_util::{flit, fname};
use crate::batch::{Case, int_lit, run_cases};
use crate::drive::{self, COpts, Emit, End, Input, ROpts};
use crate::fw::{Prop, Tier, UnitOut, hkey};
use crate::ugen::{self, Prog, Scope};
use serde_json::json;

pub struct C05;

const UNIT_SIZE: u64 = 600;
const BATCH: usize = 300;
const GRID_BATCH: usize = 400;

fn co(skip: bool) -> COpts {
    COpts { base: 1, skip_opt: skip }
}

// ------------------------------------------------------------------ (a) U-prog, optimizer on / off

pub const LINE_ROOT_KEY: &str = "root:error-line-of-multi-line-expression-depends-on-optimizer";

/// what is compared between the two builds (`lines` = false leaves the traceback's line numbers out)
fn signature(r: &Res) -> String {
    signature_opt(r, true)
}
fn signature_opt(r: &Res, lines: bool) -> String {
    match r {
        Res::Ran(Seen { emits, out, end }) => {
            let e = match end {
                End::Error { kind, text } if !lines => {
                    format!("error:{kind} traceback={:?}", drive::traceback(text).into_iter().map(|(f, _, func)| (f, func)).collect::<Vec<_>>())
                }
                End::Error { kind, text } => format!("error:{kind} traceback={:?}", drive::traceback(text)),
                End::Fault(p) => format!("fault at {}", p.site_key()),
                other => other.class(),
            };
            format!("end={e} emits={emits:?} out={out:?}")
        }
        other => res_text(other),
    }
}

fn uprog_unit(tier: Tier, unit: usize, out: &mut UnitOut) {
    let u = ugen::universe(tier, Scope::Modelled);
    let (pi, a, b) = u.units(UNIT_SIZE)[unit];
    let base = a - u.starts[pi];
    let progs: Vec<Prog> = (a..b).map(|i| u.get(i)).collect();
    let mut res: [Vec<Option<Res>>; 2] = [vec![None; progs.len()], vec![None; progs.len()]];
    if u.parts[pi].top_level_only() {
        for (k, p) in progs.iter().enumerate() {
            if !out.begin_case(base + k as u64) {
                continue;
            }
            out.describe_case(&format!("{}\n{}", p.name(), p.standalone()));
            for (m, skip) in [false, true].into_iter().enumerate() {
                out.evaluations += 1;
                res[m][k] = super::c02::run_top_level(p, &p.inputs, co(skip), &[ROpts::default()]).pop();
            }
        }
    } else {
        let cases: Vec<Case> = progs.iter().map(|p| p.case()).collect();
        for (m, skip) in [false, true].into_iter().enumerate() {
            run_cases(out, base, &cases, BATCH, co(skip), ROpts::default(), |_, k, _, r| {
                res[m][k] = Some(from_case_result(r));
            });
        }
    }
    for (k, p) in progs.iter().enumerate() {
        let (Some(on), Some(off)) = (&res[0][k], &res[1][k]) else { continue };
        out.begin_case_quiet(base + k as u64);
        out.count("disagreements_checked", 1);
        out.nontrivial_text(&p.key_text());
        let (s_on, s_off) = (signature(on), signature(off));
        let faulty = |r: &Res| matches!(r, Res::CompilerPanic(_) | Res::Diag(_)) || matches!(r, Res::Ran(s) if s.end.is_fault());
        if s_on == s_off && !faulty(on) {
            let class = match on {
                Res::Ran(s) => s.end.class(),
                _ => "not-run".into(),
            };
            out.class(&format!("{}:same:{}", p.family, class));
            if k % 257 == 0 {
                out.sample(json!({"case": p.name(), "body": p.body_text(), "both": s_on}));
            }
        } else {
            out.class(&format!("{}:violation", p.family));
            let only_lines = s_on != s_off && signature_opt(on, false) == signature_opt(off, false);
            let what = if s_on == s_off {
                "faults with and without the optimizer"
            } else if only_lines {
                "the same runtime error is reported at a different line with and without the optimizer"
            } else {
                "behaves differently with and without the optimizer"
            };
            let mut keys = keys_for(p, Some(on));
            if only_lines {
                keys.push(LINE_ROOT_KEY.into());
            }
            for k2 in keys_for(p, Some(off)) {
                if !keys.contains(&k2) {
                    keys.push(k2);
                }
            }
            out.violation(
                keys,
                format!("{}: {what}: optimized {s_on} / unoptimized {s_off}", p.name()),
                json!({"case": p.name(), "program": p.standalone(), "inputs": p.inputs, "optimizer_on": s_on, "optimizer_off": s_off, "expected": "identical output, emits, end kind and traceback"}),
            );
        }
    }
}

// ------------------------------------------------------------------ (b) operand grid

const INT_ARITH: [&str; 6] = ["+", "-", "*", "/", "%", "^"];
const CMP: [&str; 6] = ["==", "!=", "<", "<=", ">", ">="];
const FLOAT_ARITH: [&str; 5] = ["+", "-", "*", "/", "^"];
const FORMS: [&str; 6] = ["lit∘lit", "var∘lit", "lit∘var", "var∘var", "var op= var", "var op= lit"];

fn int_grid(tier: Tier) -> Vec<i64> {
    match tier {
        Tier::Thorough => c15::grid(),
        Tier::Quick => {
            let keep: Vec<i64> = vec![0, 1, -1, 2, -2, 3, 7, -7, 63, 64, 1 << 31, 1 << 32, -(1 << 32), 1 << 62, 3037000500, i64::MIN, i64::MIN + 1, i64::MAX, i64::MAX - 1];
            c15::grid().into_iter().filter(|v| keep.contains(v)).collect()
        }
    }
}

fn float_grid(tier: Tier) -> Vec<f64> {
    let g = c16::grid(Tier::Quick);
    match tier {
        Tier::Thorough => g,
        Tier::Quick => {
            let keep: Vec<u64> = [0.0, -0.0, 1.0, -1.0, 0.5, 1.5, -1.5, 2.0, 3.0, 0.1, f64::MAX, f64::MIN_POSITIVE, 5e-324, 9007199254740992.0, f64::INFINITY, f64::NEG_INFINITY].iter().map(|v: &f64| v.to_bits()).collect();
            g.into_iter().filter(|v| keep.contains(&v.to_bits()) || v.is_nan()).collect()
        }
    }
}

#[derive(Clone, Copy, PartialEq, Debug)]
enum Kind {
    Int,
    Float,
}

/// grid units: (kind, operator, index of the chunk of left operands)
fn grid_units(tier: Tier) -> Vec<(Kind, &'static str, usize)> {
    let mut v = vec![];
    let ichunks = int_grid(tier).len().div_ceil(A_CHUNK);
    for op in INT_ARITH.iter().chain(CMP.iter()) {
        for c in 0..ichunks {
            v.push((Kind::Int, *op, c));
        }
    }
    let fchunks = float_grid(tier).len().div_ceil(A_CHUNK);
    for op in FLOAT_ARITH.iter().chain(CMP.iter()) {
        for c in 0..fchunks {
            v.push((Kind::Float, *op, c));
        }
    }
    v
}
const A_CHUNK: usize = 10;

fn is_cmp(op: &str) -> bool {
    CMP.contains(&op)
}

/// forms that exist for an operator: there is no `^=`, and comparisons have no compound form
fn forms_of(op: &str) -> Vec<usize> {
    if is_cmp(op) || op == "^" { vec![0, 1, 2, 3] } else { vec![0, 1, 2, 3, 4, 5] }
}

fn make_case(kind: Kind, op: &str, form: usize, a: (&str, Option<String>, Input), b: (&str, Option<String>, Input)) -> Option<Case> {
    let (next, emit) = match (kind, is_cmp(op)) {
        (Kind::Int, false) => ("vh_next_int()", "vh_emit_int"),
        (Kind::Int, true) => ("vh_next_int()", "vh_emit_bool"),
        (Kind::Float, false) => ("vh_next_float()", "vh_emit_float"),
        (Kind::Float, true) => ("vh_next_float()", "vh_emit_bool"),
    };
    let name = format!("{} {} {op} {} [{}]", if kind == Kind::Int { "int" } else { "float" }, a.0, b.0, FORMS[form]);
    let (body, inputs) = match form {
        // the result is observed three ways: as a call argument, stored by `let`, and stored by assignment
        // (the peephole that fuses an operation with a following store is a separate code path)
        0 => (three_ways(emit, &format!("{} {op} {}", a.1.clone()?, b.1.clone()?), ""), vec![]),
        1 => (three_ways(emit, &format!("a {op} {}", b.1.clone()?), &format!("let a = {next}\n")), vec![a.2.clone()]),
        2 => (three_ways(emit, &format!("{} {op} b", a.1.clone()?), &format!("let b = {next}\n")), vec![b.2.clone()]),
        3 => (three_ways(emit, &format!("a {op} b"), &format!("let a = {next}\nlet b = {next}\n")), vec![a.2.clone(), b.2.clone()]),
        4 => (format!("var a = {next}\nlet b = {next}\na {op}= b\n{emit}(a)"), vec![a.2.clone(), b.2.clone()]),
        _ => (format!("var a = {next}\na {op}= {}\n{emit}(a)", b.1.clone()?), vec![a.2.clone()]),
    };
    let mut c = Case::new(name, body);
    c.inputs = inputs;
    Some(c)
}

fn three_ways(emit: &str, e: &str, pre: &str) -> String {
    format!("{pre}{emit}({e})\nlet r = {e}\n{emit}(r)\nvar s = {e}\ns = {e}\n{emit}(s)")
}

/// observation of a grid case reduced to value / error kind
fn grid_sig(r: &Res) -> String {
    match r {
        Res::Ran(Seen { emits, out: _, end }) => {
            // the three observations of one case (argument / let / assignment) must agree
            let mut emits = emits.clone();
            if emits.len() == 3 {
                if emits[0] == emits[1] && emits[1] == emits[2] {
                    emits.truncate(1);
                } else {
                    return format!("UNEXPECTED the result differs between call argument, let and assignment: {emits:?}");
                }
            }
            grid_sig1(end, &emits)
        }
        other => format!("UNEXPECTED {}", res_text(other)),
    }
}

fn grid_sig1(end: &End, emits: &[Emit]) -> String {
    let r = Res::Ran(Seen { emits: emits.to_vec(), out: String::new(), end: end.clone() });
    match &r {
        Res::Ran(Seen { emits, out: _, end }) => match (end, emits.as_slice()) {
            (End::Done, [Emit::Int(v)]) => format!("int {v}"),
            (End::Done, [Emit::Bool(v)]) => format!("bool {v}"),
            (End::Done, [Emit::Float(b)]) => format!("float {:?} (0x{b:016x})", f64::from_bits(*b)),
            (End::Error { kind, .. }, []) => format!("error:{kind}"),
            (e, em) => format!("UNEXPECTED end={} emits={em:?}", super::c02::end_text(e)),
        },
        other => format!("UNEXPECTED {}", res_text(other)),
    }
}

fn int_expected(op: &str, a: i64, b: i64) -> Option<String> {
    if is_cmp(op) {
        let v = match op {
            "==" => a == b,
            "!=" => a != b,
            "<" => a < b,
            "<=" => a <= b,
            ">" => a > b,
            _ => a >= b,
        };
        return Some(format!("bool {v}"));
    }
    match c15::model(op, a, b) {
        c15::Exp::Val(v) => Some(format!("int {v}")),
        c15::Exp::Err(k) => Some(format!("error:{k}")),
        c15::Exp::Unspecified => None,
    }
}

fn grid_unit(tier: Tier, kind: Kind, op: &'static str, chunk: usize, out: &mut UnitOut) {
    // operands: (name, literal text if the value has one, host input)
    let vals: Vec<(String, Option<String>, Input, i64)> = match kind {
        Kind::Int => int_grid(tier).into_iter().map(|v| (v.to_string(), Some(int_lit(v)), Input::Int(v), v)).collect(),
        Kind::Float => float_grid(tier).into_iter().map(|v| (fname(v), flit(v), Input::Float(v), 0)).collect(),
    };
    let lo = chunk * A_CHUNK;
    let hi = (lo + A_CHUNK).min(vals.len());
    let mut cases: Vec<Case> = vec![];
    let mut groups: Vec<(String, Option<String>, Vec<usize>)> = vec![]; // (triple name, expected, case indices)
    let single = out.isolate || out.only_case.is_some();
    let mut gidx: u64 = 0;
    for a in &vals[lo..hi] {
        for b in &vals {
            let g = gidx;
            gidx += 1;
            // one case of this unit = one (op, a, b) triple with all its forms and both optimizer modes
            if !out.begin_case(g) {
                continue;
            }
            let mut idx = vec![];
            for f in forms_of(op) {
                if let Some(c) = make_case(kind, op, f, (&a.0, a.1.clone(), a.2.clone()), (&b.0, b.1.clone(), b.2.clone())) {
                    idx.push(cases.len());
                    cases.push(c);
                }
            }
            if single {
                out.describe_case(&idx.iter().map(|k| format!("{}\n{}", cases[*k].name, cases[*k].standalone())).collect::<Vec<_>>().join("\n---\n"));
            }
            let exp = if kind == Kind::Int { int_expected(op, a.3, b.3) } else { None };
            groups.push((format!("{} {op} {}#{g}", a.0, b.0), exp, idx));
            if single {
                // run this triple now so that an abort is attributed to it
                run_pending(out, &cases, &mut groups, kind, op);
                cases.clear();
            }
        }
    }
    run_pending(out, &cases, &mut groups, kind, op);
}

fn run_pending(out: &mut UnitOut, cases: &[Case], groups: &mut Vec<(String, Option<String>, Vec<usize>)>, kind: Kind, op: &str) {
    if groups.is_empty() {
        return;
    }
    let mut res: [Vec<Option<Res>>; 2] = [vec![None; cases.len()], vec![None; cases.len()]];
    for (m, skip) in [false, true].into_iter().enumerate() {
        let mut i = 0;
        while i < cases.len() {
            let j = (i + GRID_BATCH).min(cases.len());
            let rs = crate::batch::run_batch(&cases[i..j], co(skip), ROpts::default());
            for (n, r) in rs.iter().enumerate() {
                out.evaluations += 1;
                res[m][i + n] = Some(from_case_result(r));
            }
            i = j;
        }
    }
    let groups_now: Vec<(String, Option<String>, Vec<usize>)> = std::mem::take(groups);
    let groups = &groups_now;
    for (gname, exp, idx) in groups {
        // all observations of this (op, a, b): (form, optimizer, signature)
        let mut obs: Vec<(usize, &str, String)> = vec![];
        for k in idx {
            for (m, mode) in ["optimizer on", "optimizer off"].into_iter().enumerate() {
                if let Some(r) = &res[m][*k] {
                    obs.push((*k, mode, grid_sig(r)));
                }
            }
        }
        if obs.is_empty() {
            continue;
        }
        out.begin_case_quiet(gname.rsplit('#').next().and_then(|x| x.parse().ok()).unwrap_or(0));
        out.count("disagreements_checked", obs.len() as i64 - 1);
        out.nontrivial_text(gname);
        let reference = match exp {
            Some(e) => e.clone(),
            None => obs[0].2.clone(),
        };
        let bad: Vec<&(usize, &str, String)> = obs.iter().filter(|o| o.2 != reference || o.2.starts_with("UNEXPECTED")).collect();
        if bad.is_empty() {
            let class = reference.split(' ').next().unwrap_or("?").to_string();
            out.class(&format!("{}:{}:{}", if kind == Kind::Int { "int" } else { "float" }, if is_cmp(op) { "cmp" } else { "arith" }, class));
            if groups.len() > 50 && obs[0].0 % 911 == 0 {
                out.sample(json!({"triple": gname, "forms": idx.iter().map(|k| cases[*k].name.clone()).collect::<Vec<_>>(), "all_observations": reference}));
            }
        } else {
            out.class("grid:violation");
            let all: Vec<String> = obs.iter().map(|o| format!("{} / {}: {}", cases[o.0].name, o.1, o.2)).collect();
            let first_bad = bad[0];
            let mut keys = vec![format!("input:{}", hkey(&cases[first_bad.0].name))];
            if let Some(Res::Ran(Seen { end: End::Fault(p), .. })) = &res[0][first_bad.0] {
                keys.push(p.site_key());
            }
            out.violation(
                keys,
                format!(
                    "{gname}: operand forms / optimizer modes disagree{}: {} gives {} but {}",
                    if exp.is_some() { " with the integer model" } else { "" },
                    format!("{} / {}", cases[first_bad.0].name, first_bad.1),
                    first_bad.2,
                    match exp {
                        Some(e) => format!("the model says {e}"),
                        None => format!("{} / {} gives {}", cases[obs[0].0].name, obs[0].1, obs[0].2),
                    }
                ),
                json!({"triple": gname, "program": cases[first_bad.0].standalone(), "inputs": format!("{:?}", cases[first_bad.0].inputs), "observations": all, "expected": match exp { Some(e) => e.clone(), None => "all forms and both optimizer modes equal".into() }}),
            );
        }
    }
}

fn grid_formula(tier: Tier) -> u64 {
    let ni = int_grid(tier).len() as u64;
    // ints: every value has a literal
    let mut n = 0;
    for op in INT_ARITH.iter().chain(CMP.iter()) {
        n += forms_of(op).len() as u64 * ni * ni;
    }
    // floats: NaN and the infinities have no literal
    let g = float_grid(tier);
    let nf = g.len() as u64;
    let lf = g.iter().filter(|v| v.is_finite()).count() as u64;
    for op in FLOAT_ARITH.iter().chain(CMP.iter()) {
        // lit∘lit, var∘lit, lit∘var, var∘var
        n += lf * lf + nf * lf + lf * nf + nf * nf;
        if forms_of(op).len() == 6 {
            n += nf * nf + nf * lf;
        }
    }
    2 * n
}

impl Prop for C05 {
    fn id(&self) -> &'static str {
        "C05"
    }
    fn level(&self) -> &'static str {
        "translation_validation"
    }
    fn n_units(&self, tier: Tier) -> usize {
        ugen::universe(tier, Scope::Modelled).units(UNIT_SIZE).len() + grid_units(tier).len()
    }
    fn run_unit(&self, tier: Tier, unit: usize, out: &mut UnitOut) {
        let nu = ugen::universe(tier, Scope::Modelled).units(UNIT_SIZE).len();
        if unit < nu {
            uprog_unit(tier, unit, out);
        } else {
            let (kind, op, chunk) = grid_units(tier)[unit - nu];
            grid_unit(tier, kind, op, chunk, out);
        }
    }
    fn rule(&self, tier: Tier) -> String {
        let u = ugen::universe(tier, Scope::Modelled);
        format!(
            "(a) every program of U-prog ({} programs in {} strata) compiled with the peephole optimizer on and off, both runs compared (output, emits, end kind, traceback); \
             (b) operand grid: ints {:?} + {:?} on {} boundary values squared, floats {:?} + {:?} on {} values squared ({} without a literal spelling), operand forms {:?}, each with the optimizer on and off; \
             one evaluation = one compiled-and-run program; disagreements_checked = pairwise comparisons (1 per U-prog program, observations-1 per grid triple); \
             non-trivial = distinct programs (a) / distinct (op, a, b) triples (b)",
            u.total,
            u.parts.len(),
            INT_ARITH,
            CMP,
            int_grid(tier).len(),
            FLOAT_ARITH,
            CMP,
            float_grid(tier).len(),
            float_grid(tier).iter().filter(|v| !v.is_finite()).count(),
            FORMS
        )
    }
    fn assumptions(&self) -> Vec<String> {
        vec![
            "float results are compared bit for bit between forms (C16 owns the comparison with IEEE-754); integer results are also compared with C15's i128 model (negative exponents are unspecified there and then only cross-form equality is required)".into(),
            "negative literals are written parenthesised, so the open precedence finding of C31 (`-2 % 3`) is not touched".into(),
        ]
    }
    fn expected_evaluations(&self, tier: Tier) -> Option<u64> {
        Some(2 * ugen::formula_total(tier, Scope::Modelled) + grid_formula(tier))
    }
    fn min_classes(&self) -> usize {
        6
    }
}
