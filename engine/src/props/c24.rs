//! C24 — built-in equality, ordering and hashing are lawful.
//!
//! Universe: families of values of one type (bool, void, every tuple type of arity 2–4 over
//! bool/void with all its values, a few tuples with int/string/float/array/nested components,
//! arrays of bool/void/int/string/tuples/arrays, the C15 integer grid, a float boundary set incl.
//! infinities and NaNs (fed by the host and produced at run time), a structured string set).
//! One case = one unordered pair {x, y} (both directions of every operator, both hashes) or one
//! ordered triple (x, y, z); the case evaluates the operators in Abra in one of several operand
//! forms and emits the raw booleans/hashes; the laws are checked in Rust over the emitted table.
//! No reference order is assumed: only the laws of the property statement are asserted.

use crate::batch::{Case, CaseResult, run_cases};
use crate::drive::{COpts, Emit, End, Input, ROpts};
use crate::fw::{Prop, Tier, UnitOut, hkey};
use serde_json::json;

pub struct C24;

// ------------------------------------------------------------------ types and values

#[derive(Clone, Debug, PartialEq)]
pub enum Ty {
    Bool,
    Void,
    Int,
    Float,
    Str,
    Tup(Vec<Ty>),
    Arr(Box<Ty>),
}

#[derive(Clone, Debug, PartialEq)]
pub enum V {
    Bool(bool),
    Void,
    Int(i64),
    /// host-fed binary64 with exactly these bits
    Float(u64),
    /// float produced by the program at run time: "inf" = t*t, "-inf" = -(t*t) computed as 0.0 - t*t,
    /// "nan" = t*t - t*t with t = 1e200 fed by the host
    FloatMade(&'static str),
    Str(String),
    Tup(Vec<V>),
    Arr(Vec<V>),
}

impl Ty {
    pub fn src(&self) -> String {
        match self {
            Ty::Bool => "bool".into(),
            Ty::Void => "void".into(),
            Ty::Int => "int".into(),
            Ty::Float => "float".into(),
            Ty::Str => "string".into(),
            Ty::Tup(ts) => format!("({})", ts.iter().map(|t| t.src()).collect::<Vec<_>>().join(", ")),
            Ty::Arr(t) => format!("array<{}>", t.src()),
        }
    }
    /// the prelude implements Ord for this type (no Ord for arrays)
    fn has_ord(&self) -> bool {
        match self {
            Ty::Arr(_) => false,
            Ty::Tup(ts) => ts.iter().all(|t| t.has_ord()),
            _ => true,
        }
    }
    /// the prelude implements Hash for this type (no Hash for float)
    fn has_hash(&self) -> bool {
        match self {
            Ty::Float => false,
            Ty::Tup(ts) => ts.iter().all(|t| t.has_hash()),
            Ty::Arr(t) => t.has_hash(),
            _ => true,
        }
    }
}

impl V {
    /// human-readable, unambiguous description (used in case names)
    fn show(&self) -> String {
        match self {
            V::Bool(b) => format!("{b}"),
            V::Void => "nil".into(),
            V::Int(i) => format!("{i}"),
            V::Float(b) => format!("{:?}#{:016x}", f64::from_bits(*b), b),
            V::FloatMade(k) => format!("made-{k}"),
            V::Str(s) => format!("{s:?}"),
            V::Tup(vs) => format!("({})", vs.iter().map(|v| v.show()).collect::<Vec<_>>().join(", ")),
            V::Arr(vs) => format!("[{}]", vs.iter().map(|v| v.show()).collect::<Vec<_>>().join(", ")),
        }
    }
    /// can be written as an inline literal expression whose type is inferable on its own
    fn lit_ok(&self) -> bool {
        match self {
            V::Bool(_) | V::Void | V::Int(_) => true,
            V::Float(b) => {
                let f = f64::from_bits(*b);
                f == 0.5 || f == 1.0 || f == 2.5 || (f == 0.0 && f.is_sign_positive())
            }
            V::FloatMade(_) => false,
            V::Str(s) => s.chars().all(|c| c.is_ascii_alphanumeric() || c == ' '),
            V::Tup(vs) => vs.iter().all(|v| v.lit_ok()),
            V::Arr(vs) => !vs.is_empty() && vs.iter().all(|v| v.lit_ok()),
        }
    }
    fn lit(&self) -> String {
        match self {
            V::Bool(b) => format!("{b}"),
            V::Void => "nil".into(),
            V::Int(i) => crate::batch::int_lit(*i),
            V::Float(b) => format!("{:?}", f64::from_bits(*b)),
            V::FloatMade(_) => unreachable!(),
            V::Str(s) => format!("\"{s}\""),
            V::Tup(vs) => format!("({})", vs.iter().map(|v| v.lit()).collect::<Vec<_>>().join(", ")),
            V::Arr(vs) => format!("[{}]", vs.iter().map(|v| v.lit()).collect::<Vec<_>>().join(", ")),
        }
    }
    /// Emit `let` lines that build the value from host-fed leaves (so nothing can be folded) and
    /// return the expression naming it. `p` is a fresh identifier prefix.
    fn bind(&self, ty: &Ty, p: &str, lines: &mut Vec<String>, inputs: &mut Vec<Input>) -> String {
        match (self, ty) {
            (V::Bool(b), _) => {
                lines.push(format!("let {p} = vh_next_int() == 1"));
                inputs.push(Input::Int(*b as i64));
                p.to_string()
            }
            (V::Void, _) => "nil".into(),
            (V::Int(i), _) => {
                lines.push(format!("let {p} = vh_next_int()"));
                inputs.push(Input::Int(*i));
                p.to_string()
            }
            (V::Float(b), _) => {
                lines.push(format!("let {p} = vh_next_float()"));
                inputs.push(Input::Float(f64::from_bits(*b)));
                p.to_string()
            }
            (V::FloatMade(k), _) => {
                lines.push(format!("let {p}t = vh_next_float()"));
                inputs.push(Input::Float(1e200));
                lines.push(format!("let {p}u = {p}t * {p}t"));
                match *k {
                    "inf" => lines.push(format!("let {p} = {p}u")),
                    "-inf" => lines.push(format!("let {p} = 0.0 - {p}u")),
                    _ => lines.push(format!("let {p} = {p}u - {p}u")),
                }
                p.to_string()
            }
            (V::Str(s), _) => {
                lines.push(format!("let {p} = vh_next_str()"));
                inputs.push(Input::Str(s.clone()));
                p.to_string()
            }
            (V::Tup(vs), Ty::Tup(ts)) => {
                let parts: Vec<String> =
                    vs.iter().zip(ts).enumerate().map(|(i, (v, t))| v.bind(t, &format!("{p}c{i}"), lines, inputs)).collect();
                format!("({})", parts.join(", "))
            }
            (V::Arr(vs), Ty::Arr(t)) => {
                let parts: Vec<String> = vs.iter().enumerate().map(|(i, v)| v.bind(t, &format!("{p}e{i}"), lines, inputs)).collect();
                lines.push(format!("let {p}: {} = [{}]", ty.src(), parts.join(", ")));
                p.to_string()
            }
            _ => unreachable!("value/type mismatch"),
        }
    }
}

/// all sequences of length `len` over `alphabet`
fn product(alphabet: &[V], len: usize) -> Vec<Vec<V>> {
    let mut out: Vec<Vec<V>> = vec![vec![]];
    for _ in 0..len {
        let mut next = vec![];
        for pre in &out {
            for a in alphabet {
                let mut p = pre.clone();
                p.push(a.clone());
                next.push(p);
            }
        }
        out = next;
    }
    out
}

fn product_of(sets: &[Vec<V>]) -> Vec<Vec<V>> {
    let mut out: Vec<Vec<V>> = vec![vec![]];
    for s in sets {
        let mut next = vec![];
        for pre in &out {
            for a in s {
                let mut p = pre.clone();
                p.push(a.clone());
                next.push(p);
            }
        }
        out = next;
    }
    out
}

fn arrays_upto(alphabet: &[V], maxlen: usize) -> Vec<V> {
    let mut v = vec![];
    for l in 0..=maxlen {
        for s in product(alphabet, l) {
            v.push(V::Arr(s));
        }
    }
    v
}

pub struct Family {
    pub group: usize,
    pub ty: Ty,
    pub values: Vec<V>,
    /// indices of the values used for triples (≤ 16)
    pub triple: Vec<usize>,
}

const GROUPS: [&str; 7] = ["bool, void, tuples over bool/void of arity 2-3", "tuples over bool/void of arity 4", "tuples with int/string/float/array/nested components", "arrays", "int", "float", "string"];

fn values_of(t: &Ty) -> Vec<V> {
    match t {
        Ty::Bool => vec![V::Bool(false), V::Bool(true)],
        Ty::Void => vec![V::Void],
        _ => unreachable!(),
    }
}

fn float_values() -> Vec<V> {
    let mut v: Vec<V> = [
        0xFFF8_0000_0000_0000u64, // -qNaN
        f64::NEG_INFINITY.to_bits(),
        (-f64::MAX).to_bits(),
        (-1.0f64).to_bits(),
        (-0.0f64).to_bits(),
        0.0f64.to_bits(),
        1,                          // smallest subnormal
        f64::MIN_POSITIVE.to_bits(),
        0.5f64.to_bits(),
        1.0f64.to_bits(),
        (1.0f64 + f64::EPSILON).to_bits(),
        2.5f64.to_bits(),
        f64::MAX.to_bits(),
        f64::INFINITY.to_bits(),
        0x7FF8_0000_0000_0000, // +qNaN
        0x7FF8_0000_0000_0001, // +qNaN with payload
        0x7FF0_0000_0000_0001, // +sNaN
    ]
    .iter()
    .map(|b| V::Float(*b))
    .collect();
    v.push(V::FloatMade("inf"));
    v.push(V::FloatMade("-inf"));
    v.push(V::FloatMade("nan"));
    v
}

fn string_values() -> Vec<V> {
    ["", "a", "aa", "ab", "abc", "b", "B", " ", "a ", "e", "é", "z", "日", "日本", "\u{7f}", "\u{80}", "\u{10FFFF}"]
        .iter()
        .map(|s| V::Str(s.to_string()))
        .collect()
}

pub fn families(tier: Tier) -> Vec<Family> {
    let mut f = vec![];
    let all = |n: usize| (0..n).collect::<Vec<_>>();
    // group 0/1: scalars and every tuple type over {bool, void}
    for t in [Ty::Bool, Ty::Void] {
        let vals = values_of(&t);
        f.push(Family { group: 0, triple: all(vals.len()), ty: t, values: vals });
    }
    for arity in 2..=4usize {
        for mask in 0..(1u32 << arity) {
            let ts: Vec<Ty> = (0..arity).map(|i| if mask >> i & 1 == 1 { Ty::Bool } else { Ty::Void }).collect();
            let sets: Vec<Vec<V>> = ts.iter().map(values_of).collect();
            let vals: Vec<V> = product_of(&sets).into_iter().map(V::Tup).collect();
            f.push(Family { group: if arity == 4 { 1 } else { 0 }, triple: all(vals.len()), ty: Ty::Tup(ts), values: vals });
        }
    }
    // group 2: tuples with other components
    let ints3 = vec![V::Int(-1), V::Int(0), V::Int(1)];
    let strs3 = vec![V::Str("".into()), V::Str("a".into()), V::Str("ab".into())];
    let bools = values_of(&Ty::Bool);
    let mixed: Vec<(Ty, Vec<Vec<V>>)> = vec![
        (Ty::Tup(vec![Ty::Int, Ty::Str]), vec![ints3.clone(), strs3.clone()]),
        (Ty::Tup(vec![Ty::Str, Ty::Bool, Ty::Int]), vec![strs3[..2].to_vec(), bools.clone(), vec![V::Int(0), V::Int(1)]]),
        (Ty::Tup(vec![Ty::Int; 4]), vec![vec![V::Int(0), V::Int(1)]; 4]),
        (
            Ty::Tup(vec![Ty::Float, Ty::Void]),
            vec![
                vec![V::Float((-0.0f64).to_bits()), V::Float(0.0f64.to_bits()), V::Float(1.0f64.to_bits()), V::Float(0x7FF8_0000_0000_0000), V::FloatMade("nan")],
                vec![V::Void],
            ],
        ),
        (
            Ty::Tup(vec![Ty::Tup(vec![Ty::Bool, Ty::Void]), Ty::Bool]),
            vec![bools.iter().map(|b| V::Tup(vec![b.clone(), V::Void])).collect(), bools.clone()],
        ),
        (Ty::Tup(vec![Ty::Arr(Box::new(Ty::Bool)), Ty::Bool]), vec![arrays_upto(&bools, 1), bools.clone()]),
        (Ty::Tup(vec![Ty::Bool, Ty::Int]), vec![bools.clone(), vec![V::Int(i64::MIN), V::Int(0), V::Int(i64::MAX)]]),
    ];
    for (ty, sets) in mixed {
        let vals: Vec<V> = product_of(&sets).into_iter().map(V::Tup).collect();
        let n = vals.len().min(12);
        f.push(Family { group: 2, triple: all(n), ty, values: vals });
    }
    // group 3: arrays
    let arrs: Vec<(Ty, Vec<V>)> = vec![
        (Ty::Arr(Box::new(Ty::Bool)), arrays_upto(&bools, 2)),
        (Ty::Arr(Box::new(Ty::Void)), arrays_upto(&[V::Void], 2)),
        (Ty::Arr(Box::new(Ty::Int)), arrays_upto(&[V::Int(0), V::Int(1)], 2)),
        (Ty::Arr(Box::new(Ty::Str)), arrays_upto(&[V::Str("".into()), V::Str("a".into())], 2)),
        (Ty::Arr(Box::new(Ty::Tup(vec![Ty::Bool, Ty::Void]))), arrays_upto(&bools.iter().map(|b| V::Tup(vec![b.clone(), V::Void])).collect::<Vec<_>>(), 2)),
        (Ty::Arr(Box::new(Ty::Arr(Box::new(Ty::Bool)))), arrays_upto(&arrays_upto(&bools, 1), 2)),
        (Ty::Arr(Box::new(Ty::Float)), arrays_upto(&[V::Float((-0.0f64).to_bits()), V::Float(0.0f64.to_bits()), V::Float(0x7FF8_0000_0000_0000)], 1)),
    ];
    for (ty, vals) in arrs {
        let n = vals.len().min(12);
        f.push(Family { group: 3, triple: all(n), ty, values: vals });
    }
    // group 4: int
    let g = super::c15::grid();
    let sub: Vec<i64> = vec![i64::MIN, i64::MIN + 1, -4294967296, -2, -1, 0, 1, 2, 2147483648, 4294967296, i64::MAX - 1, i64::MAX];
    let triple: Vec<usize> = sub.iter().map(|s| g.iter().position(|x| x == s).expect("int subset value in grid")).collect();
    f.push(Family { group: 4, ty: Ty::Int, values: g.into_iter().map(V::Int).collect(), triple });
    // group 5: float
    let fv = float_values();
    let triple = vec![0, 1, 3, 4, 5, 6, 9, 12, 13, 14, 15, 19];
    f.push(Family { group: 5, ty: Ty::Float, values: fv, triple });
    // group 6: string
    let sv = string_values();
    let triple = vec![0, 1, 2, 3, 5, 6, 8, 9, 10, 12, 13, 16];
    f.push(Family { group: 6, ty: Ty::Str, values: sv, triple });
    if tier == Tier::Quick {
        // quick tier: triple subsets larger than 8 are thinned (positions not = 2 mod 3) and cut to 8
        for fam in f.iter_mut() {
            if fam.triple.len() > 8 {
                fam.triple = fam.triple.iter().enumerate().filter(|(p, _)| p % 3 != 2).map(|(_, i)| *i).take(8).collect();
            }
        }
    }
    f
}

// ------------------------------------------------------------------ operand forms

#[derive(Clone, Copy, PartialEq, Debug)]
pub enum Form {
    /// operators applied to variables holding run-time values
    Op,
    /// explicit interface calls `Equal.equal`, `Ord.less_than`, … (`!=` has no method: operator)
    Iface,
    /// operators inside generic functions constrained by the interface
    Generic,
    /// x is a variable, y an inline literal (immediate-operand instruction variants)
    VarLit,
    /// both operands inline literals (constant-folding path)
    LitLit,
}
const PAIR_FORMS: [Form; 5] = [Form::Op, Form::Iface, Form::Generic, Form::VarLit, Form::LitLit];

const GENERIC_DECLS: &str = "fn g_eq(a: T Equal, b: T Equal) -> bool { a == b }\n\
fn g_ne(a: T Equal, b: T Equal) -> bool { a != b }\n\
fn g_lt(a: T Ord, b: T Ord) -> bool { a < b }\n\
fn g_le(a: T Ord, b: T Ord) -> bool { a <= b }\n\
fn g_gt(a: T Ord, b: T Ord) -> bool { a > b }\n\
fn g_ge(a: T Ord, b: T Ord) -> bool { a >= b }\n\
fn g_hash(a: T Hash) -> int { Hash.hash(a) }";

fn opx(form: Form, op: &str, a: &str, b: &str) -> String {
    match form {
        Form::Iface => match op {
            "==" => format!("Equal.equal({a}, {b})"),
            "<" => format!("Ord.less_than({a}, {b})"),
            "<=" => format!("Ord.less_than_or_equal({a}, {b})"),
            ">" => format!("Ord.greater_than({a}, {b})"),
            ">=" => format!("Ord.greater_than_or_equal({a}, {b})"),
            _ => format!("{a} {op} {b}"),
        },
        Form::Generic => {
            let f = match op {
                "==" => "g_eq",
                "!=" => "g_ne",
                "<" => "g_lt",
                "<=" => "g_le",
                ">" => "g_gt",
                _ => "g_ge",
            };
            format!("{f}({a}, {b})")
        }
        _ => format!("{a} {op} {b}"),
    }
}
fn hashx(form: Form, a: &str) -> String {
    if form == Form::Generic { format!("g_hash({a})") } else { format!("Hash.hash({a})") }
}

fn applicable(form: Form, x: &V, y: &V) -> bool {
    match form {
        Form::VarLit => y.lit_ok(),
        Form::LitLit => x.lit_ok() && y.lit_ok(),
        _ => true,
    }
}

const ORD_OPS: [&str; 4] = ["<", "<=", ">", ">="];

fn pair_case(fam: &Family, i: usize, j: usize, form: Form) -> Case {
    let (x, y) = (&fam.values[i], &fam.values[j]);
    let mut lines = vec![];
    let mut inputs = vec![];
    let xs = if form == Form::LitLit {
        x.lit()
    } else {
        let e = x.bind(&fam.ty, "xx", &mut lines, &mut inputs);
        lines.push(format!("let xv: {} = {e}", fam.ty.src()));
        "xv".to_string()
    };
    let ys = if form == Form::LitLit || form == Form::VarLit {
        y.lit()
    } else {
        let e = y.bind(&fam.ty, "yy", &mut lines, &mut inputs);
        lines.push(format!("let yv: {} = {e}", fam.ty.src()));
        "yv".to_string()
    };
    let mut emit = |e: String| lines.push(format!("vh_emit_bool({e})"));
    emit(opx(form, "==", &xs, &ys));
    emit(opx(form, "==", &ys, &xs));
    emit(opx(form, "!=", &xs, &ys));
    emit(opx(form, "!=", &ys, &xs));
    emit(opx(form, "==", &xs, &xs));
    emit(opx(form, "==", &ys, &ys));
    if fam.ty.has_ord() {
        for (a, b) in [(&xs, &ys), (&ys, &xs)] {
            for op in ORD_OPS {
                emit(opx(form, op, a, b));
            }
        }
    }
    if fam.ty.has_hash() {
        lines.push(format!("vh_emit_int({})", hashx(form, &xs)));
        lines.push(format!("vh_emit_int({})", hashx(form, &ys)));
    }
    let name = format!("pair {}: x = {} ; y = {} [{:?}]", fam.ty.src(), x.show(), y.show(), form);
    let mut c = Case::new(name, lines.join("\n"));
    if form == Form::Generic {
        c = c.decl(GENERIC_DECLS);
    }
    c.inputs = inputs;
    c
}

fn triple_case(fam: &Family, i: usize, j: usize, k: usize, form: Form) -> Case {
    let vs = [&fam.values[i], &fam.values[j], &fam.values[k]];
    let mut lines = vec![];
    let mut inputs = vec![];
    let names = ["xv", "yv", "zv"];
    for (n, v) in vs.iter().enumerate() {
        let e = v.bind(&fam.ty, &format!("{}{}", names[n], names[n]), &mut lines, &mut inputs);
        lines.push(format!("let {}: {} = {e}", names[n], fam.ty.src()));
    }
    let mut ops = vec!["=="];
    if fam.ty.has_ord() {
        ops.extend(["<", "<="]);
    }
    for op in ops {
        for (a, b) in [(0, 1), (1, 2), (0, 2)] {
            lines.push(format!("vh_emit_bool({})", opx(form, op, names[a], names[b])));
        }
    }
    let name = format!("triple {}: x = {} ; y = {} ; z = {} [{:?}]", fam.ty.src(), vs[0].show(), vs[1].show(), vs[2].show(), form);
    let mut c = Case::new(name, lines.join("\n"));
    if form == Form::Generic {
        c = c.decl(GENERIC_DECLS);
    }
    c.inputs = inputs;
    c
}

// ------------------------------------------------------------------ laws

/// Failed laws of one pair observation. `b` = emitted booleans in the order of `pair_case`.
pub fn pair_laws(same: bool, has_ord: bool, b: &[bool], hashes: Option<(i64, i64)>) -> Vec<(&'static str, String)> {
    let mut f: Vec<(&'static str, String)> = vec![];
    let (e_xy, e_yx, n_xy, n_yx, e_xx, e_yy) = (b[0], b[1], b[2], b[3], b[4], b[5]);
    if !e_xx {
        f.push(("eq-reflexive", "x == x is false".into()));
    }
    if !e_yy {
        f.push(("eq-reflexive", "y == y is false".into()));
    }
    if same && !(e_xy && e_yx) {
        f.push(("eq-reflexive", "x and y are the same value but x == y is false".into()));
    }
    if e_xy != e_yx {
        f.push(("eq-symmetric", format!("x == y is {e_xy} but y == x is {e_yx}")));
    }
    if n_xy == e_xy {
        f.push(("ne-is-negation", format!("x == y is {e_xy} and x != y is {n_xy}")));
    }
    if n_yx == e_yx {
        f.push(("ne-is-negation", format!("y == x is {e_yx} and y != x is {n_yx}")));
    }
    if has_ord {
        let (lt_xy, le_xy, gt_xy, ge_xy, lt_yx, le_yx, gt_yx, ge_yx) = (b[6], b[7], b[8], b[9], b[10], b[11], b[12], b[13]);
        if [lt_xy, e_xy, gt_xy].iter().filter(|t| **t).count() != 1 {
            f.push(("trichotomy", format!("x < y = {lt_xy}, x == y = {e_xy}, x > y = {gt_xy}: not exactly one holds")));
        }
        if [lt_yx, e_yx, gt_yx].iter().filter(|t| **t).count() != 1 {
            f.push(("trichotomy", format!("y < x = {lt_yx}, y == x = {e_yx}, y > x = {gt_yx}: not exactly one holds")));
        }
        if le_xy != !lt_yx {
            f.push(("le-is-not-converse-lt", format!("x <= y is {le_xy} but y < x is {lt_yx}")));
        }
        if le_yx != !lt_xy {
            f.push(("le-is-not-converse-lt", format!("y <= x is {le_yx} but x < y is {lt_xy}")));
        }
        if ge_xy != le_yx {
            f.push(("ge-is-converse-le", format!("x >= y is {ge_xy} but y <= x is {le_yx}")));
        }
        if ge_yx != le_xy {
            f.push(("ge-is-converse-le", format!("y >= x is {ge_yx} but x <= y is {le_xy}")));
        }
        if gt_xy != lt_yx {
            f.push(("gt-is-converse-lt", format!("x > y is {gt_xy} but y < x is {lt_yx}")));
        }
        if gt_yx != lt_xy {
            f.push(("gt-is-converse-lt", format!("y > x is {gt_yx} but x < y is {lt_xy}")));
        }
    }
    if let Some((hx, hy)) = hashes {
        if (e_xy || e_yx) && hx != hy {
            f.push(("equal-implies-equal-hash", format!("x == y but Hash.hash(x) = {hx} and Hash.hash(y) = {hy}")));
        }
    }
    f
}

/// Failed laws of one triple observation; second result: at least one premise held (non-vacuous).
pub fn triple_laws(has_ord: bool, b: &[bool]) -> (Vec<(&'static str, String)>, bool) {
    let mut f: Vec<(&'static str, String)> = vec![];
    let mut premise = false;
    let (e_xy, e_yz, e_xz) = (b[0], b[1], b[2]);
    if e_xy && e_yz {
        premise = true;
        if !e_xz {
            f.push(("eq-transitive", "x == y and y == z but x == z is false".into()));
        }
    }
    if has_ord {
        let (lt_xy, lt_yz, lt_xz, le_xy, le_yz, le_xz) = (b[3], b[4], b[5], b[6], b[7], b[8]);
        if lt_xy && lt_yz {
            premise = true;
            if !lt_xz {
                f.push(("lt-transitive", "x < y and y < z but x < z is false".into()));
            }
        }
        if le_xy && le_yz {
            premise = true;
            if !le_xz {
                f.push(("le-transitive", "x <= y and y <= z but x <= z is false".into()));
            }
        }
        if e_xy && lt_yz {
            premise = true;
            if !lt_xz {
                f.push(("order-consistent-with-eq", "x == y and y < z but x < z is false".into()));
            }
        }
        if lt_xy && e_yz {
            premise = true;
            if !lt_xz {
                f.push(("order-consistent-with-eq", "x < y and y == z but x < z is false".into()));
            }
        }
    }
    (f, premise)
}

// ------------------------------------------------------------------ units

#[derive(Clone, Copy, Debug)]
struct UnitSpec {
    group: usize,
    triples: bool,
    form: Form,
    /// the cases of (group, kind, form) are cut into chunks of CHUNK cases, one unit each
    chunk: usize,
}
const CHUNK: usize = 500;

fn pair_forms(tier: Tier) -> Vec<Form> {
    tier.pick(vec![Form::Op, Form::Generic, Form::VarLit], PAIR_FORMS.to_vec())
}

fn triple_forms(tier: Tier) -> Vec<Form> {
    tier.pick(vec![Form::Op], vec![Form::Op, Form::Iface, Form::Generic])
}

fn units(tier: Tier) -> Vec<UnitSpec> {
    let fams = families(tier);
    let mut u = vec![];
    for group in 0..GROUPS.len() {
        let mut specs = vec![];
        for form in pair_forms(tier) {
            specs.push(UnitSpec { group, triples: false, form, chunk: 0 });
        }
        for form in triple_forms(tier) {
            specs.push(UnitSpec { group, triples: true, form, chunk: 0 });
        }
        for s in specs {
            let n = spec_count(&s, &fams) as usize;
            for chunk in 0..n.div_ceil(CHUNK).max(1) {
                u.push(UnitSpec { chunk, ..s });
            }
        }
    }
    u
}

fn unit_count(spec: &UnitSpec, fams: &[Family]) -> u64 {
    let n = spec_count(spec, fams) as usize;
    (n.saturating_sub(spec.chunk * CHUNK)).min(CHUNK) as u64
}

/// closed-form number of cases of (group, kind, form), all chunks together
fn spec_count(spec: &UnitSpec, fams: &[Family]) -> u64 {
    let mut n = 0u64;
    for fam in fams.iter().filter(|f| f.group == spec.group) {
        if spec.triples {
            n += (fam.triple.len() as u64).pow(3);
        } else {
            let lit: Vec<bool> = fam.values.iter().map(|v| v.lit_ok()).collect();
            for j in 0..fam.values.len() {
                n += match spec.form {
                    Form::VarLit => {
                        if lit[j] {
                            j as u64 + 1
                        } else {
                            0
                        }
                    }
                    Form::LitLit => {
                        if lit[j] {
                            lit[..=j].iter().filter(|b| **b).count() as u64
                        } else {
                            0
                        }
                    }
                    _ => j as u64 + 1,
                };
            }
        }
    }
    n
}

fn judge_case(out: &mut UnitOut, c: &Case, r: &CaseResult, fam: &Family, triple: bool, same: bool) {
    let fail = |out: &mut UnitOut, what: String, laws: Vec<&'static str>, detail: serde_json::Value, extra: Vec<String>| {
        let mut keys = vec![format!("input:{}", hkey(&c.name))];
        if !laws.is_empty() {
            let mut l = laws.clone();
            l.sort();
            l.dedup();
            keys.push(format!("laws:{}:{}", fam.ty.src(), l.join("+")));
        }
        keys.extend(extra);
        out.class("violation");
        out.violation(keys, format!("{}: {}", c.name, what), json!({"case": c.name, "program": c.standalone(), "inputs": format!("{:?}", c.inputs), "observed": detail}));
    };
    let o = match r {
        CaseResult::Diag(d) => return fail(out, format!("does not compile: {d}"), vec![], json!(d), vec![]),
        CaseResult::CompilerPanic(p) => return fail(out, format!("compiler panic at {}: {}", p.site, p.msg), vec![], json!(p.msg), vec![p.site_key()]),
        CaseResult::Ran(o) => o,
    };
    if o.end != End::Done {
        let extra = if let End::Fault(p) = &o.end { vec![p.site_key()] } else { vec![] };
        return fail(out, format!("comparison did not run to completion: {}", crate::batch::short_end(&o.end)), vec![], json!(format!("{:?}", o.end)), extra);
    }
    let mut bools = vec![];
    let mut ints = vec![];
    for e in &o.emits {
        match e {
            Emit::Bool(b) => bools.push(*b),
            Emit::Int(i) => ints.push(*i),
            _ => {}
        }
    }
    let has_ord = fam.ty.has_ord();
    let has_hash = fam.ty.has_hash();
    let (nb, ni) = if triple { (if has_ord { 9 } else { 3 }, 0) } else { (if has_ord { 14 } else { 6 }, if has_hash { 2 } else { 0 }) };
    if bools.len() != nb || ints.len() != ni || o.emits.len() != nb + ni {
        return fail(out, format!("unexpected emits {:?}", o.emits), vec![], json!(format!("{:?}", o.emits)), vec![]);
    }
    if triple {
        let (failed, premise) = triple_laws(has_ord, &bools);
        if premise {
            out.nontrivial_text(&c.name);
        }
        if failed.is_empty() {
            out.class(if premise { "triple:some-premise-holds" } else { "triple:all-premises-false" });
        } else {
            let what = failed.iter().map(|(l, d)| format!("{l}: {d}")).collect::<Vec<_>>().join("; ");
            fail(out, what, failed.iter().map(|x| x.0).collect(), json!({"booleans (==,<,<= on xy,yz,xz)": bools}), vec![]);
        }
    } else {
        out.nontrivial_text(&c.name);
        let hashes = if has_hash { Some((ints[0], ints[1])) } else { None };
        let failed = pair_laws(same, has_ord, &bools, hashes);
        if failed.is_empty() {
            let cls = if !has_ord {
                if bools[0] { "pair:equal (no Ord)" } else { "pair:unequal (no Ord)" }
            } else if bools[0] {
                "pair:x == y"
            } else if bools[6] {
                "pair:x < y"
            } else {
                "pair:x > y"
            };
            out.class(cls);
            if !same && bools[0] {
                out.count("distinct_values_comparing_equal", 1);
            }
            if has_hash && !bools[0] && ints[0] == ints[1] {
                out.count("unequal_values_with_equal_hash", 1);
            }
        } else {
            let what = failed.iter().map(|(l, d)| format!("{l}: {d}")).collect::<Vec<_>>().join("; ");
            fail(
                out,
                what,
                failed.iter().map(|x| x.0).collect(),
                json!({"booleans (x==y,y==x,x!=y,y!=x,x==x,y==y, then < <= > >= on xy, then on yx)": bools, "hashes": ints}),
                vec![],
            );
        }
    }
}

impl Prop for C24 {
    fn id(&self) -> &'static str {
        "C24"
    }
    fn level(&self) -> &'static str {
        "exploration"
    }
    fn n_units(&self, tier: Tier) -> usize {
        units(tier).len()
    }
    fn expected_evaluations(&self, tier: Tier) -> Option<u64> {
        let fams = families(tier);
        Some(units(tier).iter().map(|u| unit_count(u, &fams)).sum())
    }
    fn run_unit(&self, tier: Tier, unit: usize, out: &mut UnitOut) {
        let spec = units(tier)[unit];
        let fams = families(tier);
        let mut cases = vec![];
        // (family index, same-value flag)
        let mut meta: Vec<(usize, bool)> = vec![];
        for (fi, fam) in fams.iter().enumerate().filter(|(_, f)| f.group == spec.group) {
            if spec.triples {
                for &i in &fam.triple {
                    for &j in &fam.triple {
                        for &k in &fam.triple {
                            cases.push(triple_case(fam, i, j, k, spec.form));
                            meta.push((fi, false));
                        }
                    }
                }
            } else {
                for j in 0..fam.values.len() {
                    for i in 0..=j {
                        if applicable(spec.form, &fam.values[i], &fam.values[j]) {
                            cases.push(pair_case(fam, i, j, spec.form));
                            meta.push((fi, i == j));
                        }
                    }
                }
            }
        }
        assert_eq!(cases.len() as u64, spec_count(&spec, &fams), "closed-form count of unit {unit}");
        let lo = spec.chunk * CHUNK;
        let hi = (lo + CHUNK).min(cases.len());
        let cases = &cases[lo..hi];
        let meta = &meta[lo..hi];
        let n = cases.len().max(1);
        run_cases(out, lo as u64, cases, 125, COpts::default(), ROpts::default(), |out, k, c, r| {
            if k % (n / 2 + 1) == 0 {
                out.sample(json!({"case": c.name, "body": c.body, "inputs": format!("{:?}", c.inputs)}));
            }
            let (fi, same) = meta[k];
            judge_case(out, c, r, &fams[fi], spec.triples, same);
        });
    }
    fn rule(&self, tier: Tier) -> String {
        let fams = families(tier);
        let per_group: Vec<String> = (0..GROUPS.len())
            .map(|g| {
                let fs: Vec<&Family> = fams.iter().filter(|f| f.group == g).collect();
                format!(
                    "{}: {} types, {} values, {} unordered pairs, {} ordered triples",
                    GROUPS[g],
                    fs.len(),
                    fs.iter().map(|f| f.values.len()).sum::<usize>(),
                    fs.iter().map(|f| f.values.len() * (f.values.len() + 1) / 2).sum::<usize>(),
                    fs.iter().map(|f| f.triple.len().pow(3)).sum::<usize>()
                )
            })
            .collect();
        format!(
            "every unordered pair of values of each family (both operand orders of == != < <= > >=, x == x, y == y, both hashes) in operand forms {:?} \
             (literal forms only for values writable as a self-typed literal) and every ordered triple over the family's triple subset (thorough: ≤ 12 values, all values for the bool/void tuple types; quick: thinned to ≤ 8 values) in forms {:?}; \
             laws checked in Rust on the emitted booleans: == reflexive/symmetric/transitive, != is the negation, exactly one of < == >, x <= y iff not y < x, x >= y iff y <= x, x > y iff y < x, \
             < and <= transitive, < respects ==, equal values have equal hashes; Ord laws only for types with a prelude Ord (not arrays), hash law only for types with a prelude Hash (not float). \
             Families: {}. int = C15 grid (|B|={}); float = -qNaN, ±inf, ±MAX, ±1, ±0, min subnormal, MIN_POSITIVE, 0.5, 1+eps, 2.5, +qNaN, +qNaN payload 1, +sNaN fed by the host, \
             plus inf / -inf / NaN produced at run time by 1e200*1e200 and inf-inf; strings = empty, prefix-related, case, space, multi-byte (2,3,4-byte) values. \
             Non-trivial: every pair case; a triple case when at least one law premise holds.",
            pair_forms(tier),
            triple_forms(tier),
            per_group.join(" | "),
            super::c15::grid().len()
        )
    }
    fn assumptions(&self) -> Vec<String> {
        vec![
            "no reference order is imposed: any total order/equivalence satisfying the stated laws is accepted (e.g. -0.0 < 0.0 and NaN == NaN under a total float order)".into(),
            "the property's 'sampled int/float/string values' are replaced by enumerated boundary sets (no sampling)".into(),
            "values in the Op/Iface/Generic forms are built from host-fed leaves, so the comparisons cannot be constant-folded; VarLit/LitLit forms cover literal operands".into(),
        ]
    }
}
