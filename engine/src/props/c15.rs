//! C15 — integer arithmetic is exact or fails with the documented error.
//!
//! Full boundary grid B × B for every binary operator in six operand forms (literal/variable on
//! either side, compound assignment with a variable or literal right-hand side) and B for unary
//! minus; expected result from i128 arithmetic followed by a range check.

use crate::batch::{Case, CaseResult, int_lit, run_cases};
use crate::drive::{COpts, Emit, End, Input, ROpts};
use crate::fw::{Prop, Tier, UnitOut, hkey};
use serde_json::json;

pub struct C15;

pub fn grid() -> Vec<i64> {
    let mut v: Vec<i64> = vec![0, 1, -1, 2, -2, 3, -3, 7, -7, 10, 63, 64, 65];
    for k in [15u32, 16, 31, 32, 33, 62] {
        let p = 1i64 << k;
        v.extend([p, p - 1, p + 1, -p, -p + 1, -p - 1]);
    }
    v.extend([
        i64::MIN,
        i64::MIN + 1,
        i64::MAX,
        i64::MAX - 1,
        4294967296,
        4294967298,
        -4294967296,
        3037000499,
        3037000500,
        -3037000500,
    ]);
    v.sort();
    v.dedup();
    v
}

const OPS: [&str; 6] = ["+", "-", "*", "/", "%", "^"];
/// operand forms
const FORMS: [&str; 6] = ["var∘var", "lit∘lit", "var∘lit", "lit∘var", "var op= var", "var op= lit"];

#[derive(Clone, Debug, PartialEq)]
pub enum Exp {
    Val(i64),
    Err(&'static str),
    Unspecified,
}

pub fn model(op: &str, a: i64, b: i64) -> Exp {
    let (x, y) = (a as i128, b as i128);
    let fit = |r: i128| {
        if r >= i64::MIN as i128 && r <= i64::MAX as i128 { Exp::Val(r as i64) } else { Exp::Err("overflow") }
    };
    match op {
        "+" => fit(x + y),
        "-" => fit(x - y),
        "*" => fit(x * y),
        "/" => {
            if y == 0 {
                Exp::Err("div-zero")
            } else {
                fit(x / y) // i128 division truncates toward zero
            }
        }
        "%" => {
            if y == 0 {
                Exp::Err("div-zero")
            } else {
                fit(x.rem_euclid(y))
            }
        }
        "^" => {
            if y < 0 {
                return Exp::Unspecified;
            }
            // exact power by repeated multiplication with early exit
            if x == 0 {
                return Exp::Val(if y == 0 { 1 } else { 0 });
            }
            if x == 1 {
                return Exp::Val(1);
            }
            if x == -1 {
                return Exp::Val(if y % 2 == 0 { 1 } else { -1 });
            }
            if y > 64 {
                return Exp::Err("overflow");
            }
            let mut r: i128 = 1;
            for _ in 0..y {
                r *= x;
                if r > (i64::MAX as i128) * 4 || r < (i64::MIN as i128) * 4 {
                    return Exp::Err("overflow");
                }
            }
            fit(r)
        }
        _ => unreachable!(),
    }
}

fn make_case(op: &str, form: usize, a: i64, b: i64) -> Option<Case> {
    let (la, lb) = (int_lit(a), int_lit(b));
    let name = format!("int {a} {op} {b} [{}]", FORMS[form]);
    let (body, inputs) = match form {
        0 => (
            format!("let a = vh_next_int()\nlet b = vh_next_int()\nvh_emit_int(a {op} b)"),
            vec![Input::Int(a), Input::Int(b)],
        ),
        1 => (format!("vh_emit_int({la} {op} {lb})"), vec![]),
        2 => (format!("let a = vh_next_int()\nvh_emit_int(a {op} {lb})"), vec![Input::Int(a)]),
        3 => (format!("let b = vh_next_int()\nvh_emit_int({la} {op} b)"), vec![Input::Int(b)]),
        4 => {
            if op == "^" {
                return None;
            }
            (
                format!("var a = vh_next_int()\nlet b = vh_next_int()\na {op}= b\nvh_emit_int(a)"),
                vec![Input::Int(a), Input::Int(b)],
            )
        }
        _ => {
            if op == "^" {
                return None;
            }
            (format!("var a = vh_next_int()\na {op}= {lb}\nvh_emit_int(a)"), vec![Input::Int(a)])
        }
    };
    let mut c = Case::new(name, body);
    c.inputs = inputs;
    Some(c)
}

fn forms(tier: Tier) -> Vec<usize> {
    tier.pick(vec![0, 1, 5], vec![0, 1, 2, 3, 4, 5])
}

pub fn judge_int(out: &mut UnitOut, prop: &str, c: &Case, r: &CaseResult, exp: &Exp) {
    let _ = prop;
    let fail = |out: &mut UnitOut, observed: String, extra_keys: Vec<String>| {
        let mut keys = vec![format!("input:{}", hkey(&c.name))];
        keys.extend(extra_keys);
        out.class("violation");
        out.violation(
            keys,
            format!("{}: expected {:?}, observed {}", c.name, exp, observed),
            json!({"case": c.name, "program": c.standalone(), "inputs": format!("{:?}", c.inputs), "expected": format!("{exp:?}"), "observed": observed}),
        );
    };
    match r {
        CaseResult::Diag(d) => fail(out, format!("compile diagnostics: {d}"), vec![]),
        CaseResult::CompilerPanic(p) => fail(out, format!("compiler panic at {}: {}", p.site, p.msg), vec![p.site_key()]),
        CaseResult::Ran(o) => {
            let got = match (&o.end, o.emits.as_slice()) {
                (End::Done, [Emit::Int(v)]) => Exp::Val(*v),
                (End::Error { kind, .. }, []) if kind == "overflow" => Exp::Err("overflow"),
                (End::Error { kind, .. }, []) if kind == "div-zero" => Exp::Err("div-zero"),
                _ => {
                    if *exp != Exp::Unspecified || o.end.is_fault() {
                        let keys = match &o.end {
                            End::Fault(p) => vec![p.site_key()],
                            _ => vec![],
                        };
                        fail(out, format!("end={:?} emits={:?}", o.end, o.emits), keys);
                    } else {
                        out.class("unspecified");
                    }
                    return;
                }
            };
            if *exp == Exp::Unspecified {
                out.class("unspecified");
                return;
            }
            if got == *exp {
                out.class(match exp {
                    Exp::Val(_) => "value",
                    Exp::Err(k) => k,
                    Exp::Unspecified => "unspecified",
                });
            } else {
                fail(out, format!("{got:?}"), vec![]);
            }
        }
    }
}

impl Prop for C15 {
    fn id(&self) -> &'static str {
        "C15"
    }
    fn level(&self) -> &'static str {
        "exploration"
    }
    fn n_units(&self, tier: Tier) -> usize {
        OPS.len() * forms(tier).len() + 1
    }
    fn run_unit(&self, tier: Tier, unit: usize, out: &mut UnitOut) {
        let g = grid();
        let fs = forms(tier);
        let mut cases = vec![];
        let mut exps = vec![];
        if unit == OPS.len() * fs.len() {
            // unary minus: variable, literal, and negated parenthesised expression
            for a in &g {
                let e = model("-", 0, *a);
                let mut c = Case::new(format!("int -({a}) [var]"), "let a = vh_next_int()\nvh_emit_int(-a)");
                c.inputs = vec![Input::Int(*a)];
                cases.push(c);
                exps.push(e.clone());
                cases.push(Case::new(format!("int -({a}) [lit]"), format!("vh_emit_int(-{})", int_lit(*a))));
                exps.push(e.clone());
                let mut c = Case::new(format!("int -({a}) [0 - var]"), "let a = vh_next_int()\nvh_emit_int(0 - a)");
                c.inputs = vec![Input::Int(*a)];
                cases.push(c);
                exps.push(e.clone());
                // chains of unary minus: every step is a checked negation, so -(-MIN) stops with the overflow error
                let twice = match &e {
                    Exp::Val(v) => model("-", 0, *v),
                    other => other.clone(),
                };
                for (form, body) in [("-(-var)", "let a = vh_next_int()\nvh_emit_int(-(-a))"), ("- - var", "let a = vh_next_int()\nvh_emit_int(- - a)"), ("-(0 - var)", "let a = vh_next_int()\nvh_emit_int(-(0 - a))")] {
                    let mut c = Case::new(format!("int -(-({a})) [{form}]"), body);
                    c.inputs = vec![Input::Int(*a)];
                    cases.push(c);
                    exps.push(twice.clone());
                }
                let thrice = match &twice {
                    Exp::Val(v) => model("-", 0, *v),
                    other => other.clone(),
                };
                let mut c = Case::new(format!("int -(-(-({a}))) [var]"), "let a = vh_next_int()\nvh_emit_int(-(-(-a)))");
                c.inputs = vec![Input::Int(*a)];
                cases.push(c);
                exps.push(thrice);
            }
        } else {
            let op = OPS[unit / fs.len()];
            let form = fs[unit % fs.len()];
            for a in &g {
                for b in &g {
                    if let Some(c) = make_case(op, form, *a, *b) {
                        cases.push(c);
                        exps.push(model(op, *a, *b));
                    }
                }
            }
        }
        run_cases(out, 0, &cases, 400, COpts::default(), ROpts::default(), |out, k, c, r| {
            out.nontrivial_text(&c.name);
            if k % 997 == 0 {
                out.sample(json!({"case": c.name, "body": c.body, "expected": format!("{:?}", exps[k])}));
            }
            judge_int(out, "C15", c, r, &exps[k]);
        });
    }
    fn rule(&self, tier: Tier) -> String {
        format!(
            "full grid B×B, |B|={} boundary integers (0, ±1..±7, 2^k and 2^k±1 for k in 15,16,31,32,33,62, MIN, MIN+1, MAX, MAX-1, 2^32, 2^32+2, ±sqrt(MAX) neighbours) \
             × operators {:?} × operand forms {:?}, plus unary minus on B in three forms; expected value from i128 arithmetic + range check \
             (/ truncating, % Euclidean, ^ exact for exponent >= 0, negative exponents unspecified and not asserted); variables are fed by the host so nothing can be folded; \
             every case is distinct by construction and counted as non-trivial",
            grid().len(),
            OPS,
            forms(tier).iter().map(|f| FORMS[*f]).collect::<Vec<_>>()
        )
    }
    fn assumptions(&self) -> Vec<String> {
        vec!["the property's 'plus random 64-bit pairs' is replaced by the larger enumerated boundary grid (no sampling)".into()]
    }
}
