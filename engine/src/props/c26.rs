//! C26 — array operations match a list model and fail cleanly.
//!
//! Explicit-state search over operation histories of the real prelude/VM array: one host-driven
//! driver program per element type (int, string, array<int>, void); every transition replays its
//! whole history in a fresh Runtime and is compared, step by step (result of the operation and a
//! full dump of the array), with a Rust `Vec` model. States are merged on the model list contents
//! (capacity is not observable through the language). Out-of-range indices and `pop` on an empty
//! array must stop the program with a runtime error, never with a host panic.
//!
//! Thorough tier adds every straight-line program of <= 3 operations written with *literal*
//! indices and values (compiled in dispatcher batches) so the optimiser's immediate forms of the
//! array instructions are exercised as well.

use super::library_util::{Driver, emits_short, end_short, is_clean_runtime_error, sharded_bfs};
use crate::batch::{Case, CaseResult, run_cases};
use crate::drive::{COpts, Emit, End, Input, ROpts, Src};
use crate::fw::{Prop, Tier, UnitOut, hkey};
use serde_json::json;

pub struct C26;

/// at most this many violations are written out per unit (all are counted)
const MAX_RECORDED_PER_UNIT: usize = 300;

#[derive(Clone, Copy, PartialEq, Eq, Hash, Debug)]
pub enum Ty {
    Int,
    Str,
    Nested,
    Void,
}
const TYPES: [Ty; 4] = [Ty::Int, Ty::Str, Ty::Nested, Ty::Void];
impl Ty {
    fn abra(self) -> &'static str {
        match self {
            Ty::Int => "int",
            Ty::Str => "string",
            Ty::Nested => "array<int>",
            Ty::Void => "void",
        }
    }
}

#[derive(Clone, PartialEq, Eq, Hash, Debug)]
pub enum El {
    I(i64),
    S(String),
    A(Vec<i64>),
    N,
}

fn mk(ty: Ty, v: u8) -> El {
    match ty {
        Ty::Int => El::I(v as i64),
        Ty::Str => El::S(format!("k{v}")),
        Ty::Nested => El::A(vec![v as i64]),
        Ty::Void => El::N,
    }
}
fn show(e: &El) -> Emit {
    match e {
        El::I(v) => Emit::Int(*v),
        El::S(s) => Emit::Str(s.clone()),
        El::A(a) => Emit::Arr(a.clone()),
        El::N => Emit::Int(1),
    }
}
fn lit(e: &El) -> String {
    match e {
        El::I(v) => format!("{v}"),
        El::S(s) => format!("\"{s}\""),
        El::A(a) => format!("{a:?}"),
        El::N => "nil".into(),
    }
}

/// index expressions: -1, 0, 1, 2, len-1, len
#[derive(Clone, Copy, PartialEq, Eq, Hash, Debug)]
pub enum Ix {
    M1,
    I0,
    I1,
    I2,
    Last,
    Len,
}
const IXS: [Ix; 6] = [Ix::M1, Ix::I0, Ix::I1, Ix::I2, Ix::Last, Ix::Len];
impl Ix {
    /// None when the symbolic index coincides with one of the literal ones (pruned duplicate)
    fn resolve(self, len: usize) -> Option<i64> {
        let l = len as i64;
        match self {
            Ix::M1 => Some(-1),
            Ix::I0 => Some(0),
            Ix::I1 => Some(1),
            Ix::I2 => Some(2),
            Ix::Last => {
                if l - 1 > 2 {
                    Some(l - 1)
                } else {
                    None
                }
            }
            Ix::Len => {
                if l > 2 {
                    Some(l)
                } else {
                    None
                }
            }
        }
    }
}

#[derive(Clone, PartialEq, Eq, Hash, Debug)]
pub enum Op {
    /// start state: 0 = `[]`, 1 = `[mk(0)]`, 2 = `[mk(0), mk(1), mk(0)]` (array literals)
    Start(u8),
    Push(u8),
    Pop,
    Len,
    IsEmpty,
    Get(Ix),
    Set(Ix, u8),
    Swap(Ix, Ix),
    Remove(Ix),
    Clear,
    Find(u8),
    Contains(u8),
    /// c = a.clone(); mutate c (and, for array<int> elements, every inner array of c); dump c
    CloneMut,
    /// `for x in a` and `for i in a.len()`
    Iterate,
    /// a = array.filled(mk(v), n)
    Filled(u8, u8),
    /// a[i].push(5) (element type array<int> only)
    InnerPush(Ix),
}

fn alphabet() -> Vec<Op> {
    let mut v = vec![Op::Push(0), Op::Push(1), Op::Pop, Op::Len, Op::IsEmpty];
    for i in IXS {
        v.push(Op::Get(i));
    }
    for i in IXS {
        for x in 0..2 {
            v.push(Op::Set(i, x));
        }
    }
    for i in IXS {
        for j in IXS {
            v.push(Op::Swap(i, j));
        }
    }
    for i in IXS {
        v.push(Op::Remove(i));
    }
    v.push(Op::Clear);
    for x in 0..2 {
        v.push(Op::Find(x));
    }
    for x in 0..2 {
        v.push(Op::Contains(x));
    }
    v.push(Op::CloneMut);
    v.push(Op::Iterate);
    for x in 0..2 {
        for n in 0..3 {
            v.push(Op::Filled(x, n));
        }
    }
    for i in IXS {
        v.push(Op::InnerPush(i));
    }
    v
}

#[derive(Clone, Debug, PartialEq)]
enum ErrKind {
    Oob,
    PopEmpty,
}

enum Step {
    /// emits of the operation itself (the dump of `a` follows), and for `remove` the alternative
    /// (order-preserving) resulting list when it differs from the swap-remove result
    Ok(Vec<Emit>, Option<Vec<El>>),
    Err(ErrKind),
    /// not part of the alphabet in this state / for this element type
    Pruned,
}

fn dump(list: &[El]) -> Vec<Emit> {
    let mut v = vec![Emit::Int(list.len() as i64)];
    v.extend(list.iter().map(show));
    v
}

const NONE_CODE: i64 = -1000;

/// The reference model: one operation on a Rust Vec.
fn step(ty: Ty, a: &mut Vec<El>, op: &Op) -> Step {
    let len = a.len();
    let inr = |i: i64| i >= 0 && (i as usize) < len;
    match op {
        Op::Start(s) => {
            *a = match s {
                0 => vec![],
                1 => vec![mk(ty, 0)],
                _ => vec![mk(ty, 0), mk(ty, 1), mk(ty, 0)],
            };
            Step::Ok(vec![], None)
        }
        Op::Push(v) => {
            if ty == Ty::Void && *v == 1 {
                return Step::Pruned;
            }
            a.push(mk(ty, *v));
            Step::Ok(vec![], None)
        }
        Op::Pop => match a.pop() {
            Some(x) => Step::Ok(vec![show(&x)], None),
            None => Step::Err(ErrKind::PopEmpty),
        },
        Op::Len => Step::Ok(vec![Emit::Int(len as i64)], None),
        Op::IsEmpty => Step::Ok(vec![Emit::Bool(len == 0)], None),
        Op::Get(ix) => {
            let Some(i) = ix.resolve(len) else { return Step::Pruned };
            if !inr(i) {
                return Step::Err(ErrKind::Oob);
            }
            Step::Ok(vec![show(&a[i as usize])], None)
        }
        Op::Set(ix, v) => {
            if ty == Ty::Void && *v == 1 {
                return Step::Pruned;
            }
            let Some(i) = ix.resolve(len) else { return Step::Pruned };
            if !inr(i) {
                return Step::Err(ErrKind::Oob);
            }
            a[i as usize] = mk(ty, *v);
            Step::Ok(vec![], None)
        }
        Op::Swap(ix, jx) => {
            let (Some(i), Some(j)) = (ix.resolve(len), jx.resolve(len)) else { return Step::Pruned };
            if !inr(i) || !inr(j) {
                return Step::Err(ErrKind::Oob);
            }
            a.swap(i as usize, j as usize);
            Step::Ok(vec![], None)
        }
        Op::Remove(ix) => {
            let Some(i) = ix.resolve(len) else { return Step::Pruned };
            if !inr(i) {
                // includes every index on an empty array
                return Step::Err(ErrKind::Oob);
            }
            let mut shifted = a.clone();
            shifted.remove(i as usize);
            a.swap_remove(i as usize);
            let alt = if shifted != *a { Some(shifted) } else { None };
            Step::Ok(vec![], alt)
        }
        Op::Clear => {
            a.clear();
            Step::Ok(vec![], None)
        }
        Op::Find(v) => {
            if ty == Ty::Void && *v == 1 {
                return Step::Pruned;
            }
            let x = mk(ty, *v);
            let r = a.iter().position(|e| *e == x).map(|p| p as i64).unwrap_or(NONE_CODE);
            Step::Ok(vec![Emit::Int(r)], None)
        }
        Op::Contains(v) => {
            if ty == Ty::Void && *v == 1 {
                return Step::Pruned;
            }
            let x = mk(ty, *v);
            Step::Ok(vec![Emit::Bool(a.contains(&x))], None)
        }
        Op::CloneMut => {
            let mut c = a.clone();
            if ty == Ty::Nested {
                for e in c.iter_mut() {
                    if let El::A(inner) = e {
                        inner.push(7);
                    }
                }
            }
            c.push(mk(ty, 1));
            c[0] = mk(ty, 1);
            Step::Ok(dump(&c), None)
        }
        Op::Iterate => {
            let mut v = vec![Emit::Int(-7)];
            v.extend(a.iter().map(show));
            v.push(Emit::Int(-8));
            v.extend(a.iter().map(show));
            Step::Ok(v, None)
        }
        Op::Filled(v, n) => {
            if ty == Ty::Void && *v == 1 {
                return Step::Pruned;
            }
            *a = (0..*n).map(|_| mk(ty, *v)).collect();
            Step::Ok(vec![], None)
        }
        Op::InnerPush(ix) => {
            if ty != Ty::Nested {
                return Step::Pruned;
            }
            let Some(i) = ix.resolve(len) else { return Step::Pruned };
            if !inr(i) {
                return Step::Err(ErrKind::Oob);
            }
            if let El::A(inner) = &mut a[i as usize] {
                if inner.len() >= 2 {
                    return Step::Pruned; // keeps the element domain finite
                }
                inner.push(5);
            }
            Step::Ok(vec![], None)
        }
    }
}

#[derive(Hash, PartialEq, Eq)]
enum Key {
    List(Vec<El>),
    Error,
}

/// State key from the history alone: the model list, or the single terminal error state.
fn key(ty: Ty, h: &[Op]) -> Option<Key> {
    let mut a = vec![];
    for (n, op) in h.iter().enumerate() {
        match step(ty, &mut a, op) {
            Step::Ok(..) => {}
            Step::Pruned => return None,
            Step::Err(_) => {
                // an error ends the program: only allowed as the last operation
                return if n + 1 == h.len() { Some(Key::Error) } else { None };
            }
        }
    }
    Some(Key::List(a))
}

// ------------------------------------------------------------------ driver program

fn driver_text(ty: Ty) -> String {
    let elem = ty.abra();
    let mk = match ty {
        Ty::Int => "v",
        Ty::Str => "\"k\" .. v",
        Ty::Nested => "[v]",
        Ty::Void => "nil",
    };
    let show = match ty {
        Ty::Int => "vh_emit_int(x)",
        Ty::Str => "vh_emit_str(x)",
        Ty::Nested => "vh_emit_arr(x)",
        Ty::Void => "if x == nil {\n        vh_emit_int(1)\n    } else {\n        vh_emit_int(0)\n    }",
    };
    let inner_mut = if ty == Ty::Nested {
        "        var q = 0\n        while q < a.len() {\n            c[q].push(7)\n            q = q + 1\n        }\n"
    } else {
        ""
    };
    let inner_push = if ty == Ty::Nested {
        "    } else if op == 16 {\n        let i = vh_next_int()\n        a[i].push(5)\n"
    } else {
        ""
    };
    // the argument of `filled` is kept in a variable and mutated afterwards: no slot of the result may be the
    // argument itself (independent copies), which the dump at the end of the step shows
    let filled_alias = if ty == Ty::Nested { "        x.push(9)\n" } else { "" };
    format!(
        r#"use vh
fn mk(v: int) -> {elem} {{
    {mk}
}}
fn show(x: {elem}) -> void {{
    {show}
}}
fn dump(a: array<{elem}>) -> void {{
    vh_emit_int(a.len())
    var i = 0
    while i < a.len() {{
        show(a[i])
        i = i + 1
    }}
}}
let start = vh_next_int()
var a: array<{elem}> = []
if start == 1 {{
    a = [mk(0)]
}} else if start == 2 {{
    a = [mk(0), mk(1), mk(0)]
}}
dump(a)
while true {{
    let op = vh_next_int()
    if op == 0 {{
        break
    }} else if op == 1 {{
        a.push(mk(vh_next_int()))
    }} else if op == 2 {{
        show(a.pop())
    }} else if op == 3 {{
        vh_emit_int(a.len())
    }} else if op == 4 {{
        vh_emit_bool(a.is_empty())
    }} else if op == 5 {{
        let i = vh_next_int()
        show(a[i])
    }} else if op == 6 {{
        let i = vh_next_int()
        let v = vh_next_int()
        a[i] = mk(v)
    }} else if op == 7 {{
        let i = vh_next_int()
        let j = vh_next_int()
        a.swap(i, j)
    }} else if op == 8 {{
        let i = vh_next_int()
        a.remove(i)
    }} else if op == 9 {{
        a.clear()
    }} else if op == 10 {{
        match a.find(mk(vh_next_int())) {{
            .some(i) -> vh_emit_int(i)
            .none -> vh_emit_int({NONE_CODE})
        }}
    }} else if op == 11 {{
        vh_emit_bool(a.contains(mk(vh_next_int())))
    }} else if op == 12 {{
        let c = a.clone()
{inner_mut}        c.push(mk(1))
        c[0] = mk(1)
        dump(c)
    }} else if op == 13 {{
        vh_emit_int(-7)
        for x in a {{
            show(x)
        }}
        vh_emit_int(-8)
        for i in a.len() {{
            show(a[i])
        }}
    }} else if op == 14 {{
        let v = vh_next_int()
        let n = vh_next_int()
        let x = mk(v)
        a = array.filled(x, n)
{filled_alias}{inner_push}    }}
    dump(a)
}}
"#
    )
}

/// host input stream for a history, indices resolved against the model
fn inputs_for(ty: Ty, h: &[Op]) -> Vec<Input> {
    let mut a = vec![];
    let mut v: Vec<i64> = vec![];
    for op in h {
        let len = a.len();
        let r = |ix: &Ix| ix.resolve(len).unwrap_or(-99);
        match op {
            Op::Start(s) => v.push(*s as i64),
            Op::Push(x) => v.extend([1, *x as i64]),
            Op::Pop => v.push(2),
            Op::Len => v.push(3),
            Op::IsEmpty => v.push(4),
            Op::Get(i) => v.extend([5, r(i)]),
            Op::Set(i, x) => v.extend([6, r(i), *x as i64]),
            Op::Swap(i, j) => v.extend([7, r(i), r(j)]),
            Op::Remove(i) => v.extend([8, r(i)]),
            Op::Clear => v.push(9),
            Op::Find(x) => v.extend([10, *x as i64]),
            Op::Contains(x) => v.extend([11, *x as i64]),
            Op::CloneMut => v.push(12),
            Op::Iterate => v.push(13),
            Op::Filled(x, n) => v.extend([14, *x as i64, *n as i64]),
            Op::InnerPush(i) => v.extend([16, r(i)]),
        }
        let _ = step(ty, &mut a, op);
    }
    v.push(0);
    v.into_iter().map(Input::Int).collect()
}

/// readable history with resolved indices, and a standalone program for reproduction
fn describe(ty: Ty, h: &[Op]) -> (String, String) {
    let mut a = vec![];
    let mut words = vec![];
    let e = ty.abra();
    let mut prog = String::new();
    let m = |v: &u8| lit(&mk(ty, *v));
    for op in h {
        let len = a.len();
        let r = |ix: &Ix| ix.resolve(len).unwrap_or(-99);
        let (w, line) = match op {
            Op::Start(_) => {
                let _ = step(ty, &mut a, op);
                let l = format!("[{}]", a.iter().map(lit).collect::<Vec<_>>().join(", "));
                words.push(format!("start {l}"));
                prog.push_str(&format!("var a: array<{e}> = {l}\n"));
                continue;
            }
            Op::Push(x) => (format!("push {}", m(x)), format!("a.push({})", m(x))),
            Op::Pop => ("pop".into(), "println(a.pop())".into()),
            Op::Len => ("len".into(), "println(a.len())".into()),
            Op::IsEmpty => ("is_empty".into(), "println(a.is_empty())".into()),
            Op::Get(i) => (format!("get {}", r(i)), format!("println(a[{}])", r(i))),
            Op::Set(i, x) => (format!("set {} {}", r(i), m(x)), format!("a[{}] = {}", r(i), m(x))),
            Op::Swap(i, j) => (format!("swap {} {}", r(i), r(j)), format!("a.swap({}, {})", r(i), r(j))),
            Op::Remove(i) => (format!("remove {}", r(i)), format!("a.remove({})", r(i))),
            Op::Clear => ("clear".into(), "a.clear()".into()),
            Op::Find(x) => (format!("find {}", m(x)), format!("println(a.find({}))", m(x))),
            Op::Contains(x) => (format!("contains {}", m(x)), format!("println(a.contains({}))", m(x))),
            Op::CloneMut => (
                "clone-then-mutate-clone".into(),
                format!(
                    "let c = a.clone()\n{}c.push({})\nc[0] = {}\nprintln(c)",
                    if ty == Ty::Nested { "for i in a.len() {\n    c[i].push(7)\n}\n" } else { "" },
                    m(&1),
                    m(&1)
                ),
            ),
            Op::Iterate => ("iterate".into(), "for x in a {\n    println(x)\n}".into()),
            Op::Filled(x, n) => (
                format!("filled {} {n}", m(x)),
                format!("let x{k} = {}\na = array.filled(x{k}, {n}){}", m(x), if ty == Ty::Nested { format!("\nx{}.push(9)", words.len()) } else { String::new() }, k = words.len()),
            ),
            Op::InnerPush(i) => (format!("inner-push {}", r(i)), format!("a[{}].push(5)", r(i))),
        };
        words.push(w);
        prog.push_str(&line);
        prog.push_str("\nprintln(a)\n");
        let _ = step(ty, &mut a, op);
    }
    (format!("array<{e}>: {}", words.join("; ")), prog)
}

fn op_name(op: &Op) -> &'static str {
    match op {
        Op::Start(_) => "start",
        Op::Push(_) => "push",
        Op::Pop => "pop",
        Op::Len => "len",
        Op::IsEmpty => "is_empty",
        Op::Get(_) => "get",
        Op::Set(..) => "set",
        Op::Swap(..) => "swap",
        Op::Remove(_) => "remove",
        Op::Clear => "clear",
        Op::Find(_) => "find",
        Op::Contains(_) => "contains",
        Op::CloneMut => "clone",
        Op::Iterate => "iterate",
        Op::Filled(..) => "filled",
        Op::InnerPush(_) => "inner-push",
    }
}

/// Replay one history on the real VM and compare with the model on every step.
fn exec(d: &Driver, ty: Ty, h: &[Op], out: &mut UnitOut) {
    let (text, prog) = describe(ty, h);
    out.describe_case(&text);
    // model: expected emits per step
    let mut a: Vec<El> = vec![];
    let mut steps: Vec<(Vec<Emit>, Option<Vec<Emit>>)> = vec![]; // (expected, alternative) per completed step
    let mut err: Option<ErrKind> = None;
    let mut changed = false;
    for op in h {
        let before = a.clone();
        match step(ty, &mut a, op) {
            Step::Ok(mut e, alt) => {
                let alt_emits = alt.map(|l| {
                    let mut x = e.clone();
                    x.extend(dump(&l));
                    x
                });
                e.extend(dump(&a));
                steps.push((e, alt_emits));
                if a != before && !matches!(op, Op::Start(_)) {
                    changed = true;
                }
            }
            Step::Err(k) => {
                err = Some(k);
                break;
            }
            Step::Pruned => unreachable!("pruned history reached exec"),
        }
    }
    if changed || err.is_some() {
        out.nontrivial_text(&text);
    }
    let r = d.run(inputs_for(ty, h), 2_000_000);
    let got = &r.host.emits;
    // walk the observed emits step by step
    let mut pos = 0usize;
    let mut diverged_at: Option<usize> = None;
    let mut why = String::new();
    for (n, (exp, alt)) in steps.iter().enumerate() {
        let seg_end = (pos + exp.len()).min(got.len());
        let seg = &got[pos..seg_end];
        if seg == exp.as_slice() {
            pos += exp.len();
            continue;
        }
        if let Some(alt) = alt {
            let e2 = (pos + alt.len()).min(got.len());
            if &got[pos..e2] == alt.as_slice() {
                // an order-preserving remove: the manual does not say which element order results
                out.class("remove: order-preserving result (unspecified, rest of history not compared)");
                return;
            }
        }
        diverged_at = Some(n);
        why = format!(
            "step {n} ({}): expected {} observed {}{}",
            op_name(&h[n]),
            emits_short(exp),
            emits_short(&got[pos..got.len().min(pos + exp.len() + 2)]),
            if got.len() < pos + exp.len() { format!(" then end {}", end_short(&r.end)) } else { String::new() }
        );
        break;
    }
    let last = h.len() - 1;
    if diverged_at.is_none() {
        // all completed steps agree; now the end of the run
        let end_ok = match &err {
            None => r.end == End::Done && got.len() == pos,
            Some(ErrKind::Oob) => matches!(&r.end, End::Error { kind, .. } if kind == "array-oob") && got.len() == pos,
            Some(ErrKind::PopEmpty) => is_clean_runtime_error(&r.end) && got.len() == pos,
        };
        if !end_ok {
            let at = if err.is_some() { steps.len() } else { last };
            diverged_at = Some(at.min(last));
            why = match &err {
                None => format!("program should finish; observed end {} with extra emits {}", end_short(&r.end), emits_short(&got[pos.min(got.len())..])),
                Some(ErrKind::Oob) => format!(
                    "step {} ({}) must stop with the runtime error `indexed past the end of an array`; observed end {} emits-after {}",
                    steps.len(),
                    op_name(&h[steps.len().min(last)]),
                    end_short(&r.end),
                    emits_short(&got[pos.min(got.len())..])
                ),
                Some(ErrKind::PopEmpty) => format!(
                    "step {} (pop on an empty array) must stop with a runtime error, not crash the host; observed end {} emits-after {}",
                    steps.len(),
                    end_short(&r.end),
                    emits_short(&got[pos.min(got.len())..])
                ),
            };
        }
    }
    if r.host.input_error.is_some() && diverged_at.is_none() {
        diverged_at = Some(last);
        why = format!("driver protocol error: {:?}", r.host.input_error);
    }
    match diverged_at {
        None => {
            let lastop = op_name(&h[last]);
            let c = match &err {
                None => format!("{lastop}: ok"),
                Some(ErrKind::Oob) => format!("{lastop}: out-of-range runtime error"),
                Some(ErrKind::PopEmpty) => format!("{lastop}: empty-array runtime error"),
            };
            out.class(&c);
            if h.len() >= 3 && out.samples.len() < 3 && matches!(h[last], Op::Swap(..) | Op::CloneMut | Op::Remove(_)) {
                out.sample(json!({"history": text, "observed_emits": emits_short(got), "end": r.end.class()}));
            }
        }
        Some(n) if n < last => {
            // the same divergence is reported by the shorter history that ends at step n
            out.class("diverged at an earlier step (reported by the prefix history)");
        }
        Some(_) => {
            out.class("violation");
            if out.violations.len() >= MAX_RECORDED_PER_UNIT {
                out.count("violations_counted_but_not_recorded (per-unit cap)", 1);
                return;
            }
            let mut keys = vec![format!("input:{}", hkey(&text))];
            if let End::Fault(p) = &r.end {
                keys.push(p.site_key());
            }
            // stratum key: element type, failing operation, how the run ended
            keys.push(format!("class:array<{}>:{}:{}", ty.abra(), op_name(&h[last]), r.end.class()));
            keys.push(format!("class:array<{}>:*:{}", ty.abra(), r.end.class()));
            out.violation(
                keys,
                format!("{text} => {why}"),
                json!({
                    "history": text,
                    "standalone_program": prog,
                    "expected": steps.iter().map(|s| emits_short(&s.0)).collect::<Vec<_>>(),
                    "expected_end": match &err { None => "done", Some(ErrKind::Oob) => "runtime error: indexed past the end of an array", Some(ErrKind::PopEmpty) => "a runtime error" },
                    "observed_emits": emits_short(got),
                    "observed_end": end_short(&r.end),
                    "why": why,
                    "note": "emits per step: result of the operation, then len and every element of the array",
                }),
            );
        }
    }
}

// ------------------------------------------------------------------ straight-line literal family

const LIT_OPS: [&str; 25] = [
    "a.push(0)",
    "a.push(1)",
    "vh_emit_int(a.pop())",
    "vh_emit_int(a.len())",
    "vh_emit_bool(a.is_empty())",
    "vh_emit_int(a[-1])",
    "vh_emit_int(a[0])",
    "vh_emit_int(a[1])",
    "vh_emit_int(a[2])",
    "vh_emit_int(a[3])",
    "a[-1] = 7",
    "a[0] = 7",
    "a[1] = 7",
    "a[2] = 7",
    "a[3] = 7",
    "a.swap(0, 1)",
    "a.swap(0, 2)",
    "a.swap(1, 3)",
    "a.swap(-1, 0)",
    "a.remove(0)",
    "a.remove(1)",
    "a.remove(3)",
    "a.clear()",
    "vh_emit_bool(a.contains(1))",
    "vh_emit_int(match a.find(0) {\n.some(i) -> i\n.none -> -1000\n})",
];
const LIT_STARTS: [&str; 3] = ["[]", "[0]", "[0, 1, 0]"];
const LIT_PER_UNIT: usize = 800;

fn lit_raw_total() -> usize {
    let k = LIT_OPS.len();
    LIT_STARTS.len() * (1 + k + k * k + k * k * k)
}

/// the n-th straight-line program: (start, op indices)
fn lit_raw_case(n: usize) -> (usize, Vec<usize>) {
    let k = LIT_OPS.len();
    let per_start = 1 + k + k * k + k * k * k;
    let s = n / per_start;
    let mut r = n % per_start;
    let mut len = 0;
    let mut block = 1;
    while r >= block {
        r -= block;
        block *= k;
        len += 1;
    }
    let mut ops = vec![0; len];
    for i in (0..len).rev() {
        ops[i] = r % k;
        r /= k;
    }
    (s, ops)
}

/// All straight-line programs of <= 3 operations in which only the LAST operation may fail
/// (a program whose earlier operation fails behaves like its own prefix, which is enumerated).
fn lit_cases() -> Vec<(usize, Vec<usize>)> {
    let mut v = vec![];
    for n in 0..lit_raw_total() {
        let (s, ops) = lit_raw_case(n);
        if !ops.is_empty() && lit_model(s, &ops[..ops.len() - 1]).1.is_some() {
            continue;
        }
        v.push((s, ops));
    }
    v
}

fn lit_model(start: usize, ops: &[usize]) -> (Vec<Emit>, Option<ErrKind>) {
    let mut a: Vec<i64> = match start {
        0 => vec![],
        1 => vec![0],
        _ => vec![0, 1, 0],
    };
    let mut em = vec![Emit::Arr(a.clone())];
    let get = |a: &Vec<i64>, i: i64| -> Option<i64> { if i >= 0 && (i as usize) < a.len() { Some(a[i as usize]) } else { None } };
    for o in ops {
        match *o {
            0 => a.push(0),
            1 => a.push(1),
            2 => match a.pop() {
                Some(x) => em.push(Emit::Int(x)),
                None => return (em, Some(ErrKind::PopEmpty)),
            },
            3 => em.push(Emit::Int(a.len() as i64)),
            4 => em.push(Emit::Bool(a.is_empty())),
            5..=9 => match get(&a, *o as i64 - 6) {
                Some(x) => em.push(Emit::Int(x)),
                None => return (em, Some(ErrKind::Oob)),
            },
            10..=14 => {
                let i = *o as i64 - 11;
                if get(&a, i).is_none() {
                    return (em, Some(ErrKind::Oob));
                }
                a[i as usize] = 7;
            }
            15..=18 => {
                let (i, j) = [(0, 1), (0, 2), (1, 3), (-1, 0)][*o - 15];
                if get(&a, i).is_none() || get(&a, j).is_none() {
                    return (em, Some(ErrKind::Oob));
                }
                a.swap(i as usize, j as usize);
            }
            19..=21 => {
                let i = [0i64, 1, 3][*o - 19];
                if get(&a, i).is_none() {
                    return (em, Some(ErrKind::Oob));
                }
                a.swap_remove(i as usize);
            }
            22 => a.clear(),
            23 => em.push(Emit::Bool(a.contains(&1))),
            _ => em.push(Emit::Int(a.iter().position(|x| *x == 0).map(|p| p as i64).unwrap_or(-1000))),
        }
        em.push(Emit::Arr(a.clone()));
    }
    (em, None)
}

fn run_literal_unit(part: usize, out: &mut UnitOut) {
    let all = lit_cases();
    let lo = part * LIT_PER_UNIT;
    let hi = ((part + 1) * LIT_PER_UNIT).min(all.len());
    let mut cases = vec![];
    let mut exps = vec![];
    for (s, ops) in all[lo..hi].iter().cloned() {
        let mut body = format!("let a: array<int> = {}\nvh_emit_arr(a)\n", LIT_STARTS[s]);
        for o in &ops {
            body.push_str(LIT_OPS[*o]);
            body.push_str("\nvh_emit_arr(a)\n");
        }
        let name = format!(
            "literal-index program: let a: array<int> = {}; {}",
            LIT_STARTS[s],
            ops.iter().map(|o| LIT_OPS[*o].replace('\n', " ")).collect::<Vec<_>>().join("; ")
        );
        cases.push(Case::new(name, body));
        exps.push(lit_model(s, &ops));
    }
    run_cases(out, 0, &cases, 400, COpts::default(), ROpts::default(), |out, k, c, r| {
        out.transitions += 1;
        out.traces += 1;
        let (em, err) = &exps[k];
        if !c.body.lines().all(|l| l.starts_with("let a") || l.starts_with("vh_emit_arr")) {
            out.nontrivial_text(&c.name);
        }
        let fail = |out: &mut UnitOut, observed: String, extra: Vec<String>| {
            let mut keys = vec![format!("input:{}", hkey(&c.name))];
            keys.extend(extra);
            out.class("violation");
            out.violation(
                keys,
                format!("{} => expected emits {} then {}, observed {}", c.name, emits_short(em), match err { None => "done", Some(ErrKind::Oob) => "array-oob error", Some(ErrKind::PopEmpty) => "a runtime error" }, observed),
                json!({"case": c.name, "program": c.standalone(), "expected_emits": emits_short(em), "expected_end": format!("{err:?}"), "observed": observed}),
            );
        };
        match r {
            CaseResult::Diag(d) => fail(out, format!("compile diagnostics: {d}"), vec![]),
            CaseResult::CompilerPanic(p) => fail(out, format!("compiler panic at {}: {}", p.site, p.msg), vec![p.site_key()]),
            CaseResult::Ran(o) => {
                let end_ok = match err {
                    None => o.end == End::Done,
                    Some(ErrKind::Oob) => matches!(&o.end, End::Error { kind, .. } if kind == "array-oob"),
                    Some(ErrKind::PopEmpty) => is_clean_runtime_error(&o.end),
                };
                if end_ok && o.emits == *em {
                    out.class(match err {
                        None => "literal program: ok",
                        Some(ErrKind::Oob) => "literal program: out-of-range runtime error",
                        Some(ErrKind::PopEmpty) => "literal program: empty-array runtime error",
                    });
                    if k % 499 == 3 {
                        out.sample(json!({"program": c.body, "emits": emits_short(&o.emits), "end": o.end.class()}));
                    }
                } else {
                    let keys = match &o.end {
                        End::Fault(p) => vec![p.site_key()],
                        _ => vec![],
                    };
                    fail(out, format!("end={} emits={}", end_short(&o.end), emits_short(&o.emits)), keys);
                }
            }
        }
    });
}

// ------------------------------------------------------------------ property

fn depth(tier: Tier) -> usize {
    tier.pick(5, 8)
}
fn shards(tier: Tier, ty: Ty) -> usize {
    match (tier, ty) {
        (_, Ty::Void) => 1,
        (Tier::Quick, Ty::Nested) => 6,
        (Tier::Quick, _) => 3,
        (Tier::Thorough, Ty::Nested) => 24,
        (Tier::Thorough, _) => 12,
    }
}

/// (type, start, shard, nshards) for BFS units; literal parts after them
fn bfs_units(tier: Tier) -> Vec<(Ty, u8, usize, usize)> {
    let mut v = vec![];
    for ty in TYPES {
        for s in 0..3u8 {
            let n = shards(tier, ty);
            for sh in 0..n {
                v.push((ty, s, sh, n));
            }
        }
    }
    v
}
fn literal_units(tier: Tier) -> usize {
    match tier {
        Tier::Quick => 0,
        Tier::Thorough => lit_cases().len().div_ceil(LIT_PER_UNIT),
    }
}

impl Prop for C26 {
    fn id(&self) -> &'static str {
        "C26"
    }
    fn level(&self) -> &'static str {
        "model_checking"
    }
    fn prepare(&self, _tier: Tier) -> Result<(), String> {
        for ty in TYPES {
            Driver::build(&Src::with_vh(&driver_text(ty))).map_err(|e| format!("array driver for element type {}: {e}", ty.abra()))?;
        }
        Ok(())
    }
    fn n_units(&self, tier: Tier) -> usize {
        bfs_units(tier).len() + literal_units(tier)
    }
    fn run_unit(&self, tier: Tier, unit: usize, out: &mut UnitOut) {
        let bu = bfs_units(tier);
        if unit >= bu.len() {
            run_literal_unit(unit - bu.len(), out);
            return;
        }
        let (ty, start, shard, nshards) = bu[unit];
        let d = match Driver::build(&Src::with_vh(&driver_text(ty))) {
            Ok(d) => d,
            Err(e) => {
                out.notes.push(format!("machinery: {e}"));
                return;
            }
        };
        let ops = alphabet();
        sharded_bfs(
            vec![Op::Start(start)],
            &ops,
            depth(tier),
            |h| key(ty, h),
            |h, out| exec(&d, ty, h, out),
            out,
            0,
            shard,
            nshards,
            20_000_000,
        );
    }
    fn rule(&self, tier: Tier) -> String {
        format!(
            "breadth-first search over all operation histories of length <= {} from the literal start states [], [e0], [e0, e1, e0] for element types \
             int, string (built by concatenation), array<int>, void; operations: push v, pop, len, is_empty, get i, set i v, swap i j, remove i, clear, \
             find v, contains v, clone-then-mutate-the-clone (for array<int> also every inner array of the clone), for-in and for-index iteration, \
             a = array.filled(x, n) (n in 0..2) followed, for array<int> elements, by a mutation of the argument x, inner push a[i].push(5) (array<int> only); v in {{e0, e1}}, i, j in {{-1, 0, 1, 2, len-1, len}}; states merged on the \
             model list contents; every transition replays its whole history on a fresh VM through one compiled host-driven driver and is compared with a Rust Vec \
             model after every step (operation result + len + every element); out-of-range index => runtime error `indexed past the end of an array`, pop on \
             empty => any clean runtime error, never a host panic; non-trivial = the history changes the list or ends in an expected runtime error{}",
            depth(tier),
            tier.pick(
                "",
                "; plus every straight-line program of <= 3 operations with literal indices/values (25 operation forms, 3 literal start arrays) in which only the last operation may fail, compiled in dispatcher batches"
            )
        )
    }
    fn assumptions(&self) -> Vec<String> {
        vec![
            "state merging: two histories with equal model list contents are assumed to have equal futures (array capacity is not observable); every transition is still executed on the real VM".into(),
            "remove(i) is modelled as swap-remove (element i is replaced by the last element), which is what the prelude implements; the manual does not specify the resulting order, so an order-preserving result is accepted too (then the rest of that history is not compared)".into(),
            "the kind of runtime error for pop on an empty array is not documented: any clean runtime error is accepted, a Rust panic / VM-internal error is not".into(),
            "a divergence at step k of a longer history is reported once, by the history that ends at step k (every prefix of an executed history is itself an executed case)".into(),
        ]
    }
}
