//! C06 — garbage collection never frees an object the program can still reach.
//!
//! Explicit-state search of the product of the real mutator and the real collector (see sched.rs).
//! One unit = one program of the `P-gc` family.

use crate::drive::Input;
use crate::fw::{Prop, Tier, UnitOut, hkey};
use crate::sched::{self, Prog, fmt_hist};
use serde_json::json;

pub struct C06;

/// (name, program text, host inputs, thorough_only)
pub fn programs() -> Vec<(&'static str, &'static str, Vec<Input>, bool)> {
    vec![
        ("pop-heap-element", "let a = [[1], [2]]\nlet x = a.pop()\nvh_emit_int(x[0])\nvh_emit_int(a.len())\n", vec![], false),
        ("get-then-overwrite-index", "let a = [[1], [2]]\nlet x = a[0]\na[0] = [3]\nvh_emit_int(x[0])\nvh_emit_int(a[0][0])\n", vec![], false),
        (
            "get-then-overwrite-field",
            "type Bx = {\n  v: array<int>\n}\nlet s = Bx([1])\nlet x = s.v\ns.v = [2]\nvh_emit_int(x[0])\nvh_emit_int(s.v[0])\n",
            vec![],
            false,
        ),
        ("move-element-between-arrays", "let a = [[0]]\nlet c = [[7]]\na.push(c.pop())\nvh_emit_int(a[1][0])\nvh_emit_int(c.len())\n", vec![], false),
        ("push-fresh-into-old", "let a = [[0]]\na.push([5])\nvh_emit_int(a[1][0])\n", vec![], false),
        ("nested-bottom-up", "let x = [1]\nlet y = [x]\nlet z = [y]\nvh_emit_int(z[0][0][0])\n", vec![], false),
        (
            "nested-top-down",
            "let z: array<array<array<int>>> = []\nz.push([])\nz[0].push([4])\nvh_emit_int(z[0][0][0])\n",
            vec![],
            false,
        ),
        (
            "closure-capture-then-reassign",
            "var s = \"a\" .. \"b\"\nlet f = () -> s\ns = \"c\" .. \"d\"\nvh_emit_str(f())\nvh_emit_str(s)\n",
            vec![],
            false,
        ),
        (
            "match-binding-then-overwrite",
            "type Bx = {\n  v: option<array<int>>\n}\nlet s = Bx(option.some([1]))\nmatch s.v {\n  .some(arr) -> {\n    s.v = option.none\n    vh_emit_int(arr[0])\n  }\n  .none -> vh_emit_int(0)\n}\n",
            vec![],
            false,
        ),
        ("concat-temporaries", "vh_emit_str((\"ab\" .. \"cd\") .. (\"ef\" .. \"gh\"))\n", vec![], false),
        ("equal-temporaries", "vh_emit_bool((\"ab\" .. \"cd\") == (\"ab\" .. \"cd\"))\n", vec![], false),
        ("less-temporaries", "vh_emit_bool((\"ab\" .. \"cd\") < (\"ab\" .. \"ce\"))\n", vec![], false),
        (
            "return-truncates-stack",
            "fn mk() -> array<int> {\n  let t = [1, 2]\n  let u = [3]\n  u\n}\nlet r = mk()\nvh_emit_int(r[0])\n",
            vec![],
            false,
        ),
        ("host-returned-string", "let s = vh_next_str()\nlet t = s .. \"x\"\nvh_emit_str(t)\nvh_emit_str(s)\n", vec![Input::Str("hs".into())], false),
        ("host-returned-array", "let a = vh_next_arr()\na.push(3)\nvh_emit_arr(a)\n", vec![Input::Arr(vec![1, 2])], false),
        (
            "channel-own-write-read",
            "let c: channel<array<int>> = channel()\nc.write([1, 2])\nlet r = c.read()\nvh_emit_int(r[1])\n",
            vec![],
            false,
        ),
        (
            "enum-payload-then-reassign",
            "type En = Aa(array<int>) | Bb\nvar e = En.Aa([1])\nlet k = match e {\n  .Aa(arr) -> arr\n  .Bb -> [0]\n}\ne = En.Bb\nvh_emit_int(k[0])\n",
            vec![],
            false,
        ),
        ("tuple-destructure", "let t = ([1], \"x\" .. \"y\")\nlet (p, q) = t\nvh_emit_int(p[0])\nvh_emit_str(q)\n", vec![], false),
        (
            "loop-garbage-live-accumulator",
            "var acc = [0]\nvar i = 0\nwhile i < 2 {\n  let tmp = [i]\n  acc = [acc[0] + tmp[0]]\n  i = i + 1\n}\nvh_emit_int(acc[0])\n",
            vec![],
            false,
        ),
        (
            "for-loop-garbage-live-accumulator",
            "var acc = [0]\nfor i in 3 {\n  let tmp = [i]\n  acc = [acc[0] + tmp[0]]\n}\nvh_emit_int(acc[0])\n",
            vec![],
            true,
        ),
        ("swap-elements", "let a = [[1], [2]]\na.swap(0, 1)\nvh_emit_int(a[0][0])\nvh_emit_int(a[1][0])\n", vec![], false),
        ("remove-element", "let a = [[1], [2], [3]]\na.remove(0)\nvh_emit_int(a[0][0])\nvh_emit_int(a.len())\n", vec![], false),
        ("clone-then-mutate", "let a = [[1]]\nlet b = a.clone()\na[0][0] = 5\nvh_emit_int(b[0][0])\nvh_emit_int(a[0][0])\n", vec![], true),
        (
            "option-of-string",
            "let o = option.some(\"a\" .. \"b\")\nmatch o {\n  .some(s) -> vh_emit_str(s)\n  .none -> vh_emit_str(\"\")\n}\n",
            vec![],
            false,
        ),
        ("array-to-string", "let s = [1, 2].str()\nvh_emit_str(s)\n", vec![], true),
        ("sort-small", "let a = [3, 1, 2]\na.sort()\nvh_emit_arr(a)\n", vec![], true),
        (
            "task-capture-and-channel",
            "let c: channel<int> = channel()\nlet a = [1, 2]\ntask {\n  c.write(a[0] + a[1])\n}\nvh_emit_int(c.read())\n",
            vec![],
            false,
        ),
        (
            "pop-into-local-then-call",
            "fn first(x: array<int>) -> int {\n  let pad = 0\n  x[0] + pad\n}\nlet a = [[1], [2]]\nlet x = a.pop()\nvh_emit_int(first(x))\n",
            vec![],
            false,
        ),
        (
            "pop-into-parameter-slot",
            "fn drain(src: array<array<int>>, cur: array<int>) -> int {\n  cur = src.pop()\n  cur[0]\n}\nlet a = [[1], [2]]\nvh_emit_int(drain(a, [0]))\n",
            vec![],
            false,
        ),
        (
            "pop-in-caller-nested-calls",
            "fn inner(x: array<int>) -> int {\n  x[0]\n}\nfn outer(a: array<array<int>>) -> int {\n  let x = a.pop()\n  inner(x) + inner(x)\n}\nlet a = [[1], [2]]\nvh_emit_int(outer(a))\n",
            vec![],
            false,
        ),
        (
            "field-read-in-callee-then-overwrite",
            "type Bx = {\n  v: array<int>\n}\nfn take(s: Bx) -> array<int> {\n  let x = s.v\n  s.v = [9]\n  x\n}\nlet s = Bx([1])\nlet y = take(s)\nvh_emit_int(y[0])\nvh_emit_int(s.v[0])\n",
            vec![],
            false,
        ),
        (
            "lambda-call-holds-popped-value",
            "let a = [[1], [2]]\nlet f = (x: array<int>) -> x[0]\nlet p = a.pop()\nvh_emit_int(f(p))\n",
            vec![],
            false,
        ),
        (
            "while-pop-all",
            "let a = [[1], [2], [3]]\nvar sum = 0\nwhile a.len() > 0 {\n  let x = a.pop()\n  sum = sum + x[0]\n}\nvh_emit_int(sum)\n",
            vec![],
            false,
        ),
    ]
}

pub fn full_text(body: &str) -> String {
    format!("use vh\n{body}")
}

impl C06 {
    fn selected(tier: Tier) -> Vec<(&'static str, &'static str, Vec<Input>, bool)> {
        programs().into_iter().filter(|p| tier == Tier::Thorough || !p.3).collect()
    }
    /// generated programs that build and mutate heap data (U-prog families F-data, F-fn, F-match):
    /// a few in quick, the whole stratified selection in thorough (full program text, inputs)
    fn generated(tier: Tier) -> Vec<(String, String, Vec<Input>)> {
        let all: Vec<(String, String, Vec<Input>)> = crate::ugen::standalone_corpus_full(Tier::Quick)
            .into_iter()
            .filter(|(_, p)| matches!(p.family, "F-data" | "F-fn" | "F-match"))
            .map(|(n, p)| (format!("uprog:{n}"), p.standalone(), p.host_inputs()))
            .collect();
        let step = tier.pick(6, 1);
        all.into_iter().step_by(step).collect()
    }
    /// the move family: an object that is reachable only through a source container is stored into a holder
    /// (one program per store instruction kind x way of dropping the source reference x declaration order, so that
    /// the search contains states where the holder is already marked and the source is not, and the reverse)
    pub fn moves() -> Vec<(String, String, Vec<Input>)> {
        // (name, type declarations, holder declaration, store target)
        let dests: [(&str, &str, &str, &str); 6] = [
            ("field", "type Hd = {\n  item: array<int>\n}\n", "let h = Hd([0])\n", "h.item"),
            ("index", "", "let h = [[0]]\n", "h[0]"),
            ("push", "", "let h = [[0]]\n", "PUSH"),
            ("nested-field", "type Hd = {\n  item: array<int>\n}\ntype Ot = {\n  inner: Hd\n}\n", "let h = Ot(Hd([0]))\n", "h.inner.item"),
            ("field-of-element", "type Hd = {\n  item: array<int>\n}\n", "let h = [Hd([0])]\n", "h[0].item"),
            ("index-of-field", "type Hx = {\n  items: array<array<int>>\n}\n", "let h = Hx([[0]])\n", "h.items[0]"),
        ];
        // (name, type declarations, source declaration, expression yielding the object, statement dropping the source's reference)
        let srcs: [(&str, &str, &str, &str, &str); 4] = [
            ("pop", "", "let src = [[7]]\n", "src.pop()", ""),
            ("index-then-overwrite", "", "let src = [[7]]\n", "src[0]", "src[0] = [1]\n"),
            ("field-then-overwrite", "type Sr = {\n  v: array<int>\n}\n", "let src = Sr([7])\n", "src.v", "src.v = [1]\n"),
            ("pop-from-field", "type Sq = {\n  vs: array<array<int>>\n}\n", "let src = Sq([[7]])\n", "src.vs.pop()", ""),
        ];
        let mut v = vec![];
        for (dn, dty, ddecl, target) in dests {
            for (sn, sty, sdecl, expr, drop_stmt) in srcs {
                for holder_first in [false, true] {
                    let store = if target == "PUSH" { format!("h.push({expr})\n") } else { format!("{target} = {expr}\n") };
                    let read_back = match dn {
                        "push" => "h[1][0]".to_string(),
                        _ => format!("{target}[0]"),
                    };
                    let decls = if holder_first { format!("{ddecl}{sdecl}") } else { format!("{sdecl}{ddecl}") };
                    let text = format!("use vh\n{dty}{sty}{decls}{store}{drop_stmt}vh_emit_int({read_back})\n");
                    v.push((format!("move:{dn}<-{sn}:{}", if holder_first { "holder-first" } else { "source-first" }), text, vec![]));
                }
            }
        }
        // the wrap family: the object leaves its source container and is wrapped at once in a NEWLY ALLOCATED object
        // (variant, array, tuple, struct), which is then the only thing referring to it: objects allocated while a
        // cycle is marking must be traced too
        let wraps: [(&str, &str, &str, &str, &str); 4] = [
            // (name, type declarations, wrapper type, wrapping expression with X, read-back of the payload's first element from W)
            ("variant", "", "option<array<int>>", "option.some(X)", "match W {\n  .some(pv) -> vh_emit_int(pv[0])\n  .none -> vh_emit_int(0 - 1)\n}\n"),
            ("array", "", "array<array<int>>", "[X]", "vh_emit_int(W[0][0])\n"),
            ("tuple", "", "(array<int>, int)", "(X, 1)", "let (pa, pb) = W\nvh_emit_int(pa[0] + pb - 1)\n"),
            ("struct", "type Wp = {\n  item: array<int>\n}\n", "Wp", "Wp(X)", "vh_emit_int(W.item[0])\n"),
        ];
        for (wn, wty, wtype, wexpr, wread) in wraps {
            for (sn, sty, sdecl, expr, drop_stmt) in srcs {
                for into_array in [false, true] {
                    for holder_first in [false, true] {
                        if !into_array && holder_first {
                            continue; // no holder to declare
                        }
                        let wrapped = wexpr.replace('X', expr);
                        let hdecl = if into_array { format!("let h: array<{wtype}> = []\n") } else { String::new() };
                        let decls = if holder_first { format!("{hdecl}{sdecl}") } else { format!("{sdecl}{hdecl}") };
                        let (store, read) = if into_array {
                            (format!("h.push({wrapped})\n"), format!("let w = h[0]\n{}", wread.replace('W', "w")))
                        } else {
                            (format!("let w = {wrapped}\n"), wread.replace('W', "w"))
                        };
                        let text = format!("use vh\n{wty}{sty}{decls}{store}{drop_stmt}{read}");
                        v.push((
                            format!("wrap:{wn}<-{sn}:{}", if !into_array { "into-a-local" } else if holder_first { "pushed:holder-first" } else { "pushed:source-first" }),
                            text,
                            vec![],
                        ));
                    }
                }
            }
        }
        v
    }
}

impl Prop for C06 {
    fn id(&self) -> &'static str {
        "C06"
    }
    fn level(&self) -> &'static str {
        "model_checking"
    }
    fn n_units(&self, tier: Tier) -> usize {
        Self::selected(tier).len() + Self::generated(tier).len() + Self::moves().len()
    }
    fn run_unit(&self, tier: Tier, unit: usize, out: &mut UnitOut) {
        let nsel = Self::selected(tier).len();
        let (name, text, inputs): (String, String, Vec<Input>) = if unit < nsel {
            let (n, body, inputs, _) = Self::selected(tier).swap_remove(unit);
            (n.to_string(), full_text(body), inputs)
        } else if unit < nsel + Self::generated(tier).len() {
            Self::generated(tier).swap_remove(unit - nsel)
        } else {
            Self::moves().swap_remove(unit - nsel - Self::generated(tier).len())
        };
        let name = name.as_str();
        let generated = unit >= nsel && unit < nsel + Self::generated(tier).len();
        if !out.begin_case(0) {
            return;
        }
        out.describe_case(&format!("{name}\n{text}"));
        let prog = match Prog::compile(name, &text, inputs) {
            Ok(p) => p,
            Err(e) => {
                out.class("program-rejected");
                out.violation(
                    vec![format!("input:{}", hkey(&format!("{name}|compile")))],
                    format!("P-gc program `{name}` {e}"),
                    json!({"program": text, "observed": e}),
                );
                return;
            }
        };
        // generated programs are longer: one cycle fewer and a smaller state cap keep the unit bounded
        let cycles = if generated { tier.pick(1, 2) } else { tier.pick(2, 3) };
        let cap = if generated { tier.pick(150_000, 600_000) } else { tier.pick(400_000, 5_000_000) };
        let (reference, ref_steps) = sched::reference(&prog, 100_000);
        out.count("reference_mutator_steps", ref_steps as i64);
        let (stats, cex, machinery) = sched::product_bfs(&prog, cycles, cap, &reference, |_, _| Ok(()));
        out.evaluations += 1;
        out.states += stats.states;
        out.transitions += stats.transitions;
        out.traces += stats.maximal_paths;
        out.capped |= stats.capped;
        if stats.capped {
            out.notes.push(format!("{name}: state cap {cap} reached at depth {}", stats.max_depth));
        }
        for (k, v) in &stats.outcomes {
            *out.classes.entry(k.clone()).or_insert(0) += v;
        }
        out.class(&format!("ref:{}", reference.end.as_ref().map(|e| e.class()).unwrap_or_default()));
        out.nontrivial_text(&text);
        out.sample(json!({"program": name, "states": stats.states, "transitions": stats.transitions,
            "maximal_paths": stats.maximal_paths, "max_depth": stats.max_depth, "reference_steps": ref_steps}));
        for m in machinery {
            out.notes.push(format!("MACHINERY: {m}"));
            out.count("merge_argument_failures", 1);
        }
        for c in cex.iter().take(1) {
            let h = fmt_hist(&c.history);
            out.violation(
                vec![format!("input:{}", hkey(&format!("{name}|{h}"))), format!("prog:{name}")],
                format!("{name}: schedule {h} => {}", c.what),
                json!({"program": text, "schedule": h, "observed": c.what, "cycles_bound": cycles,
                       "legend": "M = one mutator instruction, S<i>/K<i>/W<i> = start cycle / mark one object / sweep one object on thread i"}),
            );
        }
    }
    fn replay_detail(&self, d: &serde_json::Value) -> Option<Result<String, String>> {
        // a recorded schedule on a named program is replayed directly, without the search
        let schedule = d.get("schedule")?.as_str()?;
        let text = d.get("program")?.as_str()?;
        sched::parse_hist(schedule)?;
        let all: Vec<(String, String, Vec<Input>)> = programs()
            .into_iter()
            .map(|(n, b, i, _)| (n.to_string(), full_text(b), i))
            .chain(Self::generated(Tier::Thorough))
            .chain(Self::moves())
            .collect();
        let (name, _, inputs) = all.into_iter().find(|(_, t, _)| t == text)?;
        Some(sched::replay_schedule(&name, text, inputs, schedule))
    }
    fn rule(&self, tier: Tier) -> String {
        format!(
            "for each of the {} P-gc programs (hand-modelled, generated heap programs, the move family: store kind x source-drop kind x declaration order, and the wrap family: the moved object wrapped in a newly allocated variant / array / tuple / struct): breadth-first search of ALL interleavings of mutator instructions (M) with collector micro-steps \
             (start cycle, mark one grey object, sweep one object; per green thread) with at most {} cycles per thread, on the real VM and collector \
             in manual-GC + quarantine mode; in every state the independent reachability walk must find no reclaimed object and no access may touch one; \
             every maximal path's outcome must equal the collection-disabled run; states merged on (mutator step count, per-thread collector fingerprint); \
             evaluations = programs searched",
            self.n_units(tier),
            tier.pick(2, 3)
        )
    }
    fn assumptions(&self) -> Vec<String> {
        vec![
            "hooks (feature verif): verif_gc_start/mark_one/sweep_one call the real collector code with batch 1; quarantine keeps reclaimed memory so a use is detected instead of being UB".into(),
            "merge argument: the mutator is deterministic and independent of object colours while the invariant holds; checked at every merge via the mutator fingerprint".into(),
            "the reachability walk (vm_verif.rs::walk) is the trusted oracle and shares no code with the collector's marking".into(),
            "the property's 'randomly over multi-cycle pacings' is replaced by the exhaustive multi-cycle search at per-object granularity".into(),
        ]
    }
    fn min_classes(&self) -> usize {
        2
    }
}
