//! C12 — an accepted match always has a matching arm; reported gaps are real.
//!
//! Universe `U-pat` (pat_util.rs): every arm list up to a length bound over the pattern list of each
//! scrutinee type, plus the structured long "cover lists", in four placements (own function, arm body of
//! another match, scrutinee of another match, top-level task block). Verdict of the real checker per
//! match (check_lsp ranges + witness notes) versus the brute-force model over the whole value domain;
//! every accepted match is then compiled and fed every value of the domain.

use super::pat_util::*;
use crate::drive::End;
use crate::fw::{Prop, Tier, UnitOut, hkey};
use serde_json::json;

pub struct C12;

pub fn cause_keys(prop: &str, sym: &str, c: &MatchCase) -> Vec<String> {
    vec![
        format!("input:{}", hkey(&c.text())),
        format!("{prop}:{sym}"),
        format!("{prop}:{sym}:{}", c.ctx.name()),
        format!("{prop}:{sym}:{}:{}", c.ctx.name(), c.ty.texpr()),
    ]
}

pub fn is_nontrivial(c: &MatchCase) -> bool {
    c.arms.iter().any(|p| !is_catch_all(p))
}

/// violations common to the three properties: checker panic, diagnostics of another kind, harness trouble
pub fn judge_common(out: &mut UnitOut, prop: &str, c: &MatchCase, v: &Verdict) -> bool {
    if let Some(p) = &v.panic {
        let mut keys = cause_keys(prop, "checker-panic", c);
        keys.push(p.site_key());
        out.class("violation:checker-panic");
        out.violation(
            keys,
            format!("{}: the checker panicked at {}: {}", c.text(), p.site, p.msg),
            json!({"case": c.text(), "program": standalone(c), "observed": format!("panic at {}: {}", p.site, p.msg)}),
        );
        return false;
    }
    if !v.foreign.is_empty() {
        out.class("violation:other-diagnostic");
        out.violation(
            cause_keys(prop, "other-diagnostic", c),
            format!("{}: a well-typed match was rejected with {:?}", c.text(), v.foreign),
            json!({"case": c.text(), "program": standalone(c), "observed": v.foreign}),
        );
        return false;
    }
    if !v.machinery.is_empty() {
        out.class("violation:attribution");
        out.violation(
            cause_keys(prop, "attribution", c),
            format!("{}: diagnostics could not be attributed exactly: {:?}", c.text(), v.machinery),
            json!({"case": c.text(), "program": standalone(c), "observed": v.machinery}),
        );
        return false;
    }
    true
}

/// every `RECHECK`-th case is also checked in a program of its own; the verdict must be the same
pub const RECHECK: usize = 40;
pub fn same_verdict(a: &Verdict, b: &Verdict) -> bool {
    let norm = |v: &Verdict| {
        let mut w = v.nonexh.clone();
        if let Some(w) = w.as_mut() {
            w.sort();
        }
        (w, v.redundant.clone(), v.foreign.len(), v.panic.is_some())
    };
    norm(a) == norm(b)
}
pub fn recheck(out: &mut UnitOut, prop: &str, k: usize, c: &MatchCase, v: &Verdict, stats: &mut CheckStats, witnesses: bool) {
    if k % RECHECK != 0 {
        return;
    }
    let alone = check_cases_w(&[c], stats, witnesses);
    stats.standalone_rechecks += 1;
    out.count("standalone_rechecks", 1);
    if !same_verdict(&alone[0], v) {
        out.class("violation:attribution");
        out.violation(
            cause_keys(prop, "attribution", c),
            format!("{}: verdict in the batch program ({}) differs from the verdict of the standalone program ({})", c.text(), v.summary(), alone[0].summary()),
            json!({"case": c.text(), "program": standalone(c), "batched": v.summary(), "standalone": alone[0].summary()}),
        );
    }
}

fn judge_static(out: &mut UnitOut, c: &MatchCase, v: &Verdict, vals: &[Val], mv: &ModelVerdict) {
    let ctx = c.ctx.name();
    if !judge_common(out, "c12", c, v) {
        return;
    }
    match &v.nonexh {
        Some(wits) => {
            if mv.unmatched.is_empty() {
                out.class(&format!("{ctx}:violation:false-non-exhaustive"));
                out.violation(
                    cause_keys("c12", "false-non-exhaustive", c),
                    format!("{}: reported non-exhaustive (missing {:?}) although every value of the type matches an arm", c.text(), wits),
                    json!({"case": c.text(), "program": standalone(c), "expected": "exhaustive (brute force over all values)", "observed": v.summary()}),
                );
                return;
            }
            let mut bad = vec![];
            for w in wits {
                match parse_witness(&c.ty, w) {
                    Err(e) => bad.push(format!("`{w}`: {e}")),
                    Ok((wp, lenient)) => {
                        if lenient {
                            out.count("witness_variant_printed_with_one_wildcard_per_type_argument", 1);
                        }
                        if !mv.unmatched.iter().any(|k| wmatch(&wp, &vals[*k])) {
                            bad.push(format!("`{w}` covers no unmatched value"));
                        }
                    }
                }
            }
            out.count("witnesses_checked", wits.len() as i64);
            if bad.is_empty() {
                out.class(&format!("{ctx}:rejected-non-exhaustive({} witnesses)", wits.len().min(4)));
            } else {
                out.class(&format!("{ctx}:violation:bad-witness"));
                let unm: Vec<String> = mv.unmatched.iter().map(|k| show_val(&c.ty, &vals[*k])).collect();
                out.violation(
                    cause_keys("c12", "bad-witness", c),
                    format!("{}: listed missing patterns that cover no unmatched value: {:?}; unmatched values are {:?}", c.text(), bad, unm),
                    json!({"case": c.text(), "program": standalone(c), "unmatched_values": unm, "observed": v.summary(), "bad": bad}),
                );
            }
        }
        None => {
            if v.redundant.is_some() {
                if mv.unmatched.is_empty() {
                    out.class(&format!("{ctx}:rejected-redundant-only"));
                } else {
                    // rejected anyway; the property only speaks about accepted matches
                    out.class(&format!("{ctx}:rejected-redundant(non-exhaustive not reported)"));
                    out.count("non_exhaustive_not_reported_but_rejected_as_redundant", 1);
                }
            }
            // accepted: judged after the run
        }
    }
}

fn judge_run(out: &mut UnitOut, c: &MatchCase, vals: &[Val], mv: &ModelVerdict, r: &RunRes) {
    let ctx = c.ctx.name();
    let unm: Vec<String> = mv.unmatched.iter().map(|k| show_val(&c.ty, &vals[*k])).collect();
    let observed = match r {
        RunRes::Diag(d) => format!("accepted by the checker, but compilation reports: {d}"),
        RunRes::CompilerPanic(p) => format!("compiler panic at {}: {}", p.site, p.msg),
        RunRes::Ran(emits, end) => {
            let (groups, tail, alien) = split_emits(emits);
            // per value: did some arm run
            let mut fell: Vec<String> = vec![];
            for (k, v) in vals.iter().enumerate() {
                // some arm ran, and the arm that ran is one whose pattern matches the value (running an arm that
                // does not match is what a fall-through looks like: control drops into the first arm's body)
                let ok = groups
                    .get(k)
                    .map(|g| !g.is_empty() && g[0] >= 0 && (g[0] as usize) < c.arms.len() && pmatch(&c.arms[g[0] as usize], v, &mut vec![]))
                    .unwrap_or(false);
                if !ok {
                    fell.push(format!("{} -> {:?}", show_val(&c.ty, v), groups.get(k)));
                }
            }
            if *end == End::Done && fell.is_empty() && !alien && tail.is_empty() && groups.len() == vals.len() && mv.unmatched.is_empty() {
                out.class(&format!("{ctx}:accepted-and-every-value-ran-an-arm"));
                return;
            }
            format!("end={} per-value emits={:?} tail={:?}; values without a running arm: {:?}", crate::batch::short_end(end), groups, tail, fell)
        }
    };
    let (sym, what) = if !mv.unmatched.is_empty() {
        ("accepted-non-exhaustive", format!("accepted although the values {unm:?} match no arm"))
    } else {
        ("accepted-run-failed", "accepted and exhaustive, but at run time not every value ran an arm".to_string())
    };
    let mut keys = cause_keys("c12", sym, c);
    match r {
        RunRes::CompilerPanic(p) => keys.push(p.site_key()),
        RunRes::Ran(_, End::Fault(p)) => keys.push(p.site_key()),
        _ => {}
    }
    out.class(&format!("{ctx}:violation:{sym}"));
    out.violation(
        keys,
        format!("{}: {what}; {observed}", c.text()),
        json!({"case": c.text(), "program": standalone(c), "host_inputs": "0, then value indices 0..n-1, then -1",
               "unmatched_values": unm, "expected": "every value of the type runs exactly one arm", "observed": observed}),
    );
}

impl Prop for C12 {
    fn id(&self) -> &'static str {
        "C12"
    }
    fn level(&self) -> &'static str {
        "model_checking"
    }
    fn n_units(&self, tier: Tier) -> usize {
        plan(tier, true).1.len()
    }
    fn expected_evaluations(&self, tier: Tier) -> Option<u64> {
        Some(total_cases(tier, true))
    }
    fn min_classes(&self) -> usize {
        3
    }
    fn run_unit(&self, tier: Tier, unit: usize, out: &mut UnitOut) {
        let cases = unit_cases(tier, true, unit);
        if cases.is_empty() {
            return;
        }
        let ty = cases[0].ty.clone();
        let vals = values(&ty);
        if let Err(e) = roundtrip_ok(&ty) {
            out.notes.push(format!("support functions broken for {}: {e}", ty.texpr()));
        }
        let mut stats = CheckStats::default();
        let mut run_programs = 0u64;
        let bs = batch_size(out, &cases);
        let mut i = 0;
        while i < cases.len() {
            let j = (i + bs).min(cases.len());
            let sel = select(out, i, j);
            i = j;
            if sel.is_empty() {
                continue;
            }
            if bs == 1 {
                out.describe_case(&format!("{}\n{}", cases[sel[0]].text(), standalone(&cases[sel[0]])));
            }
            let refs: Vec<&MatchCase> = sel.iter().map(|k| &cases[*k]).collect();
            let verdicts = check_cases(&refs, &mut stats);
            let mut accepted: Vec<usize> = vec![];
            let mut mvs = vec![];
            for (n, k) in sel.iter().enumerate() {
                out.begin_case_quiet(*k as u64);
                out.evaluations += 1;
                out.states += 1;
                out.transitions += vals.len() as u64;
                let c = &cases[*k];
                if is_nontrivial(c) {
                    out.nontrivial_text(&c.text());
                }
                let mv = model_verdict(&c.arms, &vals);
                judge_static(out, c, &verdicts[n], &vals, &mv);
                recheck(out, "c12", *k, c, &verdicts[n], &mut stats, true);
                if verdicts[n].accepted() {
                    accepted.push(n);
                }
                if *k % 701 == 0 {
                    out.sample(json!({"case": c.text(), "checker": verdicts[n].summary(),
                        "model_unmatched": mv.unmatched.iter().map(|k| show_val(&c.ty, &vals[*k])).collect::<Vec<_>>()}));
                }
                mvs.push(mv);
            }
            let acc_refs: Vec<&MatchCase> = accepted.iter().map(|n| refs[*n]).collect();
            let feeds: Vec<Vec<i64>> = acc_refs.iter().map(|_| (0..vals.len() as i64).collect()).collect();
            let runs = run_cases(&acc_refs, &feeds, &mut run_programs);
            for (m, n) in accepted.iter().enumerate() {
                out.begin_case_quiet(sel[*n] as u64);
                out.count("accepted_matches_run_on_every_value", 1);
                out.count("value_runs", vals.len() as i64);
                judge_run(out, refs[*n], &vals, &mvs[*n], &runs[m]);
            }
        }
        out.traces += stats.programs + run_programs;
        out.count("checker_programs", stats.programs as i64);
        out.count("compiled_programs", run_programs as i64);
    }
    fn rule(&self, tier: Tier) -> String {
        format!(
            "U-pat: {}. Oracle: brute-force matcher over the whole value domain (int/float/string: every literal of the pattern lists plus one fresh value). \
             Checked per arm list: reported non-exhaustive => some value is unmatched and every listed witness (parsed from the diagnostic notes) matches an unmatched value; \
             accepted => no value is unmatched, and the compiled match, fed every value of the domain through mk_<type>(host index), runs for each value an arm whose pattern matches it (which arm among the matching ones is C14's concern). \
             Verdicts are attributed by exact byte range of the match node (every {RECHECK}-th case is re-checked in a program of its own). \
             A case counts as non-trivial when at least one arm is not a top-level wildcard/binding; distinctness by case text.",
            describe_universe(tier, true)
        )
    }
    fn assumptions(&self) -> Vec<String> {
        vec![
            "a missing variant of a generic enum is printed with one `_` per type argument of the enum (`none of _`, `ok of _, _`); such a witness is read as 'that variant with any payload' and counted, not reported".into(),
            "a match that is rejected only for redundant arms is not 'accepted'; if it is also non-exhaustive without being reported so it is counted (non_exhaustive_not_reported_but_rejected_as_redundant) but not a violation".into(),
            "states = (placement, type, arm list) explored; transitions = (arm list, value) evaluations of the model; traces = programs analysed or compiled by the implementation".into(),
        ]
    }
}
