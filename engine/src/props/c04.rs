//! C04 — the compiler terminates with a result or diagnostics on any text.
//!
//! Universe: the deviation-bounded neighbourhood of a corpus of real programs (see `text_util`):
//! deviation 0 = the file; deviation 1 = every prefix, every single-token deletion, every single-token
//! replacement by each member of a token alphabet, every single-char insertion of 9 hostile chars at every
//! char boundary, every adjacent-token swap, every replacement of an identifier token by every OTHER identifier
//! of the same file (semantic-level neighbours: duplicate parameter / field / binding names, wrong variable,
//! function, type or field in a position); deviation 2 (thorough, the shortest files) = ordered pairs of
//! such edits where the second edit is located at or after the first; plus "grammar garbage": every token
//! string of length ≤ 2 (quick) / ≤ 3 (thorough) over the alphabet; plus every single *error mutation* (semantic
//! level: undefined names, assignments to every binding, postfix operators, jump statements, …) of the same files.
//!
//! Oracle (the property statement, nothing more): `check` returns Ok or a non-empty rendered diagnostic
//! text, `compile_bytecode` likewise, no panic anywhere (analysis or the rendering of the diagnostics),
//! each call within a 5 s guard (CPU seconds of the calling thread, so a loaded machine cannot raise a false alarm).

use super::text_util::{self as tu, ALPHA_CORE, ALPHA_FULL, Dev1Unit, Mutant, Neigh, Outcome};
use crate::fw::{Prop, Tier, UnitOut, fnv64, hkey};
use serde_json::json;
use std::collections::HashSet;
use std::sync::OnceLock;

pub struct C04;

/// cost of one case (check, + compile when accepted) in µs assumed when sizing the tiers (measured on an idle 16-core box: ≈ 7.4 ms CPU)
const CASE_US: f64 = 8000.0;
const QUICK_BUDGET_CORE_S: f64 = 280.0;
const THOROUGH_BUDGET_CORE_S: f64 = 4300.0;
const CHUNK: usize = 300;
/// hand-written programs that are in the universe of both tiers whatever their length: two of the non-ASCII programs (thorough
/// reaches all five by length) and the five tiny programs with default / named arguments, constructors with defaults, a member function
const ALWAYS: [&str; 9] =
    ["hand/accents", "hand/japanese", "tiny/default-args", "tiny/named-args", "tiny/struct-defaults", "tiny/enum-defaults", "tiny/member-fn", "tiny/alias-import", "tiny/qualified-member"];
/// thorough: the files whose replacement alphabet is the full 79-token one, and the files with deviation 2
const FULL_ALPHA_FILES: usize = 12;
const DEV2_FILES: usize = 3;
const SLOW_S: f64 = 5.0;

#[derive(Clone, Debug)]
enum U {
    Dev1(Dev1Unit, bool /*full alphabet*/),
    /// deviation 2: all second edits (at or after the first edit) of the first-level mutant `first`
    Dev2 { file: usize, first: usize },
    /// single error mutations (the C33 kinds + the extended semantic kinds) lo..hi of a file
    ErrMut { file: usize, lo: usize, hi: usize },
    /// garbage: all token strings of length `len` starting with alphabet token `first`
    Garbage { len: usize, first: usize },
    /// structured families (products of small menus), texts lo..hi of `family_texts`
    Family { lo: usize, hi: usize },
}

fn alpha(full: bool) -> &'static [&'static str] {
    if full { &ALPHA_FULL } else { &ALPHA_CORE }
}

fn files(tier: Tier) -> Vec<usize> {
    tu::pick_files(ALPHA_CORE.len(), CASE_US, 0.0, tier.pick(QUICK_BUDGET_CORE_S, THOROUGH_BUDGET_CORE_S), &ALWAYS)
}

fn plan(tier: Tier) -> &'static Vec<U> {
    static P: [OnceLock<Vec<U>>; 2] = [OnceLock::new(), OnceLock::new()];
    P[tier.pick(0, 1)].get_or_init(|| {
        let mut v = vec![];
        let fs = files(tier);
        for &f in &fs {
            let full = tier == Tier::Thorough && f < FULL_ALPHA_FILES;
            for u in tu::plan_dev1(&[f], alpha(full).len(), CHUNK) {
                v.push(U::Dev1(u, full));
            }
        }
        if tier == Tier::Thorough {
            for f in 0..DEV2_FILES.min(tu::corpus().len()) {
                let n = tu::neigh_len(&tu::corpus()[f].text, ALPHA_CORE.len());
                for first in 1..n {
                    v.push(U::Dev2 { file: f, first });
                }
            }
        }
        for &f in &fs {
            let n = tu::error_mutations_ext(&tu::corpus()[f].text, &|_| false, true).len();
            let mut lo = 0;
            while lo < n {
                let hi = (lo + CHUNK).min(n);
                v.push(U::ErrMut { file: f, lo, hi });
                lo = hi;
            }
        }
        let a = ALPHA_CORE.len();
        v.push(U::Garbage { len: 1, first: 0 });
        for first in 0..a {
            v.push(U::Garbage { len: 2, first });
        }
        if tier == Tier::Thorough {
            for first in 0..a {
                v.push(U::Garbage { len: 3, first });
            }
        }
        // appended last so that the unit numbers of the older families do not change
        let n = family_texts(tier).len();
        let mut lo = 0;
        while lo < n {
            let hi = (lo + CHUNK).min(n);
            v.push(U::Family { lo, hi });
            lo = hi;
        }
        v
    })
}

/// Structured families: complete products of small menus around constructs whose analysis has more than one
/// stage looking at the same declaration (a rejected declaration that later stages still find, two parameters of
/// one name, generic payloads instantiated to void, deep nesting) and around the lexer's escape handling. (origin, description, text)
fn family_texts(tier: Tier) -> &'static Vec<(String, String, String)> {
    static P: [OnceLock<Vec<(String, String, String)>>; 2] = [OnceLock::new(), OnceLock::new()];
    P[tier.pick(0, 1)].get_or_init(|| {
        let mut v: Vec<(String, String, String)> = vec![];
        // --- F-params: three parameter slots x body x call
        let params = ["a", "a: int", "b", "a = 1", "b = 3", "b: int = 3"];
        let calls = ["f(1)", "f(1, 2)", "f(1, 2, 3)", "f(a = 1)", "f(b = 2, a = 1)", "f()"];
        for p1 in params {
            for p2 in params {
                for p3 in params {
                    for body in ["a", "b"] {
                        for call in calls {
                            v.push(("family/params".into(), format!("fn f({p1}, {p2}, {p3}) = {body} ; {call}"), format!("fn f({p1}, {p2}, {p3}) = {body}\n{call}\n")));
                        }
                    }
                }
            }
        }
        // --- F-impl: implementation target x interface x use of a value of the target type
        let targets: [(&str, &str); 10] = [
            ("Bag<int>", "Bag([1])"),
            ("Bag<T>", "Bag([1])"),
            ("Bag", "Bag([1])"),
            ("Mono", "Mono(1)"),
            ("Mono<int>", "Mono(1)"),
            ("int", "1"),
            ("Nope", "1"),
            ("array<Mono>", "[Mono(1)]"),
            ("(int, Mono)", "(1, Mono(1))"),
            ("option<Mono>", "option.some(Mono(1))"),
        ];
        let ifaces: [(&str, &str); 10] = [
            ("Iterable", "  fn make_iterator(self) -> ArrayIterator<int> {\n    ArrayIterator([1], 0)\n  }\n"),
            ("Iterator", "  fn next(self) -> option<int> = option.none\n"),
            ("Unwrap", "  fn unwrap(self) -> int {\n    1\n  }\n"),
            ("Try", "  fn branch(self) -> ControlFlow<void, int> {\n    .Continue(1)\n  }\n  fn from_residual(r: void) -> TARGET {\n    VALUE\n  }\n"),
            ("Index", "  fn index_get(self, index: int) -> int {\n    1\n  }\n  fn index_set(self, index: int, val: int) -> void {\n    nil\n  }\n"),
            ("ToString", "  fn str(s) = \"x\"\n"),
            ("Equal", "  fn equal(a, b) = true\n"),
            ("Num", "  fn add(a, b) = a\n  fn subtract(a, b) = a\n  fn multiply(a, b) = a\n  fn divide(a, b) = a\n  fn power(a, b) = a\n"),
            ("Nope2", "  fn zz(self) -> int = 1\n"),
            ("Unwrap", ""),
        ];
        let uses = [
            "",
            "for x in v {\n  x\n}\n",
            "v!\n",
            "fn q() -> option<int> {\n  let r = v?\n  option.some(1)\n}\nq()\n",
            "v[0]\n",
            "v[0] = 1\n",
            "\"\" .. v\n",
            "v == v\n",
            "v + v\n",
            "v.str()\n",
        ];
        for (t, val) in targets {
            for (ifn, ib) in ifaces {
                for u in uses {
                    let body = ib.replace("TARGET", t).replace("VALUE", val);
                    let text = format!("type Bag<T> = {{\n  items: array<T>\n}}\ntype Mono = {{\n  v: int\n}}\nimplement {ifn} for {t} {{\n{body}}}\nlet v = {val}\n{u}");
                    v.push(("family/impl".into(), format!("implement {ifn} for {t}{} ; use `{}`", if ib.is_empty() { " (no methods)" } else { "" }, u.lines().next().unwrap_or("")), text));
                }
            }
        }
        // --- F-voidpat: generic payloads instantiated to void x all arm lists of length <= 3
        let scruts: [(&str, &str, Vec<&str>); 4] = [
            ("result<void, string>", "fn mk() -> result<void, string> {\n  .ok(nil)\n}\nlet s = mk()\n", vec![".ok(_)", ".ok(x)", ".err(_)", ".err(e)", "_"]),
            ("option<void>", "let s: option<void> = option.some(nil)\n", vec![".some(_)", ".some(x)", ".none", "_", "y"]),
            ("Bx<void>", "type Bx<T> = Fu(T) | Em | Tw(T, int)\nlet s: Bx<void> = Bx.Fu(nil)\n", vec![".Fu(_)", ".Em", ".Tw(_, 1)", ".Tw(x, n)", "_"]),
            ("(void, option<void>)", "let s = (nil, option.some(nil))\n", vec!["(_, .some(_))", "(_, .none)", "(x, _)", "_", "(_, .some(y))"]),
        ];
        for (tn, pre, pats) in &scruts {
            let mut lists: Vec<Vec<&str>> = vec![];
            for a in pats {
                lists.push(vec![a]);
                for b in pats {
                    lists.push(vec![a, b]);
                    for c in pats {
                        lists.push(vec![a, b, c]);
                    }
                }
            }
            for l in lists {
                let arms: String = l.iter().enumerate().map(|(i, p)| format!("  {p} -> {i}\n")).collect();
                v.push(("family/voidpat".into(), format!("match on {tn}: {}", l.join(" ; ")), format!("{pre}let r = match s {{\n{arms}}}\n")));
            }
        }
        // --- F-strlit: every short content of a string literal over an alphabet of escape-relevant characters, in the three
        // quote styles, as a complete program and cut off at the end of the file (no closing quote)
        let alpha = ['\\', 'x', 'u', '4', 'f', 'n', '"', '\'', '{', '}', 'a', 'é'];
        let maxlen = tier.pick(3, 4);
        let mut contents: Vec<String> = vec![String::new()];
        let mut frontier: Vec<String> = vec![String::new()];
        for _ in 0..maxlen {
            let mut next = vec![];
            for c in &frontier {
                for a in alpha {
                    next.push(format!("{c}{a}"));
                }
            }
            contents.extend(next.iter().cloned());
            frontier = next;
        }
        for c in &contents {
            for (q, qn) in [("\"", "double-quoted"), ("'", "single-quoted"), ("\"\"\"", "triple-quoted")] {
                v.push(("family/strlit".into(), format!("{qn} literal with content {c:?}"), format!("let s = {q}{c}{q}\n")));
            }
            v.push(("family/strlit".into(), format!("double-quoted literal with content {c:?}, end of file before the closing quote"), format!("let s = \"{c}")));
        }
        // --- F-nest: one construct nested to depth d (termination in time and stack)
        let shapes: [(&str, &str, &str); 27] = [
            ("(a = ", "1", ")"),
            ("(", "1", ")"),
            ("[", "1", "]"),
            ("{\n", "1", "\n}"),
            ("f(", "1", ")"),
            ("f(a = ", "1", ")"),
            ("(x) -> ", "1", ""),
            ("x -> ", "1", ""),
            ("(x = ", "1", ") -> 1"),
            ("-", "x", ""),
            ("not ", "x", ""),
            ("if true {\n", "1", "\n}"),
            ("if ", "true", " {\n1\n}"),
            ("match 1 {\n_ -> ", "1", "\n}"),
            ("match ", "1", " {\n_ -> 1\n}"),
            ("a.b(", "1", ")"),
            ("(a, ", "1", ")"),
            ("a[", "1", "]"),
            ("1 + (", "1", ")"),
            ("fn g() {\n", "1", "\n}"),
            ("task {\n", "1", "\n}"),
            ("while true {\n", "1", "\n}"),
            ("for i in ", "1", " {\n1\n}"),
            ("let a: array<", "int", "> = 1"),
            ("let a: (", "int", ", int) = 1"),
            ("match 1 {\n.some(", "x", ") -> 1\n}"),
            ("match 1 {\n(", "x", ", 1) -> 1\n}"),
        ];
        let depths: &[usize] = if tier == Tier::Quick { &[4, 8, 16, 32, 64] } else { &[4, 8, 12, 16, 20, 24, 32, 48, 64, 96, 128] };
        for (open, core, close) in shapes {
            for &d in depths {
                // type and pattern nests repeat only the bracket part
                let (pre, o, c, post): (&str, &str, &str, &str) = if let Some(r) = open.strip_prefix("let a: ") {
                    ("let a: ", r, if close.starts_with('>') { ">" } else { ", int)" }, " = 1")
                } else if let Some(r) = open.strip_prefix("match 1 {\n") {
                    if open.ends_with("-> ") { ("", open, close, "") } else { ("match 1 {\n", r, if close.starts_with(')') { ")" } else { ", 1)" }, " -> 1\n}") }
                } else {
                    ("", open, close, "")
                };
                let c_eff = if pre.is_empty() { close } else { c };
                let text = format!("{pre}{}{core}{}{post}\n", o.repeat(d), c_eff.repeat(d));
                v.push(("family/nest".into(), format!("`{}` nested {d} deep", open.replace('\n', " ")), text));
            }
        }
        v
    })
}

fn outcome_json(o: &Outcome) -> serde_json::Value {
    match o {
        Outcome::Ok => json!("ok"),
        Outcome::Diag(d) => json!({"diagnostics": tu::shorten(d, 400)}),
        Outcome::EmptyDiag => json!("rejected with EMPTY diagnostics"),
        Outcome::Panic(p) => json!({"panic_in": "analysis", "site": p.site, "msg": p.msg}),
        Outcome::RenderPanic(p) => json!({"panic_in": "rendering of the diagnostics (ErrorSummary Display / emit)", "site": p.site, "msg": p.msg}),
    }
}

/// Run one text through the oracle.
fn judge(out: &mut UnitOut, origin: &str, desc: &str, text: &str, also_compile: bool) {
    if out.isolate {
        out.describe_case(text);
    }
    out.evaluations += 1;
    if tu::tokenize(text).iter().filter(|t| t.kind != tu::TK::Space && t.kind != tu::TK::Newline && t.kind != tu::TK::Comment).count() >= 2 {
        out.nontrivial_text(text);
    }
    let src = tu::src_for(text);
    tu::watchdog_arm();
    let t0 = tu::Guard::start();
    let chk = tu::check_text(&src);
    let dt_check = t0.elapsed_s();
    // `compile_bytecode` = the body of `check` followed by translation: it is run whenever translation is
    // reachable (check accepted) and, as an equivalence guard, on the `also_compile` sub-family.
    let run_compile = also_compile || matches!(chk, Outcome::Ok);
    let mut dt_comp = 0.0;
    let comp = if run_compile {
        let t1 = tu::Guard::start();
        let c = tu::compile_text(&src);
        dt_comp = t1.elapsed_s();
        out.count("compile_bytecode_calls", 1);
        Some(c)
    } else {
        None
    };
    // A slow measurement is confirmed before it counts: on a shared or virtualised machine a stall of the whole
    // machine shows up in wall AND thread-CPU clocks. Only a case that is slow three times in a row is reported.
    let (mut dt_check, mut dt_comp) = (dt_check, dt_comp);
    for _ in 0..2 {
        if dt_check > SLOW_S {
            let t = tu::Guard::start();
            let _ = tu::check_text(&src);
            dt_check = dt_check.min(t.elapsed_s());
            out.count("slow_measurements_repeated", 1);
        }
        if dt_comp > SLOW_S {
            let t = tu::Guard::start();
            let _ = tu::compile_text(&src);
            dt_comp = dt_comp.min(t.elapsed_s());
            out.count("slow_measurements_repeated", 1);
        }
    }
    tu::watchdog_disarm();
    let input_key = format!("input:{}", hkey(text));
    let detail = |what: &str| {
        json!({"origin": origin, "mutation": desc, "text": text, "expected": "Ok or non-empty diagnostics, no panic, < 5 s",
               "observed": what, "check": outcome_json(&chk), "compile": comp.as_ref().map(outcome_json),
               "repro": "write `text` to f.abra; /repo/target/debug/abra --standard-modules /repo/modules f.abra"})
    };
    let mut bad = false;
    let mut sites: Vec<String> = vec![];
    for (stage, o) in [("check", Some(&chk)), ("compile_bytecode", comp.as_ref())] {
        let Some(o) = o else { continue };
        if let Some((wher, p)) = o.panic() {
            let sk = p.site_key();
            if !sites.contains(&sk) {
                sites.push(sk.clone());
                out.count(&format!("panic {sk}"), 1);
                let what = format!("{stage} panicked in {wher} at {}: {} | input {} ({origin}: {desc})", p.site, tu::shorten(&p.msg, 100), tu::shorten(text, 80));
                let mut keys = vec![input_key.clone(), sk];
                keys.extend(tu::root_key(p));
                out.violation(keys, what.clone(), detail(&what));
            }
            bad = true;
        }
        if matches!(o, Outcome::EmptyDiag) {
            let what = format!("{stage} rejected the text with an empty diagnostic list | input {}", tu::shorten(text, 80));
            out.violation(vec![input_key.clone(), "empty-diagnostics".into()], what.clone(), detail(&what));
            bad = true;
        }
    }
    if dt_check > SLOW_S || dt_comp > SLOW_S {
        let what = format!("non-termination suspect: check {dt_check:.1}s compile {dt_comp:.1}s | input {}", tu::shorten(text, 80));
        out.violation(vec![input_key.clone(), "slow".into()], what.clone(), detail(&what));
        bad = true;
    }
    if dt_check > 1.0 || dt_comp > 1.0 {
        out.count("cases_slower_than_1s", 1);
    }
    // equivalence guard: check and compile agree on rejected texts
    if let (Some(c), false) = (&comp, bad) {
        let same = match (&chk, c) {
            (Outcome::Ok, _) => true, // compile may still reject? no: it must be Ok too, handled below
            (Outcome::Diag(a), Outcome::Diag(b)) => a == b,
            _ => false,
        };
        if !same {
            out.count("check_and_compile_disagree_on_rejected_text", 1);
        }
        if let (Outcome::Ok, Outcome::Diag(_)) = (&chk, c) {
            out.count("check_accepts_but_compile_rejects", 1);
        }
    }
    if bad {
        out.class("VIOLATION");
        return;
    }
    match (&chk, &comp) {
        (Outcome::Ok, Some(Outcome::Ok)) => out.class("accepted and compiled"),
        (Outcome::Ok, _) => out.class("accepted, compile rejected"),
        (Outcome::Diag(d), _) => out.class(&format!("rejected: {}", tu::diag_class(d))),
        _ => out.class("other"),
    }
    if out.evaluations % 211 == 1 {
        out.sample(json!({"origin": origin, "mutation": desc, "text": tu::shorten(text, 200), "check": outcome_json(&chk)}));
    }
}

fn run_dev1(out: &mut UnitOut, u: Dev1Unit, full: bool) {
    let f = &tu::corpus()[u.file];
    tu::for_each_dev1(out, &f.text, alpha(full), u.lo, u.hi, |out, i, m: &Mutant| {
        // identity and all prefixes also run compile unconditionally (equivalence guard)
        let also = m.desc == "identity" || m.desc.starts_with("prefix");
        let _ = i;
        judge(out, &f.name, &m.desc, &m.text, also);
    });
}

fn run_dev2(out: &mut UnitOut, file: usize, first: usize) {
    let f = &tu::corpus()[file];
    let ng = Neigh::new(&f.text, &ALPHA_CORE);
    // the deviation ≤ 1 texts are covered by the Dev1 family; a first-level mutant whose text already occurred
    // at a smaller index contributes nothing new
    let mut dev1: HashSet<u64> = HashSet::new();
    let mut m1 = None;
    let mut dup = false;
    for i in 0..ng.len() {
        let m = ng.get(i);
        let fresh = dev1.insert(fnv64(m.text.as_bytes()));
        if i == first {
            dup = !fresh;
            m1 = Some(m);
        }
    }
    let m1 = m1.expect("first-level index in range");
    if dup {
        out.count("dev2_first_level_duplicates_skipped", 1);
        return;
    }
    let ng2 = Neigh::new(&m1.text, &ALPHA_CORE);
    let mut seen: HashSet<u64> = HashSet::new();
    for j in 1..ng2.len() {
        let m2 = ng2.get(j);
        if m2.pos < m1.pos {
            continue; // universe = second edit at or after the first one
        }
        let h = fnv64(m2.text.as_bytes());
        if dev1.contains(&h) || !seen.insert(h) {
            out.count("dev2_texts_already_covered_skipped", 1);
            continue;
        }
        if !out.begin_case(j as u64) {
            continue;
        }
        judge(out, &f.name, &format!("{} THEN {}", m1.desc, m2.desc), &m2.text, false);
    }
}

fn run_errmut(out: &mut UnitOut, file: usize, lo: usize, hi: usize) {
    let f = &tu::corpus()[file];
    let muts = tu::error_mutations_ext(&f.text, &|_| false, true);
    // texts already in the deviation ≤ 1 set of the file, or produced by an earlier error mutation, are skipped
    let ng = Neigh::new(&f.text, &ALPHA_CORE);
    let mut seen: HashSet<u64> = (0..ng.len()).map(|i| fnv64(ng.get(i).text.as_bytes())).collect();
    for (i, m) in muts.iter().enumerate().take(hi) {
        let fresh = seen.insert(fnv64(m.text.as_bytes()));
        if i < lo {
            continue;
        }
        if !fresh {
            out.count("error_mutants_with_duplicate_text_skipped", 1);
            continue;
        }
        if !out.begin_case(i as u64) {
            continue;
        }
        judge(out, &f.name, &format!("{}: {}", m.kind, m.desc), &m.text, false);
    }
}

fn run_garbage(out: &mut UnitOut, len: usize, first: usize) {
    let a = &ALPHA_CORE;
    let (lo, n): (usize, usize) = if len == 1 { (0, a.len()) } else { (first, a.len().pow(len as u32 - 1)) };
    for k in 0..n {
        if !out.begin_case(k as u64) {
            continue;
        }
        let mut parts: Vec<&str> = vec![];
        if len == 1 {
            parts.push(a[lo + k]);
        } else {
            parts.push(a[first]);
            let mut r = k;
            let mut rest = vec![];
            for _ in 0..len - 1 {
                rest.push(a[r % a.len()]);
                r /= a.len();
            }
            rest.reverse();
            parts.extend(rest);
        }
        let text = parts.join(" ");
        judge(out, "garbage", &format!("token string of length {len}"), &text, false);
    }
}

impl Prop for C04 {
    fn id(&self) -> &'static str {
        "C04"
    }
    fn level(&self) -> &'static str {
        "exploration"
    }
    fn n_units(&self, tier: Tier) -> usize {
        plan(tier).len()
    }
    fn run_unit(&self, tier: Tier, unit: usize, out: &mut UnitOut) {
        let c0 = tu::thread_cpu_s();
        match plan(tier)[unit].clone() {
            U::Dev1(u, full) => run_dev1(out, u, full),
            U::Dev2 { file, first } => run_dev2(out, file, first),
            U::ErrMut { file, lo, hi } => run_errmut(out, file, lo, hi),
            U::Garbage { len, first } => run_garbage(out, len, first),
            U::Family { lo, hi } => {
                let all = family_texts(tier);
                for k in lo..hi {
                    if !out.begin_case((k - lo) as u64) {
                        continue;
                    }
                    let (origin, desc, text) = &all[k];
                    judge(out, origin, desc, text, false);
                }
            }
        }
        if let (Some(a), Some(b)) = (c0, tu::thread_cpu_s()) {
            out.count("cpu_ms", ((b - a) * 1000.0) as i64);
        }
    }
    fn rule(&self, tier: Tier) -> String {
        let fs = files(tier);
        let c = tu::corpus();
        let raw: usize = plan(tier).iter().map(|u| if let U::Dev1(d, _) = u { d.hi - d.lo } else { 0 }).sum();
        format!(
            "corpus = {} programs loaded from the working tree (every r#\"…\"# literal of abra_core/tests/integration/*.rs that imports nothing but pure core modules, \
             the pure core modules {:?} as main files, the stand-alone examples/*.abra, 5 hand-written non-ASCII programs, 7 tiny hand-written programs with default and named arguments, struct and enum constructors with defaults, a member function, an aliased import, type-qualified member calls), sorted by (length, text). \
             This tier: {} files = hand/accents, hand/japanese, the seven tiny/* programs and the shortest files within a cost budget (the longest has {} bytes; {:?}), each with its complete deviation ≤ 1 neighbourhood = identity + every prefix + every single-token deletion + \
             every replacement of a non-blank token by each of the {}-token alphabet{} + every insertion of one of {:?} at every char boundary + every adjacent-token swap \
             + every replacement of an identifier token by every other identifier that occurs in the same file (Σ over files of identifier tokens × (distinct identifiers − 1)) \
             ({} raw mutants in closed form; texts that repeat an earlier mutant of the same file are skipped and counted){}; \
             plus, for the same files, every single ERROR mutation at every site (C33's kinds: undefined name, unknown field, literal of another type, deleted arm, assignment to a let, dropped / added / unknown named call argument, bad escape; \
             and the semantic kinds: `x = x` after the line and inside the next block of every name, `x[0] += 1`, postfix `? ! .zz [0] () (zz = 0) = 0` on every identifier, break / continue / return after every line); \
             plus every token string of length ≤ {} over the {}-token alphabet; \
             plus {} texts of five structured product families: params (6^3 parameter lists incl. repeated names and defaults × 2 bodies × 6 calls), impl (10 implementation targets incl. instantiated / unknown / non-generic types × 10 interface bodies × 10 uses of a value of that type), \
             voidpat (4 scrutinee types whose generic payload is void × all arm lists of length ≤ 3 over 5 patterns), nest (27 bracketing constructs nested to each depth of a fixed list up to 64 / 128), strlit (every string-literal content of length ≤ 3 / 4 over 12 escape-relevant characters in the three quote styles and unterminated). \
             Each text: check (always) and compile_bytecode (whenever check accepts, and on identity + all prefixes) must return Ok or a non-empty rendered diagnostic, without panic, within {SLOW_S} s. \
             Non-trivial = the text has ≥ 2 tokens that are not blanks/comments (distinct by text hash)",
            c.len(),
            tu::pure_core_modules().iter().map(|x| x.0.as_str()).collect::<Vec<_>>(),
            fs.len(),
            fs.last().map(|i| c[*i].text.len()).unwrap_or(0),
            fs.iter().map(|i| c[*i].name.as_str()).collect::<Vec<_>>(),
            ALPHA_CORE.len(),
            if tier == Tier::Thorough { format!(" (the {}-token full alphabet on the {FULL_ALPHA_FILES} shortest)", ALPHA_FULL.len()) } else { String::new() },
            tu::INSERT_CHARS,
            raw,
            if tier == Tier::Thorough {
                format!("; deviation 2 on the {DEV2_FILES} shortest files = every deviation-1 edit of every deviation-1 mutant located at or after the first edit, minus texts already in the deviation ≤ 1 set")
            } else {
                String::new()
            },
            tier.pick(2, 3),
            ALPHA_CORE.len(),
            family_texts(tier).len(),
        )
    }
    fn assumptions(&self) -> Vec<String> {
        vec![
            "exhaustive for the stated neighbourhood of the stated corpus only; it does not claim all UTF-8 strings".into(),
            "compile_bytecode is not re-run on texts that check rejects (except identity and all prefixes): lib.rs's compile_bytecode_ is check's body (get_files; statics::analyze) followed by translation, so on a rejected text both execute the same code; the counter check_and_compile_disagree_on_rejected_text guards this".into(),
            "a panic while RENDERING the returned diagnostics (ErrorSummary's Display, which the CLI's emit() shares) counts as a compiler crash: the user gets a Rust panic instead of diagnostics".into(),
            "termination: a call that returns after more than 5 CPU s is a violation (`slow`); a call that has not returned after 20 CPU s makes the worker exit with status 86, which the framework reports as `process abort (exit status: 86)` for exactly that text = NON-TERMINATION SUSPECT; a stack overflow shows as `signal: 6 (SIGABRT)`".into(),
            "the prelude is not mutated in place (get_files always loads the embedded copy)".into(),
        ]
    }
}
