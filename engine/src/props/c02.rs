//! C02 — compiled programs compute what the language reference specifies.
//!
//! Universe: U-prog (ugen.rs): the stratified families F-expr, F-stmt, F-fn, F-data, F-match and the
//! separate strata S-jump (jumps out of operand positions), S-voidvariant, S-empty. Every program
//! is interpreted by the reference model (umodel.rs) and compiled + run on the real pipeline; the
//! host emits, the printed text and the final outcome (done / runtime error kind) must be equal.
//! Programs the model cannot decide from the manual (`Unspecified`) are only required not to fault.

use crate::batch::{self, Case, CaseResult, run_cases, short_end};
use crate::drive::{self, COpts, Compiled, Emit, End, ROpts, Src, StdHost};
use crate::fw::{Prop, Tier, UnitOut, hkey};
use crate::ugen::{self, Prog, Scope};
use crate::umodel::{self, ModelEnd, Outcome};
use serde_json::json;

pub struct C02;

pub const UNIT_SIZE: u64 = 600;
const CORPUS_CHUNK: usize = 60;

fn corpus_units(tier: Tier) -> usize {
    ugen::standalone_corpus_full(tier).len().div_ceil(CORPUS_CHUNK)
}
pub const BATCH: usize = 300;

/// Observation of one run, reduced to what the properties compare.
#[derive(Clone, Debug, PartialEq)]
pub struct Seen {
    pub emits: Vec<Emit>,
    pub out: String,
    pub end: End,
}

#[derive(Clone, Debug)]
pub enum Res {
    Ran(Seen),
    Diag(String),
    CompilerPanic(drive::PanicInfo),
}

pub fn from_case_result(r: &CaseResult) -> Res {
    match r {
        CaseResult::Ran(o) => Res::Ran(Seen { emits: o.emits.clone(), out: o.out.clone(), end: o.end.clone() }),
        CaseResult::Diag(d) => Res::Diag(d.clone()),
        CaseResult::CompilerPanic(p) => Res::CompilerPanic(p.clone()),
    }
}

/// compile a whole-program case (top-level statements) and run it once per run option
pub fn run_top_level(p: &Prog, inputs: &[i64], co: COpts, ros: &[ROpts]) -> Vec<Res> {
    let src = Src::with_vh(&p.standalone());
    match drive::compile(&src, co) {
        Compiled::Ok(prog) => {
            let table = src.host_table();
            ros.iter()
                .map(|ro| {
                    let mut host = StdHost::default();
                    host.inputs = inputs.iter().map(|v| drive::Input::Int(*v)).collect();
                    let r = drive::run(&prog, &table, host, *ro);
                    Res::Ran(Seen { emits: r.host.emits, out: r.host.out, end: r.end })
                })
                .collect()
        }
        Compiled::Diag(d) => ros.iter().map(|_| Res::Diag(d.clone())).collect(),
        Compiled::Panic(pi) => ros.iter().map(|_| Res::CompilerPanic(pi.clone())).collect(),
    }
}

pub fn end_text(e: &End) -> String {
    match e {
        End::Fault(p) => format!("VM fault (Rust panic) at {}: {}", p.site, p.msg),
        End::InternalError { text } => format!("VM internal error: {}", text.lines().next().unwrap_or("")),
        other => short_end(other),
    }
}

pub fn res_text(r: &Res) -> String {
    match r {
        Res::Ran(s) => format!("end={} emits={:?} out={:?}", end_text(&s.end), s.emits, s.out),
        Res::Diag(d) => format!("compile diagnostics: {}", crate::props::features_util::diag_kind(d)),
        Res::CompilerPanic(p) => format!("compiler panic at {}: {}", p.site, p.msg),
    }
}

pub fn model_text(m: &Outcome) -> String {
    format!("end={:?} emits={:?} out={:?}", m.end, m.emits, m.out)
}

/// keys of a violation of program `p`: input hash first, then the stratum's root keys, then panic sites
pub fn keys_for(p: &Prog, r: Option<&Res>) -> Vec<String> {
    let mut k = vec![format!("input:{}", hkey(&p.key_text()))];
    k.extend(p.extra_keys.iter().cloned());
    match r {
        Some(Res::CompilerPanic(pi)) => k.push(pi.site_key()),
        Some(Res::Ran(Seen { end: End::Fault(pi), .. })) => k.push(pi.site_key()),
        _ => {}
    }
    k
}

/// does the observation agree with the model? `Err(reason)` when not
pub fn agree(m: &Outcome, r: &Res) -> Result<&'static str, String> {
    match r {
        Res::Diag(_) => Err("the program is well-typed by construction but was rejected".into()),
        Res::CompilerPanic(_) => Err("compiler panic".into()),
        Res::Ran(s) => {
            if s.end.is_fault() {
                return Err("internal fault".into());
            }
            if s.end == End::StepCap {
                return Err("did not terminate within the step cap".into());
            }
            match &m.end {
                ModelEnd::Unspecified(_) => Ok("unspecified"),
                ModelEnd::Done => {
                    if s.end == End::Done && s.emits == m.emits && s.out == m.out {
                        Ok("done")
                    } else {
                        Err("observation differs from the reference model".into())
                    }
                }
                ModelEnd::Err(k) => {
                    if matches!(&s.end, End::Error { kind, .. } if kind == k) && s.emits == m.emits && s.out == m.out {
                        Ok(match *k {
                            "panic" => "error:panic",
                            "array-oob" => "error:array-oob",
                            "overflow" => "error:overflow",
                            _ => "error:div-zero",
                        })
                    } else {
                        Err("observation differs from the reference model".into())
                    }
                }
            }
        }
    }
}

fn judge(out: &mut UnitOut, p: &Prog, m: &Outcome, r: &Res, case: Option<&Case>) {
    match agree(m, r) {
        Ok(class) => {
            out.class(&format!("{}:{}", p.family, class));
            if let ModelEnd::Unspecified(why) = &m.end {
                out.count(&format!("unspecified: {why}"), 1);
            } else {
                out.traces += 1;
            }
        }
        Err(why) => {
            // re-run the case alone: a batch neighbour must not be the cause
            let mut standalone_note = String::new();
            if let (Some(c), false) = (case, out.isolate || out.only_case.is_some()) {
                let again = batch::run_batch(std::slice::from_ref(c), COpts::default(), ROpts::default());
                let again = from_case_result(&again[0]);
                if res_text(&again) != res_text(r) {
                    standalone_note = format!("; DIVERGENCE: alone the case gives {}", res_text(&again));
                }
            }
            out.class(&format!("{}:violation", p.family));
            out.violation(
                keys_for(p, Some(r)),
                format!("{}: {why}: model {} / observed {}{}", p.name(), model_text(m), res_text(r), standalone_note),
                json!({"case": p.name(), "program": p.standalone(), "inputs": p.inputs, "expected": model_text(m), "observed": res_text(r), "why": why}),
            );
        }
    }
}

impl Prop for C02 {
    fn id(&self) -> &'static str {
        "C02"
    }
    fn level(&self) -> &'static str {
        "model_checking"
    }
    fn n_units(&self, tier: Tier) -> usize {
        ugen::universe(tier, Scope::Modelled).units(UNIT_SIZE).len() + corpus_units(tier)
    }
    fn run_unit(&self, tier: Tier, unit: usize, out: &mut UnitOut) {
        let u = ugen::universe(tier, Scope::Modelled);
        let nu = u.units(UNIT_SIZE).len();
        if unit >= nu {
            // the standalone corpus handed to other properties: same programs, but as whole programs
            // whose body is top-level code (one compile per program)
            let corpus = ugen::standalone_corpus_full(tier);
            let lo = (unit - nu) * CORPUS_CHUNK;
            let hi = (lo + CORPUS_CHUNK).min(corpus.len());
            for (k, (_, p)) in corpus[lo..hi].iter().enumerate() {
                if !out.begin_case((lo + k) as u64) {
                    continue;
                }
                out.describe_case(&format!("{}\n{}", p.name(), p.standalone()));
                out.evaluations += 1;
                out.states += 1;
                let m = umodel::run(p);
                out.transitions += m.steps;
                let r = run_top_level(p, &p.inputs, COpts::default(), &[ROpts::default()]).pop().unwrap();
                let mut q = p.clone();
                q.family = "corpus";
                q.label = format!("standalone {}", p.name());
                judge(out, &q, &m, &r, None);
            }
            return;
        }
        let (pi, a, b) = u.units(UNIT_SIZE)[unit];
        let progs: Vec<Prog> = (a..b).map(|i| u.get(i)).collect();
        let models: Vec<Outcome> = progs.iter().map(umodel::run).collect();
        for (p, m) in progs.iter().zip(&models) {
            out.states += 1;
            out.transitions += m.steps;
            if !matches!(m.end, ModelEnd::Unspecified(_)) {
                out.nontrivial_text(&p.key_text());
            }
            if matches!(&m.end, ModelEnd::Unspecified(s) if s.starts_with("model-")) {
                out.notes.push(format!("reference model gave up on {} ({:?})", p.name(), m.end));
            }
        }
        let base = a - u.starts[pi];
        if u.parts[pi].top_level_only() {
            for (k, (p, m)) in progs.iter().zip(&models).enumerate() {
                if !out.begin_case(base + k as u64) {
                    continue;
                }
                out.describe_case(&format!("{}\n{}", p.name(), p.standalone()));
                out.evaluations += 1;
                let r = run_top_level(p, &p.inputs, COpts::default(), &[ROpts::default()]).pop().unwrap();
                judge(out, p, m, &r, None);
            }
            return;
        }
        let cases: Vec<Case> = progs.iter().map(|p| p.case()).collect();
        run_cases(out, base, &cases, BATCH, COpts::default(), ROpts::default(), |out, k, c, r| {
            if k % 211 == 0 {
                out.sample(json!({"case": c.name, "body": c.body, "model": model_text(&models[k])}));
            }
            judge(out, &progs[k], &models[k], &from_case_result(r), Some(c));
        });
    }
    fn rule(&self, tier: Tier) -> String {
        let u = ugen::universe(tier, Scope::Modelled);
        let parts: Vec<String> = u.parts.iter().map(|p| format!("{}={}", p.name(), p.len())).collect();
        format!(
            "U-prog, every stratum exhausted: {}; plus the {} programs of ugen::standalone_corpus as whole programs with the body at top level. states = programs; transitions = statements and expressions evaluated by the reference interpreter; \
             traces = programs whose output, host emits and final outcome (done / runtime error kind) were compared with the compiled program (model verdict not Unspecified). \
             Non-trivial = the model determines the outcome; every program is distinct by construction (hash of its text).",
            parts.join(", "),
            ugen::standalone_corpus_full(tier).len()
        )
    }
    fn assumptions(&self) -> Vec<String> {
        vec![
            "compound operands are fully parenthesised, so operator precedence (C31) is not exercised here".into(),
            "not asserted (Unspecified): integer power with a negative exponent, rendering of an empty array, array methods other than len/is_empty/push/pop (remove, swap, clear, sort, contains, find), tasks".into(),
            "`x op= e` is modelled as the documented `x = x op e`; index / field sub-expressions of assignment targets are side-effect free in every generated program, so the unspecified order between target and value is never observable".into(),
            "pop on an empty array is expected to stop with the documented error kind 'array index out of bounds'".into(),
            "floats are left to C16; negative literals only appear as a parenthesised unary minus".into(),
        ]
    }
    fn expected_evaluations(&self, tier: Tier) -> Option<u64> {
        Some(ugen::formula_total(tier, Scope::Modelled) + ugen::standalone_corpus_full(tier).len() as u64)
    }
    fn min_classes(&self) -> usize {
        6
    }
}
