//! C09 — channels deliver each value once, in order, as a valid independent copy.
//!
//! Producer/consumer programs explored with the multi-thread product search of sched.rs: mutator
//! steps (round-robin) interleaved with collector micro-steps on EVERY green thread's heap, in
//! quarantine mode (a finished task's heap is poisoned instead of freed, so a value that lives in
//! the writer's heap is detected when the reader touches it). Every maximal path must produce the
//! emits predicted by the channel model (FIFO, exactly once, contents as at write time).

use crate::drive::{Emit, End, Input};
use crate::fw::{Prop, Tier, UnitOut, hkey};
use crate::sched::{self, Outcome, Prog, fmt_hist};
use serde_json::json;

pub struct C09;

fn ints(v: &[i64]) -> Vec<Emit> {
    v.iter().map(|x| Emit::Int(*x)).collect()
}

/// (name, program, expected emits from the channel model, thorough_only)
pub fn programs() -> Vec<(&'static str, String, Vec<Emit>, bool)> {
    let spin = |n: u32| format!("var spin = 0\nwhile spin < {n} {{\n  spin = spin + 1\n}}\n");
    let mut v: Vec<(&'static str, String, Vec<Emit>, bool)> = vec![];
    v.push((
        "int-fifo-3",
        "let c: channel<int> = channel()\ntask {\n  c.write(1)\n  c.write(2)\n  c.write(3)\n}\nvh_emit_int(c.read())\nvh_emit_int(c.read())\nvh_emit_int(c.read())\n".into(),
        ints(&[1, 2, 3]),
        false,
    ));
    v.push((
        "array-producer-finishes-before-read",
        format!("let c: channel<array<int>> = channel()\ntask {{\n  c.write([1, 2])\n}}\n{}let r = c.read()\nvh_emit_int(r[0])\nvh_emit_int(r[1])\n", spin(6)),
        ints(&[1, 2]),
        false,
    ));
    v.push((
        "string-producer-finishes-before-read",
        format!("let c: channel<string> = channel()\ntask {{\n  c.write(\"a\" .. \"b\")\n}}\n{}let r = c.read()\nvh_emit_str(r)\n", spin(12)),
        vec![Emit::Str("ab".into())],
        false,
    ));
    v.push((
        "reader-blocked-first",
        format!("let c: channel<array<int>> = channel()\ntask {{\n{}  c.write([7])\n}}\nlet r = c.read()\nvh_emit_int(r[0])\n", spin(3).replace('\n', "\n  ").trim_end().to_string() + "\n"),
        ints(&[7]),
        false,
    ));
    v.push((
        "producer-mutates-after-write",
        "let c: channel<array<int>> = channel()\nlet d: channel<int> = channel()\ntask {\n  let a = [1]\n  c.write(a)\n  a[0] = 9\n  d.write(0)\n}\nlet z = d.read()\nlet r = c.read()\nvh_emit_int(r[0])\n".into(),
        ints(&[1]),
        false,
    ));
    v.push((
        "reader-mutates-its-copy",
        "let c: channel<array<int>> = channel()\nlet d: channel<int> = channel()\ntask {\n  let a = [1]\n  c.write(a)\n  let z = d.read()\n  vh_emit_int(a[0])\n  d.write(0)\n}\nlet r = c.read()\nr[0] = 5\nd.write(0)\nlet z2 = d.read()\nvh_emit_int(r[0])\n".into(),
        ints(&[1, 5]),
        true,
    ));
    v.push((
        "producer-keeps-running",
        "let c: channel<array<int>> = channel()\nlet d: channel<int> = channel()\ntask {\n  c.write([4])\n  let junk = [[0], [1]]\n  let z = d.read()\n}\nlet r = c.read()\nvh_emit_int(r[0])\nd.write(0)\n".into(),
        ints(&[4]),
        false,
    ));
    v.push((
        "tuple-of-array-payload",
        format!("let c: channel<(array<int>, string)> = channel()\ntask {{\n  c.write(([3], \"x\" .. \"y\"))\n}}\n{}let (p, q) = c.read()\nvh_emit_int(p[0])\nvh_emit_str(q)\n", spin(4)),
        vec![Emit::Int(3), Emit::Str("xy".into())],
        false,
    ));
    v.push((
        "struct-payload",
        format!("type Bx = {{\n  v: array<int>\n  w: int\n}}\nlet c: channel<Bx> = channel()\ntask {{\n  c.write(Bx([8], 2))\n}}\n{}let r = c.read()\nvh_emit_int(r.v[0])\nvh_emit_int(r.w)\n", spin(4)),
        ints(&[8, 2]),
        false,
    ));
    v.push((
        "enum-payload",
        format!("let c: channel<option<array<int>>> = channel()\ntask {{\n  c.write(option.some([6]))\n  c.write(option.none)\n}}\n{}match c.read() {{\n  .some(a) -> vh_emit_int(a[0])\n  .none -> vh_emit_int(0 - 1)\n}}\nmatch c.read() {{\n  .some(a) -> vh_emit_int(a[0])\n  .none -> vh_emit_int(0 - 1)\n}}\n", spin(4)),
        ints(&[6, -1]),
        false,
    ));
    v.push((
        "void-payload-done-signal",
        "let done: channel<void> = channel()\ntask {\n  vh_emit_int(1)\n  done.write(nil)\n}\ndone.read()\nvh_emit_int(2)\n".into(),
        ints(&[1, 2]),
        false,
    ));
    v.push((
        "two-channels-pipeline",
        "let jobs: channel<array<int>> = channel()\nlet results: channel<int> = channel()\ntask {\n  var k = 0\n  while k < 2 {\n    let j = jobs.read()\n    results.write(j[0] * 2)\n    k = k + 1\n  }\n}\njobs.write([5])\njobs.write([6])\nvh_emit_int(results.read())\nvh_emit_int(results.read())\n".into(),
        ints(&[10, 12]),
        false,
    ));
    v.push((
        "blocked-reader-does-not-stall-others",
        "let never: channel<int> = channel()\nlet d: channel<int> = channel()\ntask {\n  let x = never.read()\n  vh_emit_int(x)\n}\ntask {\n  d.write(1)\n  d.write(2)\n}\nvh_emit_int(d.read())\nvh_emit_int(d.read())\n".into(),
        ints(&[1, 2]),
        false,
    ));
    v.push((
        "main-writes-task-reads-heap",
        "let c: channel<array<int>> = channel()\nlet d: channel<int> = channel()\ntask {\n  let a = c.read()\n  d.write(a[0] + a[1])\n}\nc.write([20, 22])\nvh_emit_int(d.read())\n".into(),
        ints(&[42]),
        false,
    ));
    v.push((
        "channel-handle-over-channel-producer-finished",
        format!("let requests: channel<channel<int>> = channel()\ntask {{\n  let reply: channel<int> = channel()\n  reply.write(7)\n  reply.write(8)\n  requests.write(reply)\n}}\n{}let r = requests.read()\nr.write(99)\nvh_emit_int(r.read())\nvh_emit_int(r.read())\nvh_emit_int(r.read())\n", spin(8)),
        ints(&[7, 8, 99]),
        false,
    ));
    v.push((
        "channel-handle-inside-struct-over-channel",
        format!("type Req = {{\n  id: int\n  reply: channel<array<int>>\n}}\nlet requests: channel<Req> = channel()\ntask {{\n  let reply: channel<array<int>> = channel()\n  reply.write([5])\n  requests.write(Req(1, reply))\n}}\n{}let q = requests.read()\nq.reply.write([6])\nlet a = q.reply.read()\nlet b = q.reply.read()\nvh_emit_int(q.id)\nvh_emit_int(a[0])\nvh_emit_int(b[0])\n", spin(8)),
        ints(&[1, 5, 6]),
        false,
    ));
    v.push((
        "channel-handle-over-channel-request-reply",
        "let requests: channel<channel<int>> = channel()\ntask {\n  let r = requests.read()\n  r.write(41)\n  r.write(42)\n}\nlet mine: channel<int> = channel()\nrequests.write(mine)\nvh_emit_int(mine.read())\nvh_emit_int(mine.read())\n".into(),
        ints(&[41, 42]),
        false,
    ));
    v.push((
        "unread-values-at-exit",
        "let c: channel<array<int>> = channel()\ntask {\n  c.write([1])\n  c.write([2])\n}\nlet r = c.read()\nvh_emit_int(r[0])\n".into(),
        ints(&[1]),
        false,
    ));
    // several readers on one channel (reads are ordered by a second channel, so the model's answer is unique):
    // every written value is received by exactly one read, in writing order, whichever handle reads
    v.push((
        "two-handles-helper-reads-one-then-finishes",
        "let c: channel<int> = channel()\nlet done: channel<int> = channel()\nc.write(1)\nc.write(2)\nc.write(3)\ntask {\n  done.write(c.read())\n}\nvh_emit_int(done.read())\nc.write(4)\nvh_emit_int(c.read())\nvh_emit_int(c.read())\nvh_emit_int(c.read())\n".into(),
        ints(&[1, 2, 3, 4]),
        false,
    ));
    v.push((
        "two-handles-heap-payloads",
        "let c: channel<array<int>> = channel()\nlet done: channel<array<int>> = channel()\nc.write([1])\nc.write([2])\nc.write([3])\ntask {\n  let r = c.read()\n  r.push(9)\n  done.write(r)\n}\nlet f = done.read()\nvh_emit_int(f[0])\nvh_emit_int(f[1])\nlet g = c.read()\nvh_emit_int(g[0])\nvh_emit_int(g.len())\nlet h = c.read()\nvh_emit_int(h[0])\n".into(),
        ints(&[1, 9, 2, 1, 3]),
        false,
    ));
    v.push((
        "three-handles-in-turn",
        "let c: channel<int> = channel()\nlet done: channel<int> = channel()\nc.write(1)\nc.write(2)\nc.write(3)\nc.write(4)\ntask {\n  done.write(c.read())\n}\nvh_emit_int(done.read())\ntask {\n  done.write(c.read())\n}\nvh_emit_int(done.read())\nvh_emit_int(c.read())\nvh_emit_int(c.read())\n".into(),
        ints(&[1, 2, 3, 4]),
        false,
    ));
    v.push((
        "reader-task-takes-two-main-takes-the-rest",
        "let c: channel<int> = channel()\nlet done: channel<int> = channel()\nc.write(1)\nc.write(2)\nc.write(3)\nc.write(4)\ntask {\n  let a = c.read()\n  let b = c.read()\n  done.write(a * 10 + b)\n}\nvh_emit_int(done.read())\nvh_emit_int(c.read())\nvh_emit_int(c.read())\n".into(),
        ints(&[12, 3, 4]),
        false,
    ));
    v.push((
        "handle-received-over-a-channel-reads-after-the-owner",
        "let c: channel<int> = channel()\nlet cc: channel<channel<int>> = channel()\nlet done: channel<int> = channel()\nc.write(1)\nc.write(2)\nc.write(3)\nvh_emit_int(c.read())\ncc.write(c)\ntask {\n  let c2 = cc.read()\n  done.write(c2.read())\n}\nvh_emit_int(done.read())\nvh_emit_int(c.read())\n".into(),
        ints(&[1, 2, 3]),
        false,
    ));
    v.push((
        "main-reads-first-then-a-task-then-main",
        "let c: channel<int> = channel()\nlet done: channel<int> = channel()\ntask {\n  c.write(1)\n  c.write(2)\n  c.write(3)\n  c.write(4)\n}\nvh_emit_int(c.read())\ntask {\n  done.write(c.read())\n}\nvh_emit_int(done.read())\nvh_emit_int(c.read())\nvh_emit_int(c.read())\n".into(),
        ints(&[1, 2, 3, 4]),
        true,
    ));
    // the writer formats a string per round, writes it, drops it and allocates enough for its collector to run between
    // rounds: with REAL frees the next string may reuse the freed address (only the unmodified runtime shows that, so this
    // program is run under the real-mode schedules only; the product search keeps reclaimed objects in quarantine)
    v.push((
        "real-only:writer-reuses-freed-string-addresses",
        "let c: channel<string> = channel()\ntask {\n  var r = 0\n  while r < 6 {\n    var label = (1000 + r).str()\n    c.write(label)\n    label = \"\"\n    var samples: array<int> = []\n    var k = 0\n    while k < 20 {\n      samples.push(k * k)\n      k = k + 1\n    }\n    r = r + 1\n  }\n}\nvar n = 0\nwhile n < 6 {\n  vh_emit_str(c.read())\n  n = n + 1\n}\n".into(),
        (0..6).map(|r| Emit::Str(format!("{}", 1000 + r))).collect(),
        false,
    ));
    v.push((
        "real-only:writer-reuses-freed-array-addresses",
        "let c: channel<array<int>> = channel()\ntask {\n  var r = 0\n  while r < 6 {\n    var msg = [1000 + r, r]\n    c.write(msg)\n    msg = []\n    var samples: array<int> = []\n    var k = 0\n    while k < 20 {\n      samples.push(k * k)\n      k = k + 1\n    }\n    r = r + 1\n  }\n}\nvar n = 0\nwhile n < 6 {\n  let m = c.read()\n  vh_emit_int(m[0] * 10 + m[1])\n  n = n + 1\n}\n".into(),
        (0..6).map(|r| Emit::Int((1000 + r) * 10 + r)).collect(),
        false,
    ));
    v
}

/// Two producers on one channel: any order-preserving merge is allowed; each value exactly once.
fn two_producers() -> (&'static str, String) {
    (
        "two-producers-merge",
        "let c: channel<array<int>> = channel()\ntask {\n  c.write([1])\n  c.write([2])\n}\ntask {\n  c.write([11])\n  c.write([12])\n}\nvar k = 0\nwhile k < 4 {\n  let r = c.read()\n  vh_emit_int(r[0])\n  k = k + 1\n}\n".into(),
    )
}

fn merge_ok(emits: &[Emit]) -> bool {
    let v: Vec<i64> = emits.iter().filter_map(|e| if let Emit::Int(x) = e { Some(*x) } else { None }).collect();
    if v.len() != 4 || emits.len() != 4 {
        return false;
    }
    let a: Vec<i64> = v.iter().copied().filter(|x| *x < 10).collect();
    let b: Vec<i64> = v.iter().copied().filter(|x| *x > 10).collect();
    a == vec![1, 2] && b == vec![11, 12]
}

impl C09 {
    fn selected(tier: Tier) -> Vec<(&'static str, String, Vec<Emit>, bool)> {
        programs().into_iter().filter(|p| tier == Tier::Thorough || !p.3).collect()
    }
}

impl Prop for C09 {
    fn id(&self) -> &'static str {
        "C09"
    }
    fn level(&self) -> &'static str {
        "model_checking"
    }
    fn n_units(&self, tier: Tier) -> usize {
        Self::selected(tier).len() + 1
    }
    fn run_unit(&self, tier: Tier, unit: usize, out: &mut UnitOut) {
        let sel = Self::selected(tier);
        let (name, body, expected, merge) = if unit < sel.len() {
            let (n, b, e, _) = sel[unit].clone();
            (n, b, Some(e), false)
        } else {
            let (n, b) = two_producers();
            (n, b, None, true)
        };
        if !out.begin_case(0) {
            return;
        }
        let text = format!("use vh\n{body}");
        out.describe_case(&format!("{name}\n{text}"));
        let prog = match Prog::compile(name, &text, Vec::<Input>::new()) {
            Ok(p) => p,
            Err(e) => {
                out.class("program-rejected");
                out.violation(vec![format!("input:{}", hkey(&format!("{name}|compile")))], format!("P-chan program `{name}` {e}"), json!({"program": text, "observed": e}));
                return;
            }
        };
        let (reference, ref_steps) = sched::reference(&prog, 20_000);
        out.count("reference_mutator_steps", ref_steps as i64);
        // the collection-disabled run must itself agree with the channel model
        let model_ok = |o: &Outcome| -> bool {
            o.end == Some(End::Done)
                && match &expected {
                    Some(e) => o.emits == *e,
                    None => merge_ok(&o.emits),
                }
        };
        out.evaluations += 1;
        out.nontrivial_text(&text);
        if !model_ok(&reference) {
            out.class("violation");
            out.violation(
                vec![format!("input:{}", hkey(&format!("{name}|reference"))), format!("prog:{name}")],
                format!("{name}: without any collection the program yields end={:?} emits={:?}, channel model expects {:?}", reference.end, reference.emits, expected),
                json!({"program": text, "observed": format!("{:?}", reference), "expected": format!("{expected:?}"), "merge_rule": merge}),
            );
            return;
        }
        // the same program on the unmodified runtime (real frees, real collector pacing): the product
        // search below runs in quarantine mode, which keeps reclaimed objects (and whatever they own)
        // alive, so ownership bugs that only show when memory is really released are caught here
        {
            let ep = match crate::embed::compile_eprog(name, &text, vec![], vec![]) {
                Ok(e) => e,
                Err(e) => {
                    out.violation(vec![format!("input:{}", hkey(&format!("{name}|compile2")))], format!("{name}: {e}"), json!({"program": text}));
                    return;
                }
            };
            let mut bad: Option<(String, String)> = None;
            let mut check = |sched: String, x: &crate::embed::Execution| {
                let o = Outcome { end: Some(x.obs.end.clone()), emits: x.obs.emits.clone(), out: x.obs.out.clone() };
                if !model_ok(&o) && bad.is_none() {
                    bad = Some((sched, format!("end={} emits={:?}", x.obs.end.class(), x.obs.emits)));
                }
            };
            for b in [1u32, 2, 3, 7, 64, 1000] {
                let x = crate::embed::execute_uniform(&ep, b, 100_000);
                check(format!("uniform budget {b}"), &x);
                out.traces += 1;
            }
            let (count, _) = crate::embed::explore(&ep, 1, 100_000, tier.pick(3_000, 50_000), &mut |x| check(crate::embed::fmt_choices(x), x));
            out.traces += count;
            out.count("real_mode_executions", count as i64 + 6);
            if let Some((sched, obs)) = bad {
                out.class("violation");
                out.violation(
                    vec![format!("input:{}", hkey(&format!("{name}|real|{sched}"))), format!("prog:{name}")],
                    format!("{name}: on the unmodified runtime under [{sched}]: {obs}; channel model expects {:?}", expected),
                    json!({"program": text, "schedule": sched, "observed": obs, "expected": format!("{expected:?}")}),
                );
                return;
            }
        }
        if name.starts_with("real-only:") {
            out.class("program:real-mode-only");
            out.sample(json!({"program": name, "reference_steps": ref_steps}));
            return;
        }
        let cycles = tier.pick(1, 2);
        let cap = tier.pick(300_000, 3_000_000);
        let (stats, cex, machinery) = sched::product_bfs(&prog, cycles, cap, &reference, |_, _| Ok(()));
        out.states += stats.states;
        out.transitions += stats.transitions;
        out.traces += stats.maximal_paths;
        out.capped |= stats.capped;
        if stats.capped {
            out.notes.push(format!("{name}: state cap {cap} reached at depth {}", stats.max_depth));
        }
        for (k, v) in &stats.outcomes {
            *out.classes.entry(k.clone()).or_insert(0) += v;
        }
        out.class(&format!("program:{}", if merge { "merge" } else { "fifo" }));
        out.sample(json!({"program": name, "states": stats.states, "transitions": stats.transitions, "maximal_paths": stats.maximal_paths, "reference_steps": ref_steps}));
        for m in machinery {
            out.notes.push(format!("MACHINERY: {m}"));
            out.count("merge_argument_failures", 1);
        }
        for c in cex.iter().take(1) {
            let h = fmt_hist(&c.history);
            out.violation(
                vec![format!("input:{}", hkey(&format!("{name}|{h}"))), format!("prog:{name}")],
                format!("{name}: schedule {h} => {}", c.what),
                json!({"program": text, "schedule": h, "observed": c.what, "cycles_bound": cycles}),
            );
        }
    }
    fn replay_detail(&self, d: &serde_json::Value) -> Option<Result<String, String>> {
        // a recorded schedule on a named program is replayed directly, without the search
        let schedule = d.get("schedule")?.as_str()?;
        let text = d.get("program")?.as_str()?;
        sched::parse_hist(schedule)?;
        let all: Vec<(String, String, Vec<Input>)> =
            programs().into_iter().map(|(n, b, _, _)| (n.to_string(), format!("use vh\n{b}"), vec![])).collect();
        let (name, _, inputs) = all.into_iter().find(|(_, t, _)| t == text)?;
        Some(sched::replay_schedule(&name, text, inputs, schedule))
    }
    fn rule(&self, tier: Tier) -> String {
        format!(
            "{} producer/consumer programs (int/string/array/tuple/struct/enum/void payloads; producer finished before the read, still running, mutating after the write, \
             reader blocked first, pipeline over two channels, blocked reader next to a progressing task, values left unread, two producers on one channel): the collection-disabled \
             run must equal the channel model (FIFO, exactly once, contents as written; order-preserving merge for two producers) and the breadth-first product search explores every \
             interleaving of round-robin mutator steps with collector micro-steps on every thread's heap (<= {} cycle(s) per thread) in quarantine mode, where a finished task's heap is \
             poisoned; invariant in every state: nothing reachable (including through channel queues) is reclaimed; every maximal path equals the reference outcome",
            Self::selected(tier).len() + 1,
            tier.pick(1, 2)
        )
    }
    fn assumptions(&self) -> Vec<String> {
        vec![
            "Runtime::run_n_steps executes one instruction per thread turn for every budget, so step budgets cannot change the interleaving of tasks; budget/host-delay variation is explored in C10".into(),
            "hooks H3 (quarantine, schedulable collector) as for C06".into(),
        ]
    }
}
