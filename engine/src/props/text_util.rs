//! Shared by C04 / C34 / C33: corpus loader, conservative tokenizer, deviation-bounded mutators,
//! unit planning for the deviation-1 neighbourhood, and panic-safe wrappers around check /
//! compile that also cover the *rendering* of the diagnostics (`ErrorSummary`'s `Display`, which
//! is what the CLI prints and which slices the source text with the diagnostic ranges).

use crate::drive::{self, PanicInfo, Src};
use crate::fw::{UnitOut, fnv64};
use std::collections::{BTreeSet, HashSet};
use std::sync::OnceLock;

// ------------------------------------------------------------------ corpus

#[derive(Clone, Debug)]
pub struct CorpusFile {
    pub name: String,
    pub text: String,
}

const CORE_DIR: &str = "/repo/modules/core";
const TEST_DIR: &str = "/repo/abra_core/tests/integration";
const EXAMPLES_DIR: &str = "/repo/examples";

fn sorted_files(dir: &str, ext: &str) -> Vec<(String, String)> {
    let mut v = vec![];
    if let Ok(rd) = std::fs::read_dir(dir) {
        for e in rd.flatten() {
            let p = e.path();
            if p.extension().and_then(|x| x.to_str()) == Some(ext) {
                if let (Some(stem), Ok(text)) = (p.file_stem().and_then(|s| s.to_str()), std::fs::read_to_string(&p)) {
                    v.push((stem.to_string(), text));
                }
            }
        }
    }
    v.sort();
    v
}

/// module paths named by `use` lines (`use core/map`, `use util.foo`, `use a/b as c`, `use x except y`)
pub fn imports_of(text: &str) -> Vec<String> {
    let mut v = vec![];
    for l in text.lines() {
        let t = l.trim_start();
        if let Some(rest) = t.strip_prefix("use ") {
            let p: String = rest.trim_start().chars().take_while(|c| c.is_ascii_alphanumeric() || *c == '_' || *c == '/').collect();
            if !p.is_empty() {
                v.push(p);
            }
        }
    }
    v
}

/// The `core/*.abra` modules that are pure Abra (no `#foreign`, and importing only pure modules):
/// these are supplied next to every main file, so corpus programs that import them stand alone.
pub fn pure_core_modules() -> &'static Vec<(String, String)> {
    static C: OnceLock<Vec<(String, String)>> = OnceLock::new();
    C.get_or_init(|| {
        let all = sorted_files(CORE_DIR, "abra");
        let mut pure: BTreeSet<String> = all.iter().filter(|(_, t)| !t.contains("#foreign")).map(|(n, _)| format!("core/{n}")).collect();
        loop {
            let before = pure.len();
            for (n, t) in &all {
                let me = format!("core/{n}");
                if pure.contains(&me) && imports_of(t).iter().any(|i| !pure.contains(i)) {
                    pure.remove(&me);
                }
            }
            if pure.len() == before {
                break;
            }
        }
        all.into_iter().filter(|(n, _)| pure.contains(&format!("core/{n}"))).map(|(n, t)| (format!("core/{n}.abra"), t)).collect()
    })
}

/// A main file plus the pure core modules.
pub fn src_for(text: &str) -> Src {
    let mut s = Src::single(text);
    for (n, t) in pure_core_modules() {
        s.files.push((n.clone(), t.clone()));
    }
    s
}

/// every `r#"…"#` literal of a Rust source file, in order
pub fn raw_strings(rs: &str) -> Vec<String> {
    let b = rs.as_bytes();
    let mut v = vec![];
    let mut i = 0;
    while i + 3 <= b.len() {
        if &b[i..i + 3] == b"r#\"" && (i == 0 || !(b[i - 1].is_ascii_alphanumeric() || b[i - 1] == b'_')) {
            let start = i + 3;
            if let Some(rel) = rs[start..].find("\"#") {
                v.push(rs[start..start + rel].to_string());
                i = start + rel + 2;
                continue;
            } else {
                break;
            }
        }
        i += 1;
    }
    v
}

pub const HANDWRITTEN: [(&str, &str); 12] = [
    // tiny programs for the features no short test program uses: default and named arguments, struct and enum
    // constructors with defaults, member functions (C04 and C34 name them in their ALWAYS lists). Parameters are
    // annotated: with inferred parameters the identifier neighbours `f + b` / `g - b` are two more inputs of the known
    // cyclic-type non-termination (20 CPU s each in every quick run), which the inferred corpus programs already reach.
    ("tiny/default-args", "fn f(a: int, b: int = 2) -> int {\n  a + b\n}\nf(1)\nf(1, 2)\n"),
    ("tiny/named-args", "fn g(a: int, b: int = 5) -> int {\n  a - b\n}\ng(b = 1, a = 2)\n"),
    ("tiny/struct-defaults", "type Pt = {\n  x: int\n  y: int = 7\n}\nPt(1)\nPt(1, y = 2).y\n"),
    ("tiny/enum-defaults", "type Sh = Ci(r: int = 1) | Sq\nSh.Ci(r = 2)\nSh.Ci()\n"),
    ("tiny/member-fn", "extend int {\n  fn p(self, d: int = 1) -> int = self + d\n}\n(2).p(3)\n"),
    // an aliased import used through the alias (its neighbourhood contains aliases of modules that do not exist)
    // member functions called through the type name (deleting the receiver leaves an empty argument list)
    ("tiny/qualified-member", "type Pe = {\n  n: int\n}\nextend Pe {\n  fn age(self) -> int = self.n\n}\nlet p = Pe(3)\nPe.age(p)\narray.len([1])\n"),
    ("tiny/alias-import", "use core/colors as co\nlet colors = co.red(1)\nco.blue(colors)\n"),
    ("hand/accents", "// café ☕ commentaire\nlet s = \"héllo wörld\"\nprintln(s)\n"),
    ("hand/japanese", "let a = \"日本語\"\nlet b = 'テキスト'\nprintln(a .. b) // 連結\n"),
    (
        "hand/emoji",
        "fn greet(name: string) -> string {\n  \"👋 \" .. name .. \" 🎉\"\n}\nprintln(greet(\"wörld\")) /* 🚀 block */\n",
    ),
    (
        "hand/match",
        "type Shape = Circle(float) | Square(float)\n// área — 面積\nfn describe(s: Shape) -> string {\n  match s {\n    .Circle(r) -> \"círculo ⭕\"\n    .Square(x) -> \"cuadrado ◻\"\n  }\n}\nprintln(describe(Shape.Circle(1.0)))\n",
    ),
    (
        "hand/struct",
        "type Person = {\n  name: string\n  age: int\n}\nlet ps = [Person(\"Zoë\", 30), Person(\"太郎\", 25)]\nvar total = 0\nfor p in ps {\n  println(p.name .. \" → \" .. p.age.str())\n  total = total + p.age\n}\nprintln(total) // Σ\n",
    ),
];

/// The corpus, sorted by (byte length, text). Loaded from the working tree at check time.
pub fn corpus() -> &'static Vec<CorpusFile> {
    static C: OnceLock<Vec<CorpusFile>> = OnceLock::new();
    C.get_or_init(|| {
        let pure: HashSet<String> = pure_core_modules().iter().map(|(n, _)| n.trim_end_matches(".abra").to_string()).collect();
        let standalone = |t: &str| imports_of(t).iter().all(|i| pure.contains(i));
        let mut v: Vec<CorpusFile> = vec![];
        for (stem, rs) in sorted_files(TEST_DIR, "rs") {
            for (k, s) in raw_strings(&rs).into_iter().enumerate() {
                if s.trim().is_empty() || !standalone(&s) {
                    continue;
                }
                v.push(CorpusFile { name: format!("tests/{stem}.rs#{k}"), text: s });
            }
        }
        for (n, t) in pure_core_modules() {
            // used as a main file (the module text itself; its own imports are supplied)
            v.push(CorpusFile { name: format!("modules/{n}"), text: t.clone() });
        }
        for (stem, t) in sorted_files(EXAMPLES_DIR, "abra") {
            if standalone(&t) && !t.contains("#foreign") {
                v.push(CorpusFile { name: format!("examples/{stem}.abra"), text: t });
            }
        }
        for (n, t) in HANDWRITTEN {
            v.push(CorpusFile { name: n.to_string(), text: t.to_string() });
        }
        v.sort_by(|a, b| (a.text.len(), &a.text, &a.name).cmp(&(b.text.len(), &b.text, &b.name)));
        v.dedup_by(|b, a| a.text == b.text);
        v
    })
}

// ------------------------------------------------------------------ tokenizer

#[derive(Clone, Copy, PartialEq, Eq, Debug)]
pub enum TK {
    Space,
    Newline,
    Ident,
    Keyword,
    Int,
    Float,
    Str,
    Comment,
    Op,
    Other,
}

#[derive(Clone, Copy, Debug)]
pub struct Tok {
    pub lo: usize,
    pub hi: usize,
    pub kind: TK,
}

pub const KEYWORDS: [&str; 36] = [
    "let", "var", "type", "interface", "outputtype", "implement", "impl", "extend", "use", "as", "except", "fn", "match", "break",
    "continue", "return", "while", "for", "in", "if", "else", "task", "nil", "true", "false", "int", "float", "bool", "string", "void",
    "and", "or", "not", "_", "self", "Self",
];
const OPS2: [&str; 11] = ["<=", "==", "!=", ">=", "+=", "-=", "*=", "/=", "%=", "->", ".."];

/// Conservative tokenizer: the tokens partition the text (joining them gives the identical text).
pub fn tokenize(s: &str) -> Vec<Tok> {
    let b = s.as_bytes();
    let n = b.len();
    let mut v = vec![];
    let mut i = 0;
    let is_id0 = |c: u8| c == b'_' || c.is_ascii_alphabetic();
    let is_id = |c: u8| c == b'_' || c.is_ascii_alphanumeric();
    while i < n {
        let c = b[i];
        let lo = i;
        let kind;
        if c == b' ' || c == b'\t' {
            while i < n && (b[i] == b' ' || b[i] == b'\t') {
                i += 1;
            }
            kind = TK::Space;
        } else if c == b'\n' {
            i += 1;
            kind = TK::Newline;
        } else if is_id0(c) {
            while i < n && is_id(b[i]) {
                i += 1;
            }
            kind = if KEYWORDS[..33].contains(&&s[lo..i]) { TK::Keyword } else { TK::Ident };
        } else if c.is_ascii_digit() {
            while i < n && (b[i].is_ascii_digit() || b[i] == b'_') {
                i += 1;
            }
            if i + 1 < n && b[i] == b'.' && b[i + 1].is_ascii_digit() {
                i += 1;
                while i < n && (b[i].is_ascii_digit() || b[i] == b'_') {
                    i += 1;
                }
                kind = TK::Float;
            } else {
                kind = TK::Int;
            }
        } else if s[i..].starts_with("\"\"\"") {
            i = match s[i + 3..].find("\"\"\"") {
                Some(r) => i + 3 + r + 3,
                None => n,
            };
            kind = TK::Str;
        } else if c == b'"' || c == b'\'' {
            i += 1;
            loop {
                if i >= n {
                    i = n;
                    break;
                }
                if b[i] == b'\\' {
                    // skip the escaped char (whole char, not just one byte)
                    i += 1;
                    if i < n {
                        i += s[i..].chars().next().map(|c| c.len_utf8()).unwrap_or(1);
                    }
                    continue;
                }
                if b[i] == c {
                    i += 1;
                    break;
                }
                i += 1;
            }
            kind = TK::Str;
        } else if s[i..].starts_with("//") {
            while i < n && b[i] != b'\n' {
                i += 1;
            }
            kind = TK::Comment;
        } else if s[i..].starts_with("/*") {
            i = match s[i + 2..].find("*/") {
                Some(r) => i + 2 + r + 2,
                None => n,
            };
            kind = TK::Comment;
        } else if i + 2 <= n && s.is_char_boundary(i + 2) && OPS2.contains(&&s[i..i + 2]) {
            i += 2;
            kind = TK::Op;
        } else if c.is_ascii() {
            i += 1;
            kind = if c.is_ascii_punctuation() { TK::Op } else { TK::Other };
        } else {
            i += s[i..].chars().next().map(|c| c.len_utf8()).unwrap_or(1);
            kind = TK::Other;
        }
        v.push(Tok { lo, hi: i.min(n), kind });
        i = i.min(n);
    }
    v
}

// ------------------------------------------------------------------ alphabets

/// Replacement / garbage alphabet, "core" (quick): representative keywords, all brackets, the operator
/// classes, the five lexer-mode switches, one identifier, one literal.
pub const ALPHA_CORE: [&str; 44] = [
    "let", "var", "type", "interface", "implement", "use", "fn", "match", "break", "return", "while", "for", "in", "if", "else", "task",
    "nil", "int", "not", "(", ")", "{", "}", "[", "]", "=", "==", "+", "-", ".", "..", ",", ":", "->", "|", "#", "!", "\"", "'",
    "\"\"\"", "/*", "\\", "x", "1",
];

/// Full alphabet (thorough, on the shortest files): every keyword, bracket and operator of the lexer.
pub const ALPHA_FULL: [&str; 79] = [
    "let", "var", "type", "interface", "outputtype", "implement", "impl", "extend", "use", "as", "except", "fn", "match", "break",
    "continue", "return", "while", "for", "in", "if", "else", "task", "nil", "true", "false", "int", "float", "bool", "string", "void",
    "and", "or", "not", "_", "(", ")", "{", "}", "[", "]", "=", "<", "<=", "==", "!=", ">=", ">", "!", "?", "+", "+=", "-", "-=", "*",
    "*=", "/", "/=", "^", "%", "%=", ".", "..", ",", ":", ";", "->", "|", "#", "\"", "'", "\"\"\"", "/*", "\\", "x", "1", "1.5", "\n",
    "//", "*/",
];

pub const INSERT_CHARS: [char; 9] = ['"', '\'', '\\', '/', '*', 'é', '日', '\0', '\r'];

// ------------------------------------------------------------------ deviation-1 neighbourhood

#[derive(Clone, Debug)]
pub struct Mutant {
    pub text: String,
    pub desc: String,
    /// byte offset (in the source AND in the mutant) where the edit starts
    pub pos: usize,
}

pub struct Neigh<'a> {
    pub text: &'a str,
    pub toks: Vec<Tok>,
    /// indices of the tokens that are not runs of blanks
    pub sig: Vec<usize>,
    /// char boundaries, including 0 and len
    pub bounds: Vec<usize>,
    pub alpha: &'static [&'static str],
    /// indices of the identifier tokens
    pub idents: Vec<usize>,
    /// the distinct identifiers of the file, in order of first occurrence
    pub names: Vec<&'a str>,
}

fn wordlike(c: Option<char>) -> bool {
    matches!(c, Some(c) if c == '_' || c.is_ascii_alphanumeric())
}

impl<'a> Neigh<'a> {
    pub fn new(text: &'a str, alpha: &'static [&'static str]) -> Self {
        let toks = tokenize(text);
        let sig = (0..toks.len()).filter(|i| toks[*i].kind != TK::Space).collect();
        let mut bounds: Vec<usize> = text.char_indices().map(|x| x.0).collect();
        bounds.push(text.len());
        let idents: Vec<usize> = (0..toks.len()).filter(|i| toks[*i].kind == TK::Ident).collect();
        let mut names: Vec<&str> = vec![];
        for &i in &idents {
            let w = &text[toks[i].lo..toks[i].hi];
            if !names.contains(&w) {
                names.push(w);
            }
        }
        Neigh { text, toks, sig, bounds, alpha, idents, names }
    }
    pub fn n_identity(&self) -> usize {
        1
    }
    pub fn n_prefix(&self) -> usize {
        self.bounds.len() - 1
    }
    pub fn n_delete(&self) -> usize {
        self.toks.len()
    }
    pub fn n_replace(&self) -> usize {
        self.sig.len() * self.alpha.len()
    }
    pub fn n_insert(&self) -> usize {
        self.bounds.len() * INSERT_CHARS.len()
    }
    pub fn n_swap(&self) -> usize {
        self.sig.len().saturating_sub(1)
    }
    /// semantic-level neighbours: every identifier token replaced by every OTHER identifier of the same file
    /// (duplicate parameter / field / binding names, a use of the wrong variable, function, type or field …)
    pub fn n_ident_replace(&self) -> usize {
        self.idents.len() * self.names.len().saturating_sub(1)
    }
    /// closed-form size of the deviation ≤ 1 neighbourhood (before text-level deduplication)
    pub fn len(&self) -> usize {
        self.n_identity() + self.n_prefix() + self.n_delete() + self.n_replace() + self.n_insert() + self.n_swap() + self.n_ident_replace()
    }
    fn splice(&self, lo: usize, hi: usize, with: &str) -> String {
        let mut s = String::with_capacity(self.text.len() + with.len());
        s.push_str(&self.text[..lo]);
        s.push_str(with);
        s.push_str(&self.text[hi..]);
        s
    }
    pub fn get(&self, mut i: usize) -> Mutant {
        let t = self.text;
        if i < 1 {
            return Mutant { text: t.to_string(), desc: "identity".into(), pos: t.len() };
        }
        i -= 1;
        if i < self.n_prefix() {
            let b = self.bounds[i];
            return Mutant { text: t[..b].to_string(), desc: format!("prefix[..{b}]"), pos: b };
        }
        i -= self.n_prefix();
        if i < self.n_delete() {
            let k = self.toks[i];
            return Mutant { text: self.splice(k.lo, k.hi, ""), desc: format!("delete token {:?}@{}", &t[k.lo..k.hi], k.lo), pos: k.lo };
        }
        i -= self.n_delete();
        if i < self.n_replace() {
            let k = self.toks[self.sig[i / self.alpha.len()]];
            let a = self.alpha[i % self.alpha.len()];
            // keep the replacement a token of its own: do not let a word glue to a neighbouring word
            let mut w = String::new();
            if wordlike(a.chars().next()) && wordlike(t[..k.lo].chars().next_back()) {
                w.push(' ');
            }
            w.push_str(a);
            if wordlike(a.chars().next_back()) && wordlike(t[k.hi..].chars().next()) {
                w.push(' ');
            }
            return Mutant { text: self.splice(k.lo, k.hi, &w), desc: format!("replace token {:?}@{} by {:?}", &t[k.lo..k.hi], k.lo, a), pos: k.lo };
        }
        i -= self.n_replace();
        if i < self.n_insert() {
            let b = self.bounds[i / INSERT_CHARS.len()];
            let c = INSERT_CHARS[i % INSERT_CHARS.len()];
            let mut buf = [0u8; 4];
            return Mutant { text: self.splice(b, b, c.encode_utf8(&mut buf)), desc: format!("insert {c:?}@{b}"), pos: b };
        }
        i -= self.n_insert();
        if i < self.n_swap() {
            let (a, b) = (self.toks[self.sig[i]], self.toks[self.sig[i + 1]]);
            let mut s = String::with_capacity(t.len());
            s.push_str(&t[..a.lo]);
            s.push_str(&t[b.lo..b.hi]);
            s.push_str(&t[a.hi..b.lo]);
            s.push_str(&t[a.lo..a.hi]);
            s.push_str(&t[b.hi..]);
            return Mutant { text: s, desc: format!("swap tokens {:?}@{} and {:?}@{}", &t[a.lo..a.hi], a.lo, &t[b.lo..b.hi], b.lo), pos: a.lo };
        }
        i -= self.n_swap();
        assert!(i < self.n_ident_replace(), "mutant index out of range");
        // the family comes last, so the raw indices of the older families are unchanged
        let others = self.names.len() - 1;
        let k = self.toks[self.idents[i / others]];
        let own = &t[k.lo..k.hi];
        let o = self.names.iter().position(|n| *n == own).expect("the token's own text is one of the names");
        let j = i % others;
        let with = self.names[if j < o { j } else { j + 1 }];
        // an identifier takes the place of an identifier: the token boundaries stay as they are
        Mutant { text: self.splice(k.lo, k.hi, with), desc: format!("replace identifier {:?}@{} by the file's identifier {:?}", own, k.lo, with), pos: k.lo }
    }
}

/// Unit plan of the deviation-1 family: (file index in `corpus()`, first raw mutant, end raw mutant).
#[derive(Clone, Copy, Debug)]
pub struct Dev1Unit {
    pub file: usize,
    pub lo: usize,
    pub hi: usize,
}

/// Cost-budgeted choice of the shortest files. The cost of one mutant of a file of `len` bytes is
/// `per_case_us + per_byte_us * len` microseconds; after the `always` files, files are taken in corpus order
/// while the total stays within `budget_core_s` (always at least one file).
pub fn pick_files(alpha_len: usize, per_case_us: f64, per_byte_us: f64, budget_core_s: f64, always: &[&str]) -> Vec<usize> {
    let cost = |f: &CorpusFile| neigh_len(&f.text, alpha_len) as f64 * (per_case_us + per_byte_us * f.text.len() as f64) / 1e6;
    // files named in `always` (the hand-written non-ASCII programs) are in whatever their length
    let mut v: Vec<usize> = (0..corpus().len()).filter(|i| always.contains(&corpus()[*i].name.as_str())).collect();
    let mut total: f64 = v.iter().map(|i| cost(&corpus()[*i])).sum();
    for (i, f) in corpus().iter().enumerate() {
        if v.contains(&i) {
            continue;
        }
        let c = cost(f);
        if !v.is_empty() && total + c > budget_core_s {
            break;
        }
        total += c;
        v.push(i);
    }
    v.sort();
    v
}

pub fn neigh_len(text: &str, alpha_len: usize) -> usize {
    let toks = tokenize(text);
    let sig = toks.iter().filter(|t| t.kind != TK::Space).count();
    let chars = text.chars().count();
    let idents: Vec<&str> = toks.iter().filter(|t| t.kind == TK::Ident).map(|t| &text[t.lo..t.hi]).collect();
    let distinct: BTreeSet<&str> = idents.iter().copied().collect();
    1 + chars + toks.len() + sig * alpha_len + (chars + 1) * INSERT_CHARS.len() + sig.saturating_sub(1) + idents.len() * distinct.len().saturating_sub(1)
}

pub fn plan_dev1(files: &[usize], alpha_len: usize, chunk: usize) -> Vec<Dev1Unit> {
    let mut v = vec![];
    for &f in files {
        let n = neigh_len(&corpus()[f].text, alpha_len);
        let mut lo = 0;
        while lo < n {
            let hi = (lo + chunk).min(n);
            v.push(Dev1Unit { file: f, lo, hi });
            lo = hi;
        }
    }
    v
}

/// Enumerate the raw mutants `lo..hi` of a file, skipping those whose text already occurred at a smaller
/// raw index of the same file (the earlier indices are re-enumerated, hash only, so that "first occurrence"
/// is well defined across units). `f(out, raw_index, mutant)` is called for first occurrences only, after
/// `begin_case(raw_index)` accepted the case.
pub fn for_each_dev1(out: &mut UnitOut, text: &str, alpha: &'static [&'static str], lo: usize, hi: usize, mut f: impl FnMut(&mut UnitOut, usize, &Mutant)) {
    let ng = Neigh::new(text, alpha);
    let mut seen: HashSet<u64> = HashSet::new();
    for i in 0..hi.min(ng.len()) {
        let m = ng.get(i);
        let first = seen.insert(fnv64(m.text.as_bytes()));
        if i < lo {
            continue;
        }
        if !first {
            out.count("raw_mutants_with_duplicate_text_skipped", 1);
            continue;
        }
        if !out.begin_case(i as u64) {
            continue;
        }
        f(out, i, &m);
    }
}

// ------------------------------------------------------------------ panic-safe check / compile incl. rendering

#[derive(Clone, Debug)]
pub enum Outcome {
    /// accepted (check) / compiled (compile)
    Ok,
    /// rejected with a rendered, non-empty diagnostic text
    Diag(String),
    /// rejected, but the rendered diagnostics are empty
    EmptyDiag,
    /// the analysis itself panicked
    Panic(PanicInfo),
    /// the analysis returned diagnostics, but rendering them (what the CLI does) panicked
    RenderPanic(PanicInfo),
}

impl Outcome {
    pub fn panic(&self) -> Option<(&'static str, &PanicInfo)> {
        match self {
            Outcome::Panic(p) => Some(("analysis", p)),
            Outcome::RenderPanic(p) => Some(("diagnostic rendering", p)),
            _ => None,
        }
    }
}

fn render(e: &abra_core::ErrorSummary) -> Outcome {
    match drive::catch(|| format!("{e}")) {
        Ok(s) if s.trim().is_empty() => Outcome::EmptyDiag,
        Ok(s) => Outcome::Diag(s),
        Err(p) => Outcome::RenderPanic(p),
    }
}

pub fn check_text(src: &Src) -> Outcome {
    abra_core::verif::reset_counters(1);
    match drive::catch(|| abra_core::check(&src.main, src.provider())) {
        Ok(Ok(())) => Outcome::Ok,
        Ok(Err(e)) => render(&e),
        Err(p) => Outcome::Panic(p),
    }
}

pub fn compile_text(src: &Src) -> Outcome {
    abra_core::verif::reset_counters(1);
    match drive::catch(|| abra_core::compile_bytecode(&src.main, src.provider()).map(|_| ())) {
        Ok(Ok(())) => Outcome::Ok,
        Ok(Err(e)) => render(&e),
        Err(p) => Outcome::Panic(p),
    }
}

/// Stable key of a root cause that many inputs reach (so that one known-findings entry covers all of them).
/// `root:cyclic-type-unionfind-borrow`: the type checker builds a self-referential type (there is no occurs check) and
/// the union-find's merge callback re-enters the element it is merging: `RefCell already borrowed` inside the
/// `disjoint-sets` crate. The in-process form of the known "cyclic type" defect (its other forms, stack overflow and
/// non-termination, end the worker process and are keyed by the framework).
pub fn root_key(p: &PanicInfo) -> Option<String> {
    if p.site.contains("disjoint-sets") && p.msg.contains("already borrowed") {
        return Some("root:cyclic-type-unionfind-borrow".into());
    }
    None
}

/// Outcome class of a rejected text: the first diagnostic's headline with quoted names removed.
pub fn diag_class(rendered: &str) -> String {
    let l = rendered.lines().find(|l| !l.trim().is_empty()).unwrap_or("");
    let l = l.trim().strip_prefix("error: ").unwrap_or(l.trim());
    let mut s = String::new();
    let mut in_tick = false;
    for c in l.chars() {
        if c == '`' {
            in_tick = !in_tick;
            if !in_tick {
                s.push('_');
            }
            continue;
        }
        if !in_tick {
            s.push(if c.is_ascii_digit() { '#' } else { c });
        }
    }
    s.truncate(48);
    s
}

/// short printable form for `what` lines
pub fn shorten(s: &str, n: usize) -> String {
    let e: String = s.chars().flat_map(|c| c.escape_debug()).collect();
    if e.chars().count() <= n { e } else { format!("{}…", e.chars().take(n).collect::<String>()) }
}

// ------------------------------------------------------------------ CPU-time guard

/// Seconds this thread has spent ON a CPU (Linux `/proc/thread-self/schedstat`, ns resolution). A wall
/// clock would raise false "non-termination" alarms when the machine is shared; CPU time does not.
pub fn thread_cpu_s() -> Option<f64> {
    let s = std::fs::read_to_string("/proc/thread-self/schedstat").ok()?;
    let ns: u64 = s.split_whitespace().next()?.parse().ok()?;
    Some(ns as f64 / 1e9)
}

/// Stopwatch for the termination guard: CPU seconds if available, else wall seconds.
pub struct Guard {
    wall: std::time::Instant,
    cpu: Option<f64>,
}
impl Guard {
    pub fn start() -> Guard {
        Guard { wall: std::time::Instant::now(), cpu: thread_cpu_s() }
    }
    /// seconds consumed by the guarded call; never more than the wall time
    pub fn elapsed_s(&self) -> f64 {
        let w = self.wall.elapsed().as_secs_f64();
        if w < 0.25 {
            return w; // cannot exceed any threshold we use; skip the /proc read
        }
        match (self.cpu, thread_cpu_s()) {
            (Some(a), Some(b)) => (b - a).min(w),
            _ => w,
        }
    }
}

// ------------------------------------------------------------------ single error mutations (C33, and a family of C04)

#[derive(Clone, Debug)]
pub struct ErrMut {
    pub text: String,
    pub kind: &'static str,
    pub desc: String,
    /// byte range (in `text`) of the mutated / inserted token; empty for deletions
    pub lo: usize,
    pub hi: usize,
    /// weak locality is asserted for this mutation
    pub locality: bool,
}

fn splice_str(t: &str, lo: usize, hi: usize, with: &str) -> String {
    format!("{}{}{}", &t[..lo], with, &t[hi..])
}

fn matching_close(toks: &[Tok], t: &str, open_idx: usize) -> Option<usize> {
    let mut depth = 0i32;
    for (i, k) in toks.iter().enumerate().skip(open_idx) {
        if k.kind != TK::Op {
            continue;
        }
        match &t[k.lo..k.hi] {
            "(" | "[" | "{" => depth += 1,
            ")" | "]" | "}" => {
                depth -= 1;
                if depth == 0 {
                    return if &t[k.lo..k.hi] == ")" { Some(i) } else { None };
                }
            }
            _ => {}
        }
    }
    None
}

/// `uses[i]` = the identifier token i is a use whose definition lies elsewhere (computed on the unmutated text)
pub fn error_mutations(t: &str, is_use: &dyn Fn(usize) -> bool) -> Vec<ErrMut> {
    error_mutations_ext(t, is_use, false)
}

/// `extended` adds the semantic crash-hunting kinds used only by C04 (assignments to every name on the next line and
/// inside the next block, `name[0] += 1`, postfix `? ! .zz [0] ()` on every identifier, jump statements after every line).
pub fn error_mutations_ext(t: &str, is_use: &dyn Fn(usize) -> bool, extended: bool) -> Vec<ErrMut> {
    let toks = tokenize(t);
    let sig: Vec<usize> = (0..toks.len()).filter(|i| toks[*i].kind != TK::Space).collect();
    let txt = |k: &Tok| &t[k.lo..k.hi];
    let mut v = vec![];
    // 1 rename / 6 unknown field
    for (si, &i) in sig.iter().enumerate() {
        let k = toks[i];
        if k.kind != TK::Ident {
            continue;
        }
        let after_dot = si > 0 && txt(&toks[sig[si - 1]]) == "." && toks[sig[si - 1]].hi == k.lo;
        if after_dot {
            v.push(ErrMut { text: splice_str(t, k.lo, k.hi, "zzfield"), kind: "unknown-field", desc: format!("`.{}`@{} -> `.zzfield`", txt(&k), k.lo), lo: k.lo, hi: k.lo + 7, locality: false });
        } else {
            v.push(ErrMut { text: splice_str(t, k.lo, k.hi, "zzundef"), kind: "rename-to-undefined", desc: format!("`{}`@{} -> `zzundef`", txt(&k), k.lo), lo: k.lo, hi: k.lo + 7, locality: is_use(k.lo) });
        }
    }
    // 2 literal of another type
    for &i in &sig {
        let k = toks[i];
        let with = match k.kind {
            TK::Int => "\"s\"",
            TK::Float => "true",
            TK::Str => "7",
            TK::Keyword if txt(&k) == "true" || txt(&k) == "false" => "1",
            _ => continue,
        };
        v.push(ErrMut { text: splice_str(t, k.lo, k.hi, with), kind: "literal-of-other-type", desc: format!("`{}`@{} -> `{with}`", shorten(txt(&k), 20), k.lo), lo: k.lo, hi: k.lo + with.len(), locality: false });
    }
    // 3 delete one single-line match arm: a line containing `->` that does not start an item
    let mut ls = 0;
    for line in t.split_inclusive('\n') {
        let tr = line.trim_start();
        let first = tr.split(|c: char| !(c.is_ascii_alphanumeric() || c == '_')).next().unwrap_or("");
        let balanced = line.matches('{').count() == line.matches('}').count() && line.matches('(').count() == line.matches(')').count();
        if tr.contains("->") && balanced && !["fn", "type", "interface", "implement", "extend", "let", "var", "match"].contains(&first) && !tr.starts_with('#') && !tr.starts_with("//") {
            v.push(ErrMut { text: splice_str(t, ls, ls + line.len(), ""), kind: "delete-match-arm", desc: format!("line `{}`@{ls} deleted", shorten(line.trim(), 30)), lo: ls, hi: ls, locality: false });
        }
        ls += line.len();
    }
    // 4 assign to a let
    for (si, &i) in sig.iter().enumerate() {
        if toks[i].kind == TK::Keyword && txt(&toks[i]) == "let" && si + 1 < sig.len() && toks[sig[si + 1]].kind == TK::Ident {
            let name = txt(&toks[sig[si + 1]]);
            let eol = t[toks[i].lo..].find('\n').map(|r| toks[i].lo + r).unwrap_or(t.len());
            let ins = format!("\n{name} = {name}");
            v.push(ErrMut { text: splice_str(t, eol, eol, &ins), kind: "assign-to-let", desc: format!("`{name} = {name}` added after the `let {name}` line @{}", toks[i].lo), lo: eol + 1, hi: eol + 1 + name.len(), locality: false });
        }
    }
    // 5/7 calls
    for (si, &i) in sig.iter().enumerate() {
        let k = toks[i];
        if k.kind != TK::Ident || i + 1 >= toks.len() || txt(&toks[i + 1]) != "(" {
            continue;
        }
        if si > 0 && toks[sig[si - 1]].kind == TK::Keyword && txt(&toks[sig[si - 1]]) == "fn" {
            continue;
        }
        let Some(close) = matching_close(&toks, t, i + 1) else { continue };
        let (open_hi, close_lo) = (toks[i + 1].hi, toks[close].lo);
        let empty = t[open_hi..close_lo].trim().is_empty();
        // last top-level comma
        let mut depth = 0;
        let mut last_comma = None;
        for j in i + 2..close {
            if toks[j].kind == TK::Op {
                match txt(&toks[j]) {
                    "(" | "[" | "{" => depth += 1,
                    ")" | "]" | "}" => depth -= 1,
                    "," if depth == 0 => last_comma = Some(j),
                    _ => {}
                }
            }
        }
        if !empty {
            let from = last_comma.map(|j| toks[j].lo).unwrap_or(open_hi);
            v.push(ErrMut { text: splice_str(t, from, close_lo, ""), kind: "drop-call-argument", desc: format!("last argument of `{}(`@{} dropped", txt(&k), k.lo), lo: from, hi: from, locality: false });
        }
        let add = if empty { "0" } else { ", 0" };
        v.push(ErrMut { text: splice_str(t, close_lo, close_lo, add), kind: "add-call-argument", desc: format!("argument `0` added to `{}(`@{}", txt(&k), k.lo), lo: close_lo, hi: close_lo + add.len(), locality: false });
        let add = if empty { "zzarg = 0" } else { ", zzarg = 0" };
        v.push(ErrMut { text: splice_str(t, close_lo, close_lo, add), kind: "unknown-named-argument", desc: format!("`zzarg = 0` added to `{}(`@{}", txt(&k), k.lo), lo: close_lo, hi: close_lo + add.len(), locality: false });
    }
    // 8 delete one token
    for &i in &sig {
        let k = toks[i];
        if k.kind == TK::Newline || k.kind == TK::Comment {
            continue;
        }
        v.push(ErrMut { text: splice_str(t, k.lo, k.hi, ""), kind: "delete-token", desc: format!("token `{}`@{} deleted", shorten(txt(&k), 20), k.lo), lo: k.lo, hi: k.lo, locality: false });
    }
    // 9 bad escape in a string literal
    for &i in &sig {
        let k = toks[i];
        if k.kind == TK::Str && !txt(&k).starts_with("\"\"\"") && k.hi - k.lo >= 2 {
            v.push(ErrMut { text: splice_str(t, k.lo + 1, k.lo + 1, "\\q"), kind: "bad-escape", desc: format!("`\\q` put into the literal {}@{}", shorten(txt(&k), 20), k.lo), lo: k.lo, hi: k.hi + 2, locality: true });
        }
    }
    if extended {
        let eol_of = |p: usize| t[p..].find('\n').map(|r| p + r).unwrap_or(t.len());
        for (si, &i) in sig.iter().enumerate() {
            let k = toks[i];
            if k.kind != TK::Ident {
                continue;
            }
            let name = txt(&k);
            let after_dot = si > 0 && txt(&toks[sig[si - 1]]) == ".";
            let after_let = si > 0 && txt(&toks[sig[si - 1]]) == "let";
            let eol = eol_of(k.lo);
            if !after_dot {
                if !after_let {
                    let ins = format!("\n{name} = {name}");
                    v.push(ErrMut { text: splice_str(t, eol, eol, &ins), kind: "x-assign-on-next-line", desc: format!("`{name} = {name}` added after the line of `{name}`@{}", k.lo), lo: eol + 1, hi: eol + 1 + name.len(), locality: false });
                }
                let ins = format!("\n{name}[0] += 1");
                v.push(ErrMut { text: splice_str(t, eol, eol, &ins), kind: "x-index-compound-assign", desc: format!("`{name}[0] += 1` added after the line of `{name}`@{}", k.lo), lo: eol + 1, hi: eol + 1 + name.len(), locality: false });
                // inside the next block opened on the same line
                if let Some(&b) = sig[si + 1..].iter().find(|&&j| toks[j].lo < eol && txt(&toks[j]) == "{") {
                    let at = toks[b].hi;
                    for ins in [format!(" {name} = {name}; "), format!(" {name} = {name}\n")] {
                        v.push(ErrMut { text: splice_str(t, at, at, &ins), kind: "x-assign-in-next-block", desc: format!("`{}` put after the `{{`@{} following `{name}`@{}", ins.trim(), toks[b].lo, k.lo), lo: at + 1, hi: at + 1 + name.len(), locality: false });
                    }
                }
            }
            for post in ["?", "!", ".zz", "[0]", "()", "(zz = 0)", " = 0"] {
                v.push(ErrMut { text: splice_str(t, k.hi, k.hi, post), kind: "x-postfix", desc: format!("`{post}` appended to `{name}`@{}", k.lo), lo: k.hi, hi: k.hi + post.len(), locality: false });
            }
        }
        let mut ls = 0;
        for line in t.split_inclusive('\n') {
            let end = ls + line.trim_end_matches('\n').len();
            for ins in ["\nbreak", "\ncontinue", "\nreturn", "\nreturn 1"] {
                v.push(ErrMut { text: splice_str(t, end, end, ins), kind: "x-jump-statement", desc: format!("`{}` added after the line @{ls}", ins.trim()), lo: end + 1, hi: end + ins.len(), locality: false });
            }
            ls += line.len();
        }
    }
    v
}


// ------------------------------------------------------------------ hang watchdog

/// Exit status with which a worker kills itself when one case has used more than `HANG_CPU_S` CPU seconds
/// (or `HANG_WALL_S` wall seconds): the framework then attributes "process abort (exit status: 86)" to the
/// announced case, i.e. exit status 86 = NON-TERMINATION SUSPECT, and the exploration continues after it.
pub const HANG_EXIT: i32 = 86;
pub const HANG_CPU_S: f64 = 20.0;
pub const HANG_WALL_S: f64 = 600.0;

static WD_ARMED_AT_MS: std::sync::atomic::AtomicU64 = std::sync::atomic::AtomicU64::new(0);
static WD_CPU_AT_ARM_MS: std::sync::atomic::AtomicU64 = std::sync::atomic::AtomicU64::new(0);

fn wd_epoch() -> &'static std::time::Instant {
    static T: OnceLock<std::time::Instant> = OnceLock::new();
    T.get_or_init(std::time::Instant::now)
}

/// on-CPU milliseconds of the main thread (the thread that runs the cases in a worker)
fn main_thread_cpu_ms() -> Option<u64> {
    let s = std::fs::read_to_string("/proc/self/schedstat").ok()?;
    Some(s.split_whitespace().next()?.parse::<u64>().ok()? / 1_000_000)
}

/// Arm the watchdog for the case that is about to run (call `watchdog_disarm` after it).
pub fn watchdog_arm() {
    use std::sync::atomic::Ordering::SeqCst;
    static STARTED: OnceLock<()> = OnceLock::new();
    let _ = wd_epoch();
    STARTED.get_or_init(|| {
        std::thread::spawn(|| {
            loop {
                std::thread::sleep(std::time::Duration::from_millis(500));
                let armed = WD_ARMED_AT_MS.load(SeqCst);
                if armed == 0 {
                    continue;
                }
                let wall = (wd_epoch().elapsed().as_millis() as u64).saturating_sub(armed) as f64 / 1e3;
                if wall < HANG_CPU_S {
                    continue;
                }
                let cpu = match main_thread_cpu_ms() {
                    Some(now) => now.saturating_sub(WD_CPU_AT_ARM_MS.load(SeqCst)) as f64 / 1e3,
                    None => wall,
                };
                // re-check that the same case is still running
                if WD_ARMED_AT_MS.load(SeqCst) == armed && (cpu > HANG_CPU_S || wall > HANG_WALL_S) {
                    eprintln!("watchdog: case exceeded {HANG_CPU_S} CPU s; exiting with status {HANG_EXIT}");
                    std::process::exit(HANG_EXIT);
                }
            }
        });
    });
    WD_CPU_AT_ARM_MS.store(main_thread_cpu_ms().unwrap_or(0), SeqCst);
    WD_ARMED_AT_MS.store((wd_epoch().elapsed().as_millis() as u64).max(1), SeqCst);
}

pub fn watchdog_disarm() {
    WD_ARMED_AT_MS.store(0, std::sync::atomic::Ordering::SeqCst);
}
