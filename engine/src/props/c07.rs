//! C07 — unreachable memory is reclaimed and a dropped runtime frees everything.
//!
//! (a) precision, inside the C06 product search: at every Sweeping -> Idle transition of every
//!     explored schedule, every object that was unreachable when that cycle started is gone;
//! (b) boundedness under the REAL pacing (`maybe_gc`): allocation loops of n iterations keeping at
//!     most k objects live, heap statistics read after every instruction, differential in n;
//! (c) drop: all create/run/service/drop histories of runtimes up to a bounded length, with a
//!     counting global allocator: after the last drop the live bytes are back at the baseline.

use crate::alloc_count::live_bytes;
use crate::drive::{self, Input, StdHost};
use crate::fw::{Prop, Tier, UnitOut, hkey};
use crate::props::c06;
use crate::sched::{self, Prog, fmt_hist};
use abra_core::verif::GcPhase;
use abra_core::vm::{Runtime, RuntimeStatusKind};
use serde_json::json;

pub struct C07;

// ------------------------------------------------------------------ (b) allocation loops

fn alloc_shapes() -> Vec<(&'static str, String)> {
    let lp = |alloc: &str| {
        format!("use vh\nlet n = vh_next_int()\nvar i = 0\nvar acc = 0\nwhile i < n {{\n{alloc}\n  i = i + 1\n}}\nvh_emit_int(acc)\n")
    };
    let mut v = vec![
        ("array-keep0", lp("  let t = [i, i]\n  acc = acc + t[0] - t[1]")),
        ("string-keep0", lp("  let t = \"x\" .. i\n  acc = acc + 0")),
        ("tuple-keep0", lp("  let t = (i, i)\n  let (p, q) = t\n  acc = acc + p - q")),
        ("closure-keep0", lp("  let f = () -> i\n  acc = acc + f() - i")),
        ("option-keep0", lp("  let o = option.some(i)\n  acc = acc + 0")),
        ("nested-keep0", lp("  let t = [[i], [i]]\n  acc = acc + t[0][0] - t[1][0]")),
        ("tostring-keep0", lp("  let t = [i, i].str()\n  acc = acc + 0")),
        ("for-iterator", "use vh\nlet n = vh_next_int()\nvar acc = 0\nfor i in n {\n  let t = [i]\n  acc = acc + t[0] - i\n}\nvh_emit_int(acc)\n".to_string()),
    ];
    for k in [1usize, 8] {
        let init = (0..k).map(|_| "[0]").collect::<Vec<_>>().join(", ");
        v.push((
            if k == 1 { "array-keep1" } else { "array-keep8" },
            format!(
                "use vh\nlet n = vh_next_int()\nlet keep = [{init}]\nvar i = 0\nvar acc = 0\nwhile i < n {{\n  keep[i % {k}] = [i]\n  acc = acc + keep[i % {k}][0] - i\n  i = i + 1\n}}\nvh_emit_int(acc)\n"
            ),
        ));
    }
    v.push((
        "struct-field-replace",
        "use vh\ntype Bx = {\n  v: array<int>\n}\nlet n = vh_next_int()\nlet s = Bx([0])\nvar i = 0\nvar acc = 0\nwhile i < n {\n  s.v = [i, i]\n  acc = acc + s.v[0] - i\n  i = i + 1\n}\nvh_emit_int(acc)\n".to_string(),
    ));
    // a scratch array grown element by element each iteration (buffer regrowth at 5, 9, 17 elements),
    // once with an integer literal (the optimizer's immediate push) and once with a variable
    v.push((
        "scratch-array-push-literal",
        "use vh\nlet n = vh_next_int()\nvar i = 0\nvar acc = 0\nwhile i < n {\n  let t: array<int> = []\n  var j = 0\n  while j < 20 {\n    t.push(0)\n    j = j + 1\n  }\n  acc = acc + t[19]\n  i = i + 1\n}\nvh_emit_int(acc)\n".to_string(),
    ));
    v.push((
        "scratch-array-push-variable",
        "use vh\nlet n = vh_next_int()\nvar i = 0\nvar acc = 0\nwhile i < n {\n  let t: array<int> = []\n  var j = 0\n  while j < 20 {\n    t.push(j)\n    j = j + 1\n  }\n  acc = acc + t[0]\n  i = i + 1\n}\nvh_emit_int(acc)\n".to_string(),
    ));
    v.push((
        "scratch-array-of-strings",
        "use vh\nlet n = vh_next_int()\nvar i = 0\nvar acc = 0\nwhile i < n {\n  let t: array<string> = []\n  var j = 0\n  while j < 9 {\n    t.push(\"k\" .. j)\n    j = j + 1\n  }\n  acc = acc + t.len() - 9\n  i = i + 1\n}\nvh_emit_int(acc)\n".to_string(),
    ));
    // a reader that receives a large compound message per round: one instruction (the read) allocates hundreds of
    // objects at once, so the collector has to keep up with bursts, not only with one small object per iteration
    let recv = |elem_ty: &str, mk: &str, len: usize| {
        format!(
            "use vh\nlet n = vh_next_int()\nlet c: channel<array<{elem_ty}>> = channel()\nlet req: channel<int> = channel()\ntask {{\n  let big: array<{elem_ty}> = []\n  var j = 0\n  while j < {len} {{\n    big.push({mk})\n    j = j + 1\n  }}\n  var k = 0\n  while k < n {{\n    let z = req.read()\n    c.write(big)\n    k = k + 1\n  }}\n}}\nvar i = 0\nvar acc = 0\nwhile i < n {{\n  req.write(i)\n  let r = c.read()\n  acc = acc + r.len() - {len}\n  i = i + 1\n}}\nvh_emit_int(acc)\n"
        )
    };
    v.push(("recv-big-message-of-tuples", recv("(int, int)", "(j, j)", 300)));
    v.push(("recv-big-message-of-strings", recv("string", "\"s\" .. j", 120)));
    v.push(("recv-big-message-of-arrays", recv("array<int>", "[j, j, j]", 200)));
    v.push((
        "push-pop-churn",
        "use vh\nlet n = vh_next_int()\nlet a: array<array<int>> = []\nvar i = 0\nvar acc = 0\nwhile i < n {\n  a.push([i])\n  let x = a.pop()\n  acc = acc + x[0] - i\n  i = i + 1\n}\nvh_emit_int(acc)\n".to_string(),
    ));
    v
}

struct RealRun {
    max_heap: usize,
    final_heap: usize,
    cycles: u64,
    steps: u64,
    ok: bool,
    end: String,
}

/// One execution under the real pacing, heap statistics sampled after every instruction.
fn run_real(prog: &Prog, n: i64) -> RealRun {
    abra_core::verif::set_gc_manual(false);
    abra_core::verif::set_quarantine(false);
    let mut rt = Runtime::new(prog.compiled.clone());
    let mut host = StdHost::default();
    host.inputs.push_back(Input::Int(n));
    let mut r = RealRun { max_heap: 0, final_heap: 0, cycles: 0, steps: 0, ok: false, end: String::new() };
    let mut last_phase = GcPhase::Idle;
    let res = drive::catch(|| {
        loop {
            let st = rt.run_n_steps(1);
            r.steps += st.steps_consumed as u64;
            let m = rt.main();
            let hs = m.verif_heap_size();
            r.max_heap = r.max_heap.max(hs);
            r.final_heap = hs;
            let ph = m.verif_gc_phase();
            if ph == GcPhase::Idle && last_phase != GcPhase::Idle {
                r.cycles += 1;
            }
            last_phase = ph;
            match st.kind {
                RuntimeStatusKind::Done => return "done".to_string(),
                RuntimeStatusKind::MainThreadError(e) => return format!("error: {}", format!("{e}").lines().next().unwrap_or("")),
                RuntimeStatusKind::PendingHostFunc => drive::service_all(&mut rt, &prog.table, &mut host),
                RuntimeStatusKind::OutOfSteps => {}
            }
            if r.steps > 400_000_000 {
                return "step-cap".to_string();
            }
        }
    });
    match res {
        Ok(e) => {
            r.ok = e == "done" && host.emits == vec![drive::Emit::Int(0)];
            r.end = e;
        }
        Err(p) => {
            r.end = format!("fault at {}: {}", p.site, p.msg);
            std::mem::forget(rt);
            return r;
        }
    }
    drop(rt);
    r
}

// ------------------------------------------------------------------ (c) drop histories

fn drop_programs() -> Vec<(&'static str, &'static str)> {
    vec![
        ("string-constants", "let a = \"alpha\"\nlet b = \"beta\" .. a\nprintln(b)\n"),
        ("task-blocked-on-channel", "let c: channel<int> = channel()\nlet d: channel<int> = channel()\ntask {\n  let x = c.read()\n  d.write(x)\n}\nprintln(\"main\")\nlet y = 1\n"),
        ("main-finishes-tasks-running", "let d: channel<array<int>> = channel()\ntask {\n  var i = 0\n  while i < 50 {\n    d.write([i, i])\n    i = i + 1\n  }\n}\nlet r = d.read()\nprintln(r[0])\n"),
        ("runtime-error", "let a = [1, 2]\nlet s = \"k\" .. a\nprintln(s)\nlet z = a[5]\nprintln(z)\n"),
        ("pending-host-call", "let l = readline()\nlet m = l .. \"!\"\nprintln(m)\n"),
        ("heap-heavy", "var keep: array<array<string>> = []\nvar i = 0\nwhile i < 20 {\n  keep.push([\"s\" .. i, \"t\" .. i])\n  i = i + 1\n}\nprintln(keep.len())\n"),
    ]
}

#[derive(Clone, Copy, Debug, PartialEq)]
enum DOp {
    New(u8),
    /// run runtime slot i with budget class k (0: 1 step, 1: 50 steps, 2: to completion/cap)
    Run(u8, u8),
    Service(u8),
    Drop(u8),
}

fn dops() -> Vec<DOp> {
    let mut v = vec![];
    for p in 0..drop_programs().len() as u8 {
        v.push(DOp::New(p));
    }
    for i in 0..2u8 {
        for k in 0..3u8 {
            v.push(DOp::Run(i, k));
        }
        v.push(DOp::Service(i));
        v.push(DOp::Drop(i));
    }
    v
}

fn dop_valid(h: &[DOp], op: DOp) -> bool {
    // slots: a Vec of live runtimes; indices refer to positions in that Vec
    let mut live = 0usize;
    for o in h {
        match o {
            DOp::New(_) => live += 1,
            DOp::Drop(_) => live -= 1,
            _ => {}
        }
    }
    match op {
        DOp::New(_) => live < 2,
        DOp::Run(i, _) | DOp::Service(i) | DOp::Drop(i) => (i as usize) < live,
    }
}

fn fmt_dops(h: &[DOp]) -> String {
    let names = drop_programs();
    h.iter()
        .map(|o| match o {
            DOp::New(p) => format!("new({})", names[*p as usize].0),
            DOp::Run(i, k) => format!("run(#{i},{})", ["1", "50", "all"][*k as usize]),
            DOp::Service(i) => format!("service(#{i})"),
            DOp::Drop(i) => format!("drop(#{i})"),
        })
        .collect::<Vec<_>>()
        .join("; ")
}

/// Execute a history; returns live-byte delta after everything was dropped.
fn exec_drop_history(progs: &[Prog], h: &[DOp]) -> Result<isize, String> {
    abra_core::verif::set_gc_manual(false);
    abra_core::verif::set_quarantine(false);
    let before = live_bytes();
    let r = drive::catch(|| {
        let mut slots: Vec<(Runtime, usize, StdHost)> = Vec::with_capacity(2);
        for op in h {
            match *op {
                DOp::New(p) => slots.push((Runtime::new(progs[p as usize].compiled.clone()), p as usize, StdHost::default())),
                DOp::Run(i, k) => {
                    let (rt, p, host) = &mut slots[i as usize];
                    let budget = [1u32, 50, 3000][k as usize];
                    // a runtime whose main is done / errored / pending must not be run further by a well-behaved embedder
                    let st = rt.main().status();
                    if !matches!(st, abra_core::vm::VmStatus::OutOfSteps) {
                        continue;
                    }
                    let st = rt.run_n_steps(budget);
                    if k == 2 {
                        if let RuntimeStatusKind::PendingHostFunc = st.kind {
                            drive::service_all(rt, &progs[*p].table, host);
                        }
                    }
                }
                DOp::Service(i) => {
                    let (rt, p, host) = &mut slots[i as usize];
                    drive::service_all(rt, &progs[*p].table, host);
                }
                DOp::Drop(i) => {
                    let s = slots.remove(i as usize);
                    drop(s);
                }
            }
        }
        drop(slots);
    });
    match r {
        Ok(()) => Ok(live_bytes() - before),
        Err(p) => Err(format!("panic at {}: {}", p.site, p.msg)),
    }
}

// ------------------------------------------------------------------ units

fn precision_programs(tier: Tier) -> Vec<(&'static str, &'static str, Vec<Input>, bool)> {
    c06::programs()
        .into_iter()
        .filter(|p| (tier == Tier::Thorough || !p.3) && !p.1.contains("task"))
        .collect()
}

impl C07 {
    fn drop_len(tier: Tier) -> usize {
        tier.pick(4, 5)
    }
    fn drop_prefixes() -> Vec<[DOp; 2]> {
        let ops = dops();
        let mut v = vec![];
        for a in &ops {
            if !dop_valid(&[], *a) {
                continue;
            }
            for b in &ops {
                if dop_valid(&[*a], *b) {
                    v.push([*a, *b]);
                }
            }
        }
        v
    }
}

impl Prop for C07 {
    fn id(&self) -> &'static str {
        "C07"
    }
    fn level(&self) -> &'static str {
        "model_checking"
    }
    fn n_units(&self, tier: Tier) -> usize {
        precision_programs(tier).len() + alloc_shapes().len() + Self::drop_prefixes().len()
    }
    fn run_unit(&self, tier: Tier, unit: usize, out: &mut UnitOut) {
        let pp = precision_programs(tier);
        let shapes = alloc_shapes();
        if unit < pp.len() {
            // (a) precision
            let (name, body, inputs, _) = pp[unit].clone();
            if !out.begin_case(0) {
                return;
            }
            let text = c06::full_text(body);
            out.describe_case(&format!("precision {name}\n{text}"));
            let prog = match Prog::compile(name, &text, inputs) {
                Ok(p) => p,
                Err(e) => {
                    out.violation(vec![format!("input:{}", hkey(&format!("{name}|compile")))], format!("program `{name}` {e}"), json!({"program": text}));
                    return;
                }
            };
            let (reference, _) = sched::reference(&prog, 100_000);
            let mut cycles_seen = 0u64;
            let (stats, cex, machinery) = sched::product_bfs(&prog, tier.pick(2, 3), tier.pick(400_000, 5_000_000), &reference, |s, _| {
                if s.cycles_completed > 0 {
                    cycles_seen += 1;
                }
                match &s.precision_violation {
                    Some(v) => Err(v.clone()),
                    None => Ok(()),
                }
            });
            out.evaluations += 1;
            out.states += stats.states;
            out.transitions += stats.transitions;
            out.traces += stats.maximal_paths;
            out.capped |= stats.capped;
            out.count("states_after_a_completed_cycle", cycles_seen as i64);
            out.class(if cycles_seen > 0 { "precision:cycles-completed" } else { "precision:no-cycle-completed" });
            out.nontrivial_text(&format!("precision|{text}"));
            for m in machinery {
                out.notes.push(format!("MACHINERY: {m}"));
            }
            for c in cex.iter().take(1) {
                let h = fmt_hist(&c.history);
                out.violation(
                    vec![format!("input:{}", hkey(&format!("precision|{name}|{h}"))), format!("prog:{name}")],
                    format!("precision {name}: schedule {h} => {}", c.what),
                    json!({"program": text, "schedule": h, "observed": c.what}),
                );
            }
            return;
        }
        let unit = unit - pp.len();
        if unit < shapes.len() {
            // (b) boundedness under the real pacing
            let (name, text) = &shapes[unit];
            if !out.begin_case(0) {
                return;
            }
            out.describe_case(&format!("alloc-loop {name}\n{text}"));
            let src = drive::Src::with_vh(text);
            let prog = match drive::compile(&src, drive::COpts::default()) {
                drive::Compiled::Ok(p) => Prog { name: name.to_string(), text: text.clone(), compiled: p, table: src.host_table(), inputs: vec![] },
                other => {
                    out.violation(vec![format!("input:{}", hkey(&format!("alloc|{name}|compile")))], format!("alloc program `{name}` rejected: {}", other.class()), json!({"program": text}));
                    return;
                }
            };
            let ns: Vec<i64> = tier.pick(vec![10, 100, 1000, 10_000], vec![10, 100, 1000, 10_000, 100_000]);
            let runs: Vec<RealRun> = ns.iter().map(|n| run_real(&prog, *n)).collect();
            out.evaluations += runs.len() as u64;
            out.traces += runs.len() as u64;
            out.states += runs.iter().map(|r| r.steps).sum::<u64>();
            out.transitions += runs.iter().map(|r| r.steps).sum::<u64>();
            out.nontrivial_text(&format!("alloc|{text}"));
            let table: Vec<_> = ns.iter().zip(&runs).map(|(n, r)| json!({"n": n, "max_heap": r.max_heap, "final_heap": r.final_heap, "cycles": r.cycles, "steps": r.steps, "end": r.end})).collect();
            out.sample(json!({"alloc_loop": name, "runs": table}));
            let mut problems = vec![];
            for (n, r) in ns.iter().zip(&runs) {
                if !r.ok {
                    problems.push(format!("n={n}: run did not finish normally ({})", r.end));
                }
            }
            let last = runs.len() - 1;
            // differential in n: the maximum heap of the longest run must not exceed the maximum of the
            // 10x shorter run by more than a quarter (+ 64 bytes for longer decimal renderings)
            let bound = runs[last - 1].max_heap + runs[last - 1].max_heap / 4 + 64;
            if runs[last].max_heap > bound {
                problems.push(format!(
                    "heap grows with n: max heap {} bytes at n={} vs {} bytes at n={} (bound {})",
                    runs[last].max_heap, ns[last], runs[last - 1].max_heap, ns[last - 1], bound
                ));
            }
            if runs[last].cycles <= runs[last - 1].cycles {
                problems.push(format!("completed cycles do not grow with n: {} at n={} vs {} at n={}", runs[last].cycles, ns[last], runs[last - 1].cycles, ns[last - 1]));
            }
            if problems.is_empty() {
                out.class("alloc-loop:bounded");
            } else {
                out.class("violation");
                out.violation(
                    vec![format!("input:{}", hkey(&format!("alloc|{name}"))), format!("alloc:{name}")],
                    format!("alloc-loop {name}: {}", problems.join("; ")),
                    json!({"program": text, "runs": table, "problems": problems}),
                );
            }
            return;
        }
        let unit = unit - shapes.len();
        // (c) drop histories with the given two-op prefix
        let prefix = Self::drop_prefixes()[unit];
        let progs: Vec<Prog> = drop_programs()
            .iter()
            .map(|(n, t)| {
                let src = drive::Src::single(t);
                match drive::compile(&src, drive::COpts::default()) {
                    drive::Compiled::Ok(p) => Prog { name: n.to_string(), text: t.to_string(), compiled: p, table: src.host_table(), inputs: vec![] },
                    _ => panic!("drop program {n} does not compile"),
                }
            })
            .collect();
        let ops = dops();
        let maxlen = Self::drop_len(tier);
        // warm-up (lazy one-time allocations of the process must not be charged to a history)
        let _ = exec_drop_history(&progs, &[DOp::New(0), DOp::Run(0, 2), DOp::Drop(0)]);
        let mut case = 0u64;
        let mut stack: Vec<Vec<DOp>> = vec![prefix.to_vec()];
        while let Some(h) = stack.pop() {
            let idx = case;
            case += 1;
            if out.begin_case(idx) {
                let text = fmt_dops(&h);
                out.describe_case(&text);
                out.evaluations += 1;
                out.states += 1;
                out.transitions += h.len() as u64;
                out.traces += 1;
                let mut r = exec_drop_history(&progs, &h);
                if matches!(r, Ok(d) if d != 0) {
                    // must reproduce to count (guards against one-time lazy allocations)
                    let r2 = exec_drop_history(&progs, &h);
                    if matches!(r2, Ok(0)) {
                        r = r2;
                        out.count("one_time_allocation_retries", 1);
                    }
                }
                match r {
                    Ok(0) => {
                        out.class("drop:all-freed");
                        if h.iter().any(|o| matches!(o, DOp::Run(..))) {
                            out.nontrivial_text(&text);
                        }
                        if h.len() == 4 && idx % 97 == 0 {
                            out.sample(json!(text));
                        }
                    }
                    Ok(d) => {
                        out.class("violation");
                        out.violation(
                            vec![format!("input:{}", hkey(&text)), "drop-leak".into()],
                            format!("after [{text}] and dropping every runtime, {d} bytes are still allocated"),
                            json!({"history": text, "leaked_bytes": d}),
                        );
                    }
                    Err(e) => {
                        out.class("violation");
                        out.violation(vec![format!("input:{}", hkey(&text))], format!("[{text}] => {e}"), json!({"history": text, "observed": e}));
                    }
                }
            }
            if h.len() < maxlen {
                for op in ops.iter().rev() {
                    if dop_valid(&h, *op) {
                        let mut h2 = h.clone();
                        h2.push(*op);
                        stack.push(h2);
                    }
                }
            }
        }
    }
    fn rule(&self, tier: Tier) -> String {
        format!(
            "(a) the C06 product search over {} single-thread programs with the precision monitor (garbage at cycle start must be gone when the cycle ends); \
             (b) {} allocation-loop shapes x n in {{10..10^{}}} under the REAL pacing, heap size sampled after every instruction, differential oracle in n; \
             (c) ALL histories of length <= {} over new(6 programs)/run(1|50|all)/service/drop with <= 2 live runtimes, counting global allocator, live bytes back to baseline; \
             non-trivial = searched program / loop shape / history containing a run",
            precision_programs(tier).len(),
            alloc_shapes().len(),
            tier.pick(4, 5),
            Self::drop_len(tier)
        )
    }
    fn assumptions(&self) -> Vec<String> {
        vec![
            "boundedness (b) is a differential bound in n (max heap at 10x more iterations <= 1.25x + 64 bytes), not an absolute constant".into(),
            "drop histories never run a runtime whose main has finished/errored/has a pending host call (a well-behaved embedder)".into(),
            "the counting allocator sees every allocation of the worker process; workers are single-threaded".into(),
        ]
    }
}
