//! Shared helpers of the language-feature checks C18, C19, C20, C23.
//!
//! Every case of these checks is a `batch::Case` (a function body plus the declarations it needs).
//! Cases that the model expects to compile and run are compiled many per program; cases for which a
//! diagnostic (or, on a defective tree, a compiler panic) is a possible outcome are compiled one per
//! program (`run_cases` with batch size 1), so one rejected case can never hide another.

use crate::batch::{Case, CaseResult};
use crate::drive::{Emit, End};
use crate::fw::{UnitOut, hkey};
use serde_json::json;

/// What the reference model says about one case.
#[derive(Clone, Debug, PartialEq)]
pub enum Want {
    /// compiles, runs to completion, the integer trace (`vh_emit_int`) is exactly this
    Emits(Vec<i64>),
    /// compiles, runs to completion, the trace is one of these (documented alternatives)
    EmitsAny(Vec<Vec<i64>>),
    /// compiles, produces exactly this trace and then stops with the runtime error kind "panic"
    EmitsThenPanic(Vec<i64>),
    /// must be rejected with a diagnostic
    Reject,
    /// either rejected with a diagnostic, or accepted and then the trace is exactly this
    RejectOrEmits(Vec<i64>),
    /// nothing is asserted except the absence of faults
    NoFault,
}

/// Observed outcome, reduced to what the checks compare.
#[derive(Clone, Debug, PartialEq)]
pub enum Seen {
    Diag(String),
    CompilerPanic { site: String, msg: String, key: String },
    Ran { ints: Vec<i64>, non_int: bool, end: End, printed: String },
}

pub fn seen(r: &CaseResult) -> Seen {
    match r {
        CaseResult::Diag(d) => Seen::Diag(d.clone()),
        CaseResult::CompilerPanic(p) => {
            Seen::CompilerPanic { site: p.site.clone(), msg: p.msg.clone(), key: p.site_key() }
        }
        CaseResult::Ran(o) => {
            let mut ints = vec![];
            let mut non_int = false;
            for e in &o.emits {
                match e {
                    Emit::Int(v) => ints.push(*v),
                    _ => non_int = true,
                }
            }
            Seen::Ran { ints, non_int, end: o.end.clone(), printed: o.out.clone() }
        }
    }
}

/// first line of a diagnostics text with ANSI colour codes removed, for outcome classes
pub fn diag_kind(d: &str) -> String {
    let mut s = String::new();
    let mut it = d.chars().peekable();
    while let Some(c) = it.next() {
        if c == '\u{1b}' {
            // skip "[...m"
            for c2 in it.by_ref() {
                if c2 == 'm' {
                    break;
                }
            }
        } else {
            s.push(c);
        }
    }
    let line = s.lines().find(|l| !l.trim().is_empty()).unwrap_or("").trim().to_string();
    let line = line.strip_prefix("error: ").unwrap_or(&line).to_string();
    // drop names so that classes stay few
    let mut k: String = line.chars().take(48).collect();
    if let Some(i) = k.find(':') {
        k.truncate(i);
    }
    k
}

pub fn short_seen(s: &Seen) -> String {
    match s {
        Seen::Diag(d) => format!("rejected with diagnostics: {}", diag_kind(d)),
        Seen::CompilerPanic { site, msg, .. } => format!("COMPILER PANIC at {site}: {}", msg.lines().next().unwrap_or("")),
        Seen::Ran { ints, end, .. } => format!("ran: trace={ints:?} end={}", crate::batch::short_end(end)),
    }
}

/// Compare; record outcome class `ok_class` (or a violation). `stratum` prefixes the class so that
/// evidence shows which part of the universe produced which outcome. Returns true on agreement.
pub fn judge(out: &mut UnitOut, stratum: &str, c: &Case, r: &CaseResult, want: &Want) -> bool {
    let s = seen(r);
    let mut extra: Vec<String> = vec![];
    let verdict: Result<String, String> = match (&s, want) {
        (Seen::CompilerPanic { key, .. }, _) => {
            extra.push(key.clone());
            Err("the compiler panicked".into())
        }
        (Seen::Ran { end: End::Fault(p), .. }, _) => {
            extra.push(p.site_key());
            Err(format!("VM fault (Rust panic) at {}: {}", p.site, p.msg))
        }
        (Seen::Ran { end: End::InternalError { text }, .. }, _) => {
            Err(format!("VM internal error: {}", text.lines().next().unwrap_or("")))
        }
        (Seen::Ran { end: End::StepCap, .. }, _) => Err("did not terminate within the step cap".into()),
        (_, Want::NoFault) => Ok(match &s {
            Seen::Diag(d) => format!("unasserted:rejected:{}", diag_kind(d)),
            Seen::Ran { end, .. } => format!("unasserted:ran:{}", end.class()),
            _ => unreachable!(),
        }),
        (Seen::Diag(d), Want::Reject) | (Seen::Diag(d), Want::RejectOrEmits(_)) => Ok(format!("rejected:{}", diag_kind(d))),
        (Seen::Diag(_), _) => Err("a valid program was rejected".into()),
        (Seen::Ran { .. }, Want::Reject) => Err("misuse was silently accepted (no diagnostic)".into()),
        (Seen::Ran { ints, non_int, end, .. }, Want::Emits(w)) | (Seen::Ran { ints, non_int, end, .. }, Want::RejectOrEmits(w)) => {
            if *end == End::Done && !*non_int && ints == w {
                Ok("accepted:trace-as-model".into())
            } else {
                Err("observable behaviour differs from the model".into())
            }
        }
        (Seen::Ran { ints, non_int, end, .. }, Want::EmitsAny(ws)) => {
            match ws.iter().position(|w| *end == End::Done && !*non_int && ints == w) {
                Some(i) => Ok(format!("accepted:trace-as-model-alt{i}")),
                None => Err("observable behaviour differs from the model".into()),
            }
        }
        (Seen::Ran { ints, non_int, end, .. }, Want::EmitsThenPanic(w)) => {
            let is_panic = matches!(end, End::Error { kind, .. } if kind == "panic");
            if is_panic && !*non_int && ints == w {
                Ok("accepted:trace-then-panic-as-model".into())
            } else {
                Err("observable behaviour differs from the model".into())
            }
        }
    };
    match verdict {
        Ok(class) => {
            out.class(&format!("{stratum}:{class}"));
            true
        }
        Err(why) => {
            out.class(&format!("{stratum}:VIOLATION"));
            let mut keys = vec![format!("input:{}", hkey(&c.name))];
            keys.extend(extra);
            let observed = short_seen(&s);
            out.violation(
                keys,
                format!("{}: {why}; expected {:?}, observed {}", c.name, want, observed),
                json!({
                    "case": c.name,
                    "program": c.standalone(),
                    "host_inputs": "0 (dispatcher index)",
                    "expected": format!("{want:?}"),
                    "observed": observed,
                    "observed_full": format!("{s:?}"),
                    "how": "write `program` to f.abra (the `use vh` host file is the harness's; replace vh_emit_int by println and vh_next_int() by 0 to run it with the CLI)",
                }),
            );
            false
        }
    }
}

/// all permutations of `v` in lexicographic order of positions (deterministic)
pub fn permutations<T: Clone>(v: &[T]) -> Vec<Vec<T>> {
    if v.is_empty() {
        return vec![vec![]];
    }
    let mut res = vec![];
    for i in 0..v.len() {
        let mut rest = v.to_vec();
        let x = rest.remove(i);
        for mut p in permutations(&rest) {
            p.insert(0, x.clone());
            res.push(p);
        }
    }
    res
}

/// split `n` items into chunks of at most `size`; returns (start, end) of chunk `k`
pub fn chunk(n: usize, size: usize, k: usize) -> (usize, usize) {
    let a = (k * size).min(n);
    let b = ((k + 1) * size).min(n);
    (a, b)
}
pub fn n_chunks(n: usize, size: usize) -> usize {
    n.div_ceil(size).max(1)
}
