//! C25 — sorting yields a sorted permutation, stably for sort_by / sort_by_key.
//!
//! Two layers, both host-driven (one compiled driver per unit, one fresh Runtime per array):
//!
//! (a) *Scaled model bound to the code.* The text of `sort_by`, `insertion_sort_by` and `merge_by`
//!     is cut out of the working tree's `modules/prelude.abra` when the check runs, renamed
//!     (`vsort_by`, …) and instantiated in an `extend array<T>` block with `let RUN = <small>`;
//!     ALL arrays of length <= N over the keys {0, 1, 2} are sorted by key with the element's
//!     original index as a stability tag.
//! (b) *Conformance at the real RUN* through the unmodified `sort`, `sort_by` (ascending and
//!     descending comparison) and `sort_by_key`, on a grid of lengths around the multiples of RUN
//!     and, per length, complete structured families (see `families`).
//!
//! Oracle: Rust's stable `sort_by_key` on the same (key, tag) elements; the output must be equal
//! element for element (= permutation + ordered + stable).

use super::library_util::{Driver, end_short, extract_fn, rename_idents};
use crate::drive::{Emit, End, Input, Src};
use crate::explore::for_each_seq;
use crate::fw::{Prop, Tier, UnitOut, hkey};
use serde_json::json;

pub struct C25;

/// at most this many violations are written out per unit (all are counted)
const MAX_RECORDED_PER_UNIT: usize = 100;
const PRELUDE_PATH: &str = "/repo/modules/prelude.abra";

struct Extracted {
    /// `extend array<T> { … }` with the three renamed functions; `{RUN}` stands for the run length
    block_template: String,
    /// the run length of the real prelude
    real_run: usize,
}

fn extract() -> Result<Extracted, String> {
    let text = std::fs::read_to_string(PRELUDE_PATH).map_err(|e| format!("cannot read {PRELUDE_PATH}: {e}"))?;
    let mut fns = vec![];
    for name in ["sort_by", "insertion_sort_by", "merge_by"] {
        fns.push(extract_fn(&text, name)?);
    }
    // the run length: exactly one `let RUN = <digits>` inside sort_by
    let sb = &fns[0];
    let pat = "let RUN = ";
    let occ: Vec<usize> = sb.match_indices(pat).map(|m| m.0).collect();
    if occ.len() != 1 {
        return Err(format!("expected exactly one `let RUN = <n>` in sort_by, found {}", occ.len()));
    }
    let ds = occ[0] + pat.len();
    let digits: String = sb[ds..].chars().take_while(|c| c.is_ascii_digit()).collect();
    if digits.is_empty() {
        return Err("`let RUN = ` is not followed by an integer literal".into());
    }
    let real_run: usize = digits.parse().map_err(|e| format!("RUN literal: {e}"))?;
    if !(2..=64).contains(&real_run) {
        return Err(format!("RUN = {real_run} is outside the range this check was built for (2..=64)"));
    }
    let sb2 = format!("{}{}{}", &sb[..ds], "{RUN}", &sb[ds + digits.len()..]);
    if sb2.matches("RUN").count() < 3 {
        return Err("sort_by does not use RUN after defining it".into());
    }
    // the other two functions must not mention RUN (the algorithm is parametric in it)
    if fns[1].contains("RUN") || fns[2].contains("RUN") {
        return Err("insertion_sort_by / merge_by mention RUN: the scaled instantiation would be unsound".into());
    }
    let joined = format!("{}\n\n{}\n\n{}", sb2, fns[1], fns[2]);
    let renamed = rename_idents(
        &joined,
        &[("sort_by", "vsort_by"), ("insertion_sort_by", "vinsertion_sort_by"), ("merge_by", "vmerge_by")],
    );
    for n in ["vsort_by", "vinsertion_sort_by", "vmerge_by"] {
        if !renamed.contains(&format!("fn {n}(")) {
            return Err(format!("renaming failed for {n}"));
        }
    }
    if !renamed.contains("self.vinsertion_sort_by(") || !renamed.contains("self.vmerge_by(") {
        return Err("sort_by no longer calls insertion_sort_by and merge_by as methods of self".into());
    }
    Ok(Extracted { block_template: format!("extend array<T> {{\n{renamed}\n}}\n"), real_run })
}

const TAG_A: i64 = 100; // scaled layer: element = key * 100 + index
const TAG_B: i64 = 1000; // conformance layer: element = key * 1000 + index

fn scaled_program(ex: &Extracted, run: usize) -> String {
    format!(
        "use vh\n{}\nlet a = vh_next_arr()\na.vsort_by((x, y) -> x / {TAG_A} <= y / {TAG_A})\nvh_emit_arr(a)\n",
        ex.block_template.replace("{RUN}", &run.to_string())
    )
}

const METHODS: [&str; 4] = [
    "sort()                                    [plain keys]",
    "sort_by((x, y) -> x / 1000 <= y / 1000)   [key*1000+index]",
    "sort_by_key(x -> x / 1000)                [key*1000+index]",
    "sort_by((x, y) -> x / 1000 >= y / 1000)   [key*1000+index, descending]",
];

fn conformance_program() -> String {
    format!(
        "use vh\nlet m = vh_next_int()\nlet a = vh_next_arr()\nif m == 0 {{\n  a.sort()\n}} else if m == 1 {{\n  a.sort_by((x, y) -> x / {TAG_B} <= y / {TAG_B})\n}} else if m == 2 {{\n  a.sort_by_key(x -> x / {TAG_B})\n}} else {{\n  a.sort_by((x, y) -> x / {TAG_B} >= y / {TAG_B})\n}}\nvh_emit_arr(a)\n"
    )
}

// ------------------------------------------------------------------ universe

fn scaled_runs(tier: Tier) -> Vec<usize> {
    tier.pick(vec![2], vec![2, 1, 3])
}
fn scaled_maxlen(tier: Tier) -> usize {
    tier.pick(7, 9)
}

fn lengths(tier: Tier, run: usize) -> Vec<usize> {
    let mut v: Vec<usize> = (0..=run + 2).collect();
    let mults: Vec<usize> = tier.pick(vec![2, 3, 4], vec![2, 3, 4, 8]);
    for m in mults {
        for d in [-1i64, 0, 1, 2] {
            v.push((m as i64 * run as i64 + d) as usize);
        }
    }
    v.sort();
    v.dedup();
    v
}

/// rows of the displaced-element family handled by one unit
fn rows_per_unit(len: usize) -> usize {
    (3000 / len.max(1)).max(1)
}

#[derive(Clone, Debug)]
enum UnitSpec {
    Scaled { run: usize, len: usize },
    /// linear-size families of one length, all four methods
    Linear { len: usize },
    /// displaced-element family rows [from0, from1) of one length
    Displaced { len: usize, from0: usize, from1: usize },
}

fn displaced_methods(tier: Tier, len: usize, run: usize) -> Vec<usize> {
    match tier {
        Tier::Quick => vec![1],
        Tier::Thorough => {
            if len <= 2 * run + 2 {
                vec![0, 1, 2, 3]
            } else {
                vec![1]
            }
        }
    }
}

fn units(tier: Tier, real_run: usize) -> Vec<UnitSpec> {
    let mut v = vec![];
    for run in scaled_runs(tier) {
        for len in 0..=scaled_maxlen(tier) {
            v.push(UnitSpec::Scaled { run, len });
        }
    }
    for len in lengths(tier, real_run) {
        v.push(UnitSpec::Linear { len });
        let r = rows_per_unit(len);
        let mut f = 0;
        while f < len {
            v.push(UnitSpec::Displaced { len, from0: f, from1: (f + r).min(len) });
            f += r;
        }
    }
    v
}

/// Linear-size families for one length: (family name, keys).
fn families(len: usize) -> Vec<(String, Vec<i64>)> {
    let l = len as i64;
    let mut v: Vec<(String, Vec<i64>)> = vec![];
    let base: Vec<i64> = (0..l).map(|i| i / 2).collect();
    v.push(("sorted (keys i/2)".into(), base.clone()));
    v.push(("reversed (keys (L-1-i)/2)".into(), (0..l).map(|i| (l - 1 - i) / 2).collect()));
    v.push(("constant".into(), vec![5; len]));
    v.push(("strictly decreasing".into(), (0..l).map(|i| l - i).collect()));
    // two sorted runs: rotation of the sorted base at every point, and evens-then-odds split at every point
    for k in 0..=len {
        let mut a = base[k..].to_vec();
        a.extend_from_slice(&base[..k]);
        v.push((format!("two runs: sorted base rotated at {k}"), a));
    }
    for k in 0..=len {
        let mut a: Vec<i64> = (0..k as i64).map(|i| 2 * i).collect();
        a.extend((0..(len - k) as i64).map(|j| 2 * j + 1));
        v.push((format!("two runs: {k} evens then {} odds", len - k), a));
    }
    v.push(("organ pipe".into(), (0..l).map(|i| i.min(l - 1 - i)).collect()));
    v.push(("inverse organ pipe".into(), (0..l).map(|i| l - i.min(l - 1 - i)).collect()));
    // 0/1 arrays with every count of ones
    for ones in 0..=len {
        let zeros = len - ones;
        let mut asc = vec![0; zeros];
        asc.extend(vec![1; ones]);
        v.push((format!("0/1 ascending, {ones} ones"), asc));
        let mut desc = vec![1; ones];
        desc.extend(vec![0; zeros]);
        v.push((format!("0/1 descending, {ones} ones"), desc));
        let mut alt = vec![];
        let (mut z, mut o) = (zeros, ones);
        let mut want_one = true;
        while z + o > 0 {
            if (want_one && o > 0) || z == 0 {
                alt.push(1);
                o -= 1;
            } else {
                alt.push(0);
                z -= 1;
            }
            want_one = !want_one;
        }
        v.push((format!("0/1 alternating, {ones} ones"), alt));
    }
    // large value range (plain `sort` only is meaningful for these; keys far apart, with duplicates)
    v
}

/// Large-range arrays (method `sort` only): cyclic walks with every stride over boundary integers.
fn large_range(len: usize) -> Vec<(String, Vec<i64>)> {
    const G: [i64; 7] = [i64::MIN, -1, 0, 1, i64::MAX, i64::MIN + 1, i64::MAX - 1];
    (1..7)
        .map(|s| (format!("boundary integers, stride {s}"), (0..len).map(|i| G[(i * s) % 7]).collect()))
        .collect()
}

fn linear_count(len: usize) -> u64 {
    // 4 fixed + 2(L+1) two-run + 2 organ + 3(L+1) zero/one, each through 4 methods; 6 large-range through 1
    (4 + 2 * (len as u64 + 1) + 2 + 3 * (len as u64 + 1)) * 4 + 6
}

fn displaced(len: usize, from: usize, to: usize) -> Vec<i64> {
    let mut a: Vec<i64> = (0..len as i64).map(|i| i / 2).collect();
    let x = a.remove(from);
    a.insert(to, x);
    a
}

// ------------------------------------------------------------------ oracle + judging

fn tag(keys: &[i64], t: i64) -> Vec<i64> {
    keys.iter().enumerate().map(|(i, k)| k * t + i as i64).collect()
}

/// expected output for `method` on `input` (already tagged for methods 1..3)
fn expected(method: usize, input: &[i64], t: i64) -> Vec<i64> {
    let mut v = input.to_vec();
    match method {
        0 => v.sort(), // plain values: equal elements are indistinguishable
        1 | 2 => v.sort_by_key(|e| e / t),
        _ => v.sort_by_key(|e| std::cmp::Reverse(e / t)),
    }
    v
}

fn diagnose(method: usize, input: &[i64], got: &[i64], t: i64) -> &'static str {
    let mut a = input.to_vec();
    let mut b = got.to_vec();
    a.sort();
    b.sort();
    if a != b {
        return "output is not a permutation of the input";
    }
    let key = |e: i64| -> i64 {
        match method {
            0 => e,
            1 | 2 => e / t,
            _ => -(e / t),
        }
    };
    if got.windows(2).any(|w| key(w[0]) > key(w[1])) {
        return "output is not in non-decreasing order of the comparison";
    }
    "equal elements are not in their original order (not stable)"
}

struct CaseDesc<'a> {
    layer: &'a str,
    method_text: &'a str,
    family: &'a str,
    method: usize,
    tagmul: i64,
    input: Vec<i64>,
}

fn run_case(d: &Driver, c: &CaseDesc, scaled: bool, out: &mut UnitOut, sample: bool) {
    let text = format!("{} | {} | {:?}", c.layer, c.method_text.split_whitespace().next().unwrap_or(""), c.input);
    let text = format!("{text} | m{}", c.method);
    let exp = expected(c.method, &c.input, c.tagmul);
    let mut inputs = vec![];
    if !scaled {
        inputs.push(Input::Int(c.method as i64));
    }
    inputs.push(Input::Arr(c.input.clone()));
    let r = d.run(inputs, 20_000_000);
    out.evaluations += 1;
    let moved = exp != c.input;
    if moved || {
        let mut k: Vec<i64> = c.input.iter().map(|e| if c.method == 0 { *e } else { e / c.tagmul }).collect();
        k.sort();
        k.windows(2).any(|w| w[0] == w[1])
    } {
        out.nontrivial_text(&text);
    }
    let ok = r.end == End::Done && r.host.emits.len() == 1 && r.host.emits[0] == Emit::Arr(exp.clone()) && r.host.input_error.is_none();
    if ok {
        let ties = {
            let mut k: Vec<i64> = c.input.iter().map(|e| if c.method == 0 { *e } else { e / c.tagmul }).collect();
            k.sort();
            k.windows(2).any(|w| w[0] == w[1])
        };
        out.class(match (moved, ties) {
            (false, false) => "already-ordered, distinct keys",
            (false, true) => "already-ordered, ties kept in place",
            (true, false) => "reordered, distinct keys",
            (true, true) => "reordered, ties kept stable",
        });
        if sample {
            out.sample(json!({"layer": c.layer, "method": c.method_text, "family": c.family, "input": c.input, "output": exp}));
        }
        return;
    }
    let (why, observed) = match (&r.end, r.host.emits.as_slice()) {
        (End::Done, [Emit::Arr(got)]) => (diagnose(c.method, &c.input, got, c.tagmul).to_string(), format!("{got:?}")),
        (e, em) => (format!("sorting did not complete: {}", end_short(e)), format!("end={} emits={:?}", end_short(e), em)),
    };
    out.class("violation");
    if out.violations.len() >= MAX_RECORDED_PER_UNIT {
        // keep the report bounded: the run still fails, further cases of this unit are only counted
        out.count("violations_counted_but_not_recorded (per-unit cap)", 1);
        return;
    }
    let mut keys = vec![format!("input:{}", hkey(&text))];
    if let End::Fault(p) = &r.end {
        keys.push(p.site_key());
    }
    let elem_note = if c.method == 0 {
        "elements are plain integers".to_string()
    } else {
        format!("element = key * {} + original index; the comparison looks at the key only", c.tagmul)
    };
    out.violation(
        keys,
        format!("{} {}: {why}; input {:?} gave {observed}, expected {:?}", c.layer, c.method_text.trim(), c.input, exp),
        json!({
            "layer": c.layer, "method": c.method_text, "family": c.family, "elements": elem_note,
            "input": c.input, "expected": exp, "observed": observed, "why": why,
            "driver_program": d.text,
            "how_to_reproduce": "feed `input` as the array (replace `vh_next_arr()` by the literal, `vh_emit_arr(a)` by `println(a)`) and run with the CLI",
        }),
    );
}

impl C25 {
    fn spec(tier: Tier, unit: usize) -> Result<(Extracted, UnitSpec), String> {
        let ex = extract()?;
        let us = units(tier, ex.real_run);
        let u = us.get(unit).cloned().ok_or_else(|| format!("no unit {unit}"))?;
        Ok((ex, u))
    }
}

impl Prop for C25 {
    fn id(&self) -> &'static str {
        "C25"
    }
    fn level(&self) -> &'static str {
        "exploration"
    }
    fn prepare(&self, _tier: Tier) -> Result<(), String> {
        let ex = extract()?;
        // the scaled instantiation must compile, for every run length used
        for run in [1usize, 2, 3] {
            Driver::build(&Src::with_vh(&scaled_program(&ex, run)))
                .map_err(|e| format!("scaled instantiation (RUN = {run}) of the extracted prelude functions: {e}"))?;
        }
        Driver::build(&Src::with_vh(&conformance_program())).map(|_| ())
    }
    fn n_units(&self, tier: Tier) -> usize {
        match extract() {
            Ok(ex) => units(tier, ex.real_run).len(),
            Err(_) => 1, // prepare() reports the reason
        }
    }
    fn expected_evaluations(&self, tier: Tier) -> Option<u64> {
        let ex = extract().ok()?;
        let mut n: u64 = 0;
        for _ in scaled_runs(tier) {
            n += (0..=scaled_maxlen(tier) as u32).map(|l| 3u64.pow(l)).sum::<u64>();
        }
        for len in lengths(tier, ex.real_run) {
            n += linear_count(len);
            n += (len as u64) * (len as u64) * displaced_methods(tier, len, ex.real_run).len() as u64;
        }
        Some(n)
    }
    fn run_unit(&self, tier: Tier, unit: usize, out: &mut UnitOut) {
        let (ex, spec) = match Self::spec(tier, unit) {
            Ok(x) => x,
            Err(e) => {
                out.notes.push(format!("machinery: {e}"));
                return;
            }
        };
        match spec {
            UnitSpec::Scaled { run, len } => {
                let d = match Driver::build(&Src::with_vh(&scaled_program(&ex, run))) {
                    Ok(d) => d,
                    Err(e) => {
                        out.notes.push(format!("machinery: {e}"));
                        return;
                    }
                };
                let layer = format!("scaled RUN={run}");
                let mtext = format!("vsort_by((x, y) -> x / {TAG_A} <= y / {TAG_A})  [extracted sort_by with RUN = {run}; key*{TAG_A}+index]");
                let mut idx: u64 = 0;
                for_each_seq(3, len, |s| {
                    let k = idx;
                    idx += 1;
                    if !out.begin_case(k) {
                        return;
                    }
                    let keys: Vec<i64> = s.iter().map(|x| *x as i64).collect();
                    let c = CaseDesc {
                        layer: &layer,
                        method_text: &mtext,
                        family: "all arrays over {0,1,2}",
                        method: 1,
                        tagmul: TAG_A,
                        input: tag(&keys, TAG_A),
                    };
                    run_case(&d, &c, true, out, k % 997 == 5);
                });
            }
            UnitSpec::Linear { len } => {
                let d = match Driver::build(&Src::with_vh(&conformance_program())) {
                    Ok(d) => d,
                    Err(e) => {
                        out.notes.push(format!("machinery: {e}"));
                        return;
                    }
                };
                let layer = format!("real RUN={} L={len}", ex.real_run);
                let mut idx: u64 = 0;
                for (fam, keys) in families(len) {
                    for m in 0..4 {
                        let k = idx;
                        idx += 1;
                        if !out.begin_case(k) {
                            continue;
                        }
                        let input = if m == 0 { keys.clone() } else { tag(&keys, TAG_B) };
                        let c = CaseDesc { layer: &layer, method_text: METHODS[m], family: &fam, method: m, tagmul: TAG_B, input };
                        run_case(&d, &c, false, out, k % 211 == 7);
                    }
                }
                for (fam, keys) in large_range(len) {
                    let k = idx;
                    idx += 1;
                    if !out.begin_case(k) {
                        continue;
                    }
                    let c = CaseDesc { layer: &layer, method_text: METHODS[0], family: &fam, method: 0, tagmul: TAG_B, input: keys };
                    run_case(&d, &c, false, out, false);
                }
            }
            UnitSpec::Displaced { len, from0, from1 } => {
                let d = match Driver::build(&Src::with_vh(&conformance_program())) {
                    Ok(d) => d,
                    Err(e) => {
                        out.notes.push(format!("machinery: {e}"));
                        return;
                    }
                };
                let layer = format!("real RUN={} L={len}", ex.real_run);
                let ms = displaced_methods(tier, len, ex.real_run);
                let mut idx: u64 = 0;
                for from in from0..from1 {
                    for to in 0..len {
                        let keys = displaced(len, from, to);
                        for m in &ms {
                            let k = idx;
                            idx += 1;
                            if !out.begin_case(k) {
                                continue;
                            }
                            let input = if *m == 0 { keys.clone() } else { tag(&keys, TAG_B) };
                            let fam = format!("sorted base (keys i/2) with element {from} moved to position {to}");
                            let c = CaseDesc { layer: &layer, method_text: METHODS[*m], family: &fam, method: *m, tagmul: TAG_B, input };
                            run_case(&d, &c, false, out, false);
                        }
                    }
                }
            }
        }
    }
    fn rule(&self, tier: Tier) -> String {
        let run = extract().map(|e| e.real_run).unwrap_or(0);
        format!(
            "(a) the text of sort_by/insertion_sort_by/merge_by cut from modules/prelude.abra at check time, instantiated with RUN in {:?}: \
             all 3^n arrays of every length n <= {} over keys {{0,1,2}}, element = key*100+index, compared by key only; \
             (b) the unmodified prelude (RUN = {run}) through sort, sort_by (<= and >= on the key) and sort_by_key for every length in {:?}: \
             families sorted / reversed / constant / strictly decreasing / sorted base rotated at every point / evens-then-odds split at every point / \
             organ pipe and its inverse / every 0-1 array with c ones arranged ascending, descending, alternating (all c) / six strides over boundary \
             integers (MIN, MAX, ...; sort only) / the sorted base (keys i/2) with one element moved, every (from, to) pair (methods: {}); \
             oracle: Rust stable sort_by_key, output compared element for element; non-trivial = the expected output differs from the input or the keys contain ties",
            scaled_runs(tier),
            scaled_maxlen(tier),
            lengths(tier, run.max(2)),
            tier.pick("sort_by only", "all four up to L = 2*RUN+2, sort_by beyond"),
        )
    }
    fn assumptions(&self) -> Vec<String> {
        vec![
            "layer (a) assumes the algorithm is parametric in RUN (checked syntactically: RUN is defined once in sort_by by a literal and not mentioned in insertion_sort_by / merge_by)".into(),
            "layer (b) is exhaustive over the stated structured families only (not over all arrays of those lengths)".into(),
            "stability is observed through an index tag that the comparison ignores; plain `sort` is compared on values (equal integers are indistinguishable)".into(),
        ]
    }
}
