//! C27 — core/map and core/set behave like a dictionary and a set.
//!
//! Explicit-state search over operation histories of the real `core/map` / `core/set` (module text
//! read from the working tree when the check runs), host-driven: one compiled driver per family,
//! every transition replays its whole history in a fresh Runtime. After EVERY operation the driver
//! also probes the whole key alphabet (`len`, `contains(k)`, `try_get(k)` for every k), so each
//! step is compared with the Rust `HashMap` / `HashSet` model on the full abstract state.
//!
//! Histories are merged on a history-derived key that determines the implementation's table
//! layout exactly: the sequence of *structural* events (insert of an absent key, removal of a
//! present key — these are the only operations that touch buckets, chains, the free list or
//! trigger `resize`) plus the current key→value map. Reads, updates of a present key and removals
//! of an absent key do not extend the structural sequence.
//!
//! The alphabet is reduced per family rather than the depth: small colliding key sets with all
//! nine operation kinds, and larger key sets with insert/remove only ("growth": resize at the 5th
//! slot, slot reuse after remove, second resize from a 7-element start state).

use super::library_util::{Driver, emits_short, end_short, sharded_bfs};
use crate::drive::{self, Emit, End, Input, Src};
use crate::fw::{Prop, Tier, UnitOut, hkey};
use serde_json::json;
use std::collections::{BTreeMap, HashMap, HashSet};

pub struct C27;

/// at most this many violations are written out per unit (all are counted)
const MAX_RECORDED_PER_UNIT: usize = 300;

#[derive(Clone, Copy, PartialEq, Eq, Debug)]
enum KT {
    Int,
    /// user struct key whose Hash is the constant -5 (every key collides; negative hash code)
    Ck,
    Str,
}

#[derive(Clone, PartialEq, Eq, Hash, Debug)]
enum KeyV {
    I(i64),
    S(String),
}
impl KeyV {
    fn input(&self) -> Input {
        match self {
            KeyV::I(v) => Input::Int(*v),
            KeyV::S(s) => Input::Str(s.clone()),
        }
    }
    fn lit(&self, kt: KT) -> String {
        match (self, kt) {
            (KeyV::I(v), KT::Ck) => format!("Ck({v})"),
            (KeyV::I(v), _) => {
                if *v == i64::MIN {
                    "(-9223372036854775807 - 1)".into()
                } else if *v < 0 {
                    format!("({v})")
                } else {
                    format!("{v}")
                }
            }
            (KeyV::S(s), _) => format!("\"{s}\""),
        }
    }
    fn short(&self) -> String {
        match self {
            KeyV::I(v) => {
                if *v == i64::MIN {
                    "MIN".into()
                } else if *v == i64::MAX {
                    "MAX".into()
                } else {
                    format!("{v}")
                }
            }
            KeyV::S(s) => format!("\"{s}\""),
        }
    }
}

#[derive(Clone, Copy, PartialEq, Eq, Hash, Debug)]
enum Kind {
    Insert,
    IdxSet,
    Remove,
    Get,
    IdxGet,
    TryGet,
    Contains,
    Len,
}
impl Kind {
    fn code(self) -> i64 {
        match self {
            Kind::Insert => 1,
            Kind::IdxSet => 2,
            Kind::Remove => 3,
            Kind::Get => 4,
            Kind::IdxGet => 5,
            Kind::TryGet => 6,
            Kind::Contains => 7,
            Kind::Len => 8,
        }
    }
    fn name(self) -> &'static str {
        match self {
            Kind::Insert => "insert",
            Kind::IdxSet => "index-set",
            Kind::Remove => "remove",
            Kind::Get => "get",
            Kind::IdxGet => "index-get",
            Kind::TryGet => "try_get",
            Kind::Contains => "contains",
            Kind::Len => "len",
        }
    }
}
const MAP_ALL: [Kind; 8] =
    [Kind::Insert, Kind::IdxSet, Kind::Remove, Kind::Get, Kind::IdxGet, Kind::TryGet, Kind::Contains, Kind::Len];
const MAP_GROW: [Kind; 2] = [Kind::Insert, Kind::Remove];
const SET_ALL: [Kind; 4] = [Kind::Insert, Kind::Remove, Kind::Contains, Kind::Len];

#[derive(Clone, Copy, PartialEq, Eq, Hash, Debug)]
struct Op {
    kind: Kind,
    /// index into the family's key list
    key: usize,
    val: i64,
}

struct Fam {
    name: &'static str,
    is_set: bool,
    kt: KT,
    /// probe alphabet (all keys the driver probes after every step)
    keys: Vec<KeyV>,
    /// keys usable in operations (indices into `keys`)
    op_keys: Vec<usize>,
    /// quick tier: only the first n of `op_keys` are used in operations (None = all)
    quick_keys: Option<usize>,
    /// keys NOT probed after every step (the minimum-integer key: its lookups are explicit operations)
    no_probe: Vec<usize>,
    kinds: Vec<Kind>,
    vals: Vec<i64>,
    /// start state: these operations are applied first (not counted in the depth)
    init: Vec<Op>,
    depth: (usize, usize),
    shards: (usize, usize),
}

fn ints(v: &[i64]) -> Vec<KeyV> {
    v.iter().map(|x| KeyV::I(*x)).collect()
}
fn strs(v: &[&str]) -> Vec<KeyV> {
    v.iter().map(|x| KeyV::S(x.to_string())).collect()
}

fn families() -> Vec<Fam> {
    let all = |n: usize| (0..n).collect::<Vec<_>>();
    let ins = |k: usize| Op { kind: Kind::Insert, key: k, val: 0 };
    vec![
        Fam {
            name: "map<int,int> colliding keys {0,4,8}, all operations",
            is_set: false,
            kt: KT::Int,
            keys: ints(&[0, 4, 8]),
            op_keys: all(3),
            no_probe: vec![],
            quick_keys: None,
            kinds: MAP_ALL.to_vec(),
            vals: vec![0, 1],
            init: vec![],
            depth: (6, 8),
            shards: (6, 24),
        },
        Fam {
            name: "map<int,int> keys {1,-1,MAX}, all operations",
            is_set: false,
            kt: KT::Int,
            keys: ints(&[1, -1, i64::MAX]),
            op_keys: all(3),
            no_probe: vec![],
            quick_keys: None,
            kinds: MAP_ALL.to_vec(),
            vals: vec![0, 1],
            init: vec![],
            depth: (5, 7),
            shards: (3, 12),
        },
        Fam {
            name: "map<int,int> growth keys {0,4,8,12,1,-1}, insert/remove",
            is_set: false,
            kt: KT::Int,
            keys: ints(&[0, 4, 8, 12, 1, -1]),
            op_keys: all(6),
            no_probe: vec![],
            quick_keys: Some(5),
            kinds: MAP_GROW.to_vec(),
            vals: vec![0],
            init: vec![],
            depth: (6, 7),
            shards: (8, 32),
        },
        Fam {
            name: "map<int,int> from a 7-key start state (second resize), keys {32,5,0,8,MAX} insert/index-set/remove",
            is_set: false,
            kt: KT::Int,
            keys: ints(&[0, 8, 16, 24, 1, -1, i64::MAX, 32, 5]),
            op_keys: vec![7, 8, 0, 1, 6],
            no_probe: vec![],
            quick_keys: None,
            kinds: vec![Kind::Insert, Kind::IdxSet, Kind::Remove],
            vals: vec![1],
            init: (0..7).map(ins).collect(),
            depth: (4, 6),
            shards: (2, 16),
        },
        Fam {
            name: "map<Ck,int> constant-hash user keys {0,1,2}, all operations",
            is_set: false,
            kt: KT::Ck,
            keys: ints(&[0, 1, 2]),
            op_keys: all(3),
            no_probe: vec![],
            quick_keys: None,
            kinds: MAP_ALL.to_vec(),
            vals: vec![0, 1],
            init: vec![],
            depth: (5, 7),
            shards: (3, 12),
        },
        Fam {
            name: "map<Ck,int> constant-hash growth keys {0..5}, insert/remove",
            is_set: false,
            kt: KT::Ck,
            keys: ints(&[0, 1, 2, 3, 4, 5]),
            op_keys: all(6),
            no_probe: vec![],
            quick_keys: Some(5),
            kinds: MAP_GROW.to_vec(),
            vals: vec![0],
            init: vec![],
            depth: (6, 6),
            shards: (8, 12),
        },
        Fam {
            name: "map<string,int> keys {\"\",\"a\",\"b\"}, all operations",
            is_set: false,
            kt: KT::Str,
            keys: strs(&["", "a", "b"]),
            op_keys: all(3),
            no_probe: vec![],
            quick_keys: None,
            kinds: MAP_ALL.to_vec(),
            vals: vec![0, 1],
            init: vec![],
            depth: (5, 7),
            shards: (3, 16),
        },
        Fam {
            name: "map<string,int> growth keys {\"\",\"a\",\"b\",\"ab\",\"ba\",\"aa\"}, insert/remove",
            is_set: false,
            kt: KT::Str,
            keys: strs(&["", "a", "b", "ab", "ba", "aa"]),
            op_keys: all(6),
            no_probe: vec![],
            quick_keys: Some(5),
            kinds: MAP_GROW.to_vec(),
            vals: vec![0],
            init: vec![],
            depth: (5, 6),
            shards: (3, 12),
        },
        Fam {
            name: "map<int,int> minimum-integer key stratum {MIN,0}, all operations",
            is_set: false,
            kt: KT::Int,
            keys: ints(&[i64::MIN, 0]),
            op_keys: all(2),
            no_probe: vec![0],
            quick_keys: None,
            kinds: MAP_ALL.to_vec(),
            vals: vec![0, 1],
            init: vec![],
            depth: (3, 4),
            shards: (1, 2),
        },
        Fam {
            name: "set<int> keys {0,4,8,1,-1}",
            is_set: true,
            kt: KT::Int,
            keys: ints(&[0, 4, 8, 1, -1]),
            op_keys: all(5),
            no_probe: vec![],
            quick_keys: None,
            kinds: SET_ALL.to_vec(),
            vals: vec![0],
            init: vec![],
            depth: (6, 7),
            shards: (8, 24),
        },
        Fam {
            name: "set<int> from a 7-key start state, keys {32,5,0,MAX}",
            is_set: true,
            kt: KT::Int,
            keys: ints(&[0, 8, 16, 24, 1, -1, i64::MAX, 32, 5]),
            op_keys: vec![7, 8, 0, 6],
            no_probe: vec![],
            quick_keys: None,
            kinds: SET_ALL.to_vec(),
            vals: vec![0],
            init: (0..7).map(ins).collect(),
            depth: (4, 6),
            shards: (1, 8),
        },
        Fam {
            name: "set<Ck> constant-hash user keys {0..4}",
            is_set: true,
            kt: KT::Ck,
            keys: ints(&[0, 1, 2, 3, 4]),
            op_keys: all(5),
            no_probe: vec![],
            quick_keys: None,
            kinds: SET_ALL.to_vec(),
            vals: vec![0],
            init: vec![],
            depth: (5, 6),
            shards: (3, 8),
        },
        Fam {
            name: "set<string> keys {\"\",\"a\",\"b\",\"ab\",\"ba\"}",
            is_set: true,
            kt: KT::Str,
            keys: strs(&["", "a", "b", "ab", "ba"]),
            op_keys: all(5),
            no_probe: vec![],
            quick_keys: None,
            kinds: SET_ALL.to_vec(),
            vals: vec![0],
            init: vec![],
            depth: (5, 6),
            shards: (3, 8),
        },
        Fam {
            name: "set<int> minimum-integer key stratum {MIN,0}",
            is_set: true,
            kt: KT::Int,
            keys: ints(&[i64::MIN, 0]),
            op_keys: all(2),
            no_probe: vec![0],
            quick_keys: None,
            kinds: SET_ALL.to_vec(),
            vals: vec![0],
            init: vec![],
            depth: (3, 4),
            shards: (1, 1),
        },
    ]
}

impl Fam {
    fn alphabet(&self, tier: Tier) -> Vec<Op> {
        let mut v = vec![];
        let nk = match (tier, self.quick_keys) {
            (Tier::Quick, Some(n)) => n.min(self.op_keys.len()),
            _ => self.op_keys.len(),
        };
        let op_keys = &self.op_keys[..nk];
        for kind in &self.kinds {
            match kind {
                Kind::Len => v.push(Op { kind: *kind, key: op_keys[0], val: 0 }),
                Kind::Insert | Kind::IdxSet if !self.is_set => {
                    for k in op_keys {
                        for val in &self.vals {
                            v.push(Op { kind: *kind, key: *k, val: *val });
                        }
                    }
                }
                _ => {
                    for k in op_keys {
                        v.push(Op { kind: *kind, key: *k, val: 0 });
                    }
                }
            }
        }
        v
    }
    fn probe_keys(&self) -> Vec<&KeyV> {
        self.keys.iter().enumerate().filter(|(i, _)| !self.no_probe.contains(i)).map(|(_, k)| k).collect()
    }
    fn depth(&self, tier: Tier) -> usize {
        tier.pick(self.depth.0, self.depth.1)
    }
    fn nshards(&self, tier: Tier) -> usize {
        tier.pick(self.shards.0, self.shards.1)
    }
    fn container(&self) -> String {
        let k = match self.kt {
            KT::Int => "int",
            KT::Ck => "Ck",
            KT::Str => "string",
        };
        if self.is_set { format!("set<{k}>") } else { format!("map<{k}, int>") }
    }
}

const NONE_CODE: i64 = -1000;

/// The reference model: Rust's HashMap (a set is a map to 0) plus the structural event log that
/// serves as the layout part of the state key.
#[derive(Default)]
struct Model {
    map: HashMap<KeyV, i64>,
    structural: Vec<(bool, usize)>,
}

enum Step {
    Ok(Vec<Emit>),
    /// `get` / `m[k]` of a missing key: runtime error of kind "panic"
    MissingKeyPanic,
}

impl Model {
    fn step(&mut self, fam: &Fam, op: &Op) -> Step {
        let k = fam.keys[op.key].clone();
        match op.kind {
            Kind::Insert | Kind::IdxSet => {
                if self.map.insert(k, op.val).is_none() {
                    self.structural.push((true, op.key));
                }
                Step::Ok(vec![])
            }
            Kind::Remove => {
                let was = self.map.remove(&k).is_some();
                if was {
                    self.structural.push((false, op.key));
                }
                Step::Ok(vec![Emit::Bool(was)])
            }
            Kind::Get | Kind::IdxGet => match self.map.get(&k) {
                Some(v) => Step::Ok(vec![Emit::Int(*v)]),
                None => Step::MissingKeyPanic,
            },
            Kind::TryGet => Step::Ok(vec![Emit::Int(self.map.get(&k).copied().unwrap_or(NONE_CODE))]),
            Kind::Contains => Step::Ok(vec![Emit::Bool(self.map.contains_key(&k))]),
            Kind::Len => Step::Ok(vec![Emit::Int(self.map.len() as i64)]),
        }
    }
    fn probe(&self, fam: &Fam) -> Vec<Emit> {
        let mut v = vec![Emit::Int(self.map.len() as i64)];
        if fam.is_set {
            let s: HashSet<&KeyV> = self.map.keys().collect();
            for k in fam.probe_keys() {
                v.push(Emit::Bool(s.contains(k)));
            }
        } else {
            for k in fam.probe_keys() {
                v.push(Emit::Bool(self.map.contains_key(k)));
                v.push(Emit::Int(self.map.get(k).copied().unwrap_or(NONE_CODE)));
            }
        }
        v
    }
}

#[derive(Hash, PartialEq, Eq)]
enum Key {
    State(Vec<(bool, usize)>, BTreeMap<usize, i64>),
    Error,
}

fn key(fam: &Fam, h: &[Op]) -> Option<Key> {
    let mut m = Model::default();
    for (n, op) in h.iter().enumerate() {
        match m.step(fam, op) {
            Step::Ok(_) => {}
            Step::MissingKeyPanic => return if n + 1 == h.len() { Some(Key::Error) } else { None },
        }
    }
    let vals: BTreeMap<usize, i64> =
        fam.keys.iter().enumerate().filter_map(|(i, k)| m.map.get(k).map(|v| (i, *v))).collect();
    Some(Key::State(m.structural, vals))
}

// ------------------------------------------------------------------ driver programs

const CK_DECL: &str = "type Ck = {\n    id: int\n}\nimplement Hash for Ck {\n    fn hash(a) = -5\n}\nimplement Equal for Ck {\n    fn equal(a, b) = a.id == b.id\n}\n";

fn driver_text(fam: &Fam) -> String {
    let (kty, next, decl) = match fam.kt {
        KT::Int => ("int", "vh_next_int()", ""),
        KT::Ck => ("Ck", "Ck(vh_next_int())", CK_DECL),
        KT::Str => ("string", "vh_next_str()", ""),
    };
    if fam.is_set {
        format!(
            r#"use vh
use core/set
{decl}
fn probe(s: set<{kty}>, keys: array<{kty}>) -> void {{
    vh_emit_int(s.len())
    var i = 0
    while i < keys.len() {{
        vh_emit_bool(s.contains(keys[i]))
        i = i + 1
    }}
}}
let nk = vh_next_int()
let keys: array<{kty}> = []
var i = 0
while i < nk {{
    keys.push({next})
    i = i + 1
}}
let s: set<{kty}> = set.new()
probe(s, keys)
while true {{
    let op = vh_next_int()
    if op == 0 {{
        break
    }}
    let k = {next}
    if op == 1 {{
        s.insert(k)
    }} else if op == 3 {{
        vh_emit_bool(s.remove(k))
    }} else if op == 7 {{
        vh_emit_bool(s.contains(k))
    }} else if op == 8 {{
        vh_emit_int(s.len())
    }}
    probe(s, keys)
}}
"#
        )
    } else {
        format!(
            r#"use vh
use core/map
{decl}
fn probe(m: map<{kty}, int>, keys: array<{kty}>) -> void {{
    vh_emit_int(m.len())
    var i = 0
    while i < keys.len() {{
        vh_emit_bool(m.contains(keys[i]))
        match m.try_get(keys[i]) {{
            .some(v) -> vh_emit_int(v)
            .none -> vh_emit_int({NONE_CODE})
        }}
        i = i + 1
    }}
}}
let nk = vh_next_int()
let keys: array<{kty}> = []
var i = 0
while i < nk {{
    keys.push({next})
    i = i + 1
}}
let m: map<{kty}, int> = map.new()
probe(m, keys)
while true {{
    let op = vh_next_int()
    if op == 0 {{
        break
    }}
    let k = {next}
    if op == 1 {{
        m.insert(k, vh_next_int())
    }} else if op == 2 {{
        m[k] = vh_next_int()
    }} else if op == 3 {{
        vh_emit_bool(m.remove(k))
    }} else if op == 4 {{
        vh_emit_int(m.get(k))
    }} else if op == 5 {{
        vh_emit_int(m[k])
    }} else if op == 6 {{
        match m.try_get(k) {{
            .some(v) -> vh_emit_int(v)
            .none -> vh_emit_int({NONE_CODE})
        }}
    }} else if op == 7 {{
        vh_emit_bool(m.contains(k))
    }} else if op == 8 {{
        vh_emit_int(m.len())
    }}
    probe(m, keys)
}}
"#
        )
    }
}

fn driver_src(fam: &Fam) -> Src {
    let mut src = Src::with_vh(&driver_text(fam));
    // module texts come from the working tree at check time
    src = src.add("core/map.abra", &drive::core_module("map"));
    src = src.add("core/math.abra", &drive::core_module("math"));
    if fam.is_set {
        src = src.add("core/set.abra", &drive::core_module("set"));
    }
    src
}

fn inputs_for(fam: &Fam, h: &[Op]) -> Vec<Input> {
    let pk = fam.probe_keys();
    let mut v = vec![Input::Int(pk.len() as i64)];
    let wrap = |k: &KeyV| -> Input { k.input() };
    for k in pk {
        v.push(wrap(k));
    }
    for op in h {
        v.push(Input::Int(op.kind.code()));
        v.push(wrap(&fam.keys[op.key]));
        if !fam.is_set && matches!(op.kind, Kind::Insert | Kind::IdxSet) {
            v.push(Input::Int(op.val));
        }
    }
    v.push(Input::Int(0));
    v
}

fn describe(fam: &Fam, h: &[Op]) -> (String, String) {
    let c = if fam.is_set { "s" } else { "m" };
    let mut words = vec![];
    let mut prog = format!(
        "use core/{}\n{}let {c}: {} = {}.new()\n",
        if fam.is_set { "set" } else { "map" },
        if fam.kt == KT::Ck { CK_DECL } else { "" },
        fam.container(),
        if fam.is_set { "set" } else { "map" }
    );
    for (n, op) in h.iter().enumerate() {
        let k = &fam.keys[op.key];
        let kl = k.lit(fam.kt);
        let (w, line) = match op.kind {
            Kind::Insert if fam.is_set => (format!("insert {}", k.short()), format!("{c}.insert({kl})")),
            Kind::Insert => (format!("insert {} {}", k.short(), op.val), format!("{c}.insert({kl}, {})", op.val)),
            Kind::IdxSet => (format!("m[{}]={}", k.short(), op.val), format!("{c}[{kl}] = {}", op.val)),
            Kind::Remove => (format!("remove {}", k.short()), format!("println({c}.remove({kl}))")),
            Kind::Get => (format!("get {}", k.short()), format!("println({c}.get({kl}))")),
            Kind::IdxGet => (format!("m[{}]", k.short()), format!("println({c}[{kl}])")),
            Kind::TryGet => (format!("try_get {}", k.short()), format!("println({c}.try_get({kl}))")),
            Kind::Contains => (format!("contains {}", k.short()), format!("println({c}.contains({kl}))")),
            Kind::Len => ("len".to_string(), format!("println({c}.len())")),
        };
        if n == fam.init.len() && n > 0 {
            words.push("|".into());
        }
        words.push(w);
        prog.push_str(&line);
        prog.push('\n');
    }
    prog.push_str(&format!("println({c}.len())\n"));
    (format!("{} [{}]: {}", fam.container(), fam.name, words.join("; ")), prog)
}

fn exec(d: &Driver, fam: &Fam, h: &[Op], out: &mut UnitOut) {
    let (text, prog) = describe(fam, h);
    out.describe_case(&text);
    let mut m = Model::default();
    // expected emits: initial probe, then per step (result + probe)
    let mut steps: Vec<Vec<Emit>> = vec![m.probe(fam)];
    let mut missing = false;
    for op in h {
        match m.step(fam, op) {
            Step::Ok(mut e) => {
                e.extend(m.probe(fam));
                steps.push(e);
            }
            Step::MissingKeyPanic => {
                missing = true;
                break;
            }
        }
    }
    let nstruct = m.structural.len();
    if nstruct >= 2 || missing {
        out.nontrivial_text(&text);
    }
    let r = d.run(inputs_for(fam, h), 5_000_000);
    out.count(&format!("executed[{}]", fam.name), 1);
    let got = &r.host.emits;
    let mut pos = 0usize;
    // index into `steps` of the first disagreement (0 = initial probe, n = operation n-1)
    let mut diverged: Option<usize> = None;
    let mut why = String::new();
    for (n, exp) in steps.iter().enumerate() {
        let e = (pos + exp.len()).min(got.len());
        if &got[pos..e] == exp.as_slice() {
            pos += exp.len();
            continue;
        }
        diverged = Some(n);
        why = format!(
            "after {}: expected {} observed {}{}",
            if n == 0 { "creation".to_string() } else { format!("operation {n} ({})", h[n - 1].kind.name()) },
            emits_short(exp),
            emits_short(&got[pos..got.len().min(pos + exp.len() + 2)]),
            if got.len() < pos + exp.len() { format!(" then end {}", end_short(&r.end)) } else { String::new() }
        );
        break;
    }
    if diverged.is_none() {
        let end_ok = if missing {
            matches!(&r.end, End::Error { kind, .. } if kind == "panic") && got.len() == pos
        } else {
            r.end == End::Done && got.len() == pos
        };
        if !end_ok {
            diverged = Some(if missing { steps.len() } else { steps.len() - 1 });
            why = if missing {
                format!(
                    "operation {} ({} of a missing key) must stop with a panic runtime error; observed end {} emits-after {}",
                    steps.len(),
                    h[steps.len() - 1].kind.name(),
                    end_short(&r.end),
                    emits_short(&got[pos.min(got.len())..])
                )
            } else {
                format!("program should finish; observed end {} extra emits {}", end_short(&r.end), emits_short(&got[pos.min(got.len())..]))
            };
        }
    }
    if diverged.is_none() && r.host.input_error.is_some() {
        diverged = Some(h.len());
        why = format!("driver protocol error: {:?}", r.host.input_error);
    }
    let last_step = h.len(); // index in `steps` numbering of the last operation
    match diverged {
        None => {
            let c = if h.is_empty() {
                "created: empty".to_string()
            } else {
                let op = &h[h.len() - 1];
                let was_struct = {
                    let mut m2 = Model::default();
                    for o in &h[..h.len() - 1] {
                        let _ = m2.step(fam, o);
                    }
                    let before = m2.structural.len();
                    let _ = m2.step(fam, op);
                    m2.structural.len() != before
                };
                let slots = m.structural.iter().filter(|e| e.0).count();
                match op.kind {
                    Kind::Insert | Kind::IdxSet => {
                        if was_struct {
                            let removed_before = m.structural[..m.structural.len() - 1].iter().any(|e| !e.0);
                            if removed_before { format!("{}: new key after a removal (slot reuse path)", op.kind.name()) } else if slots == 5 || slots == 9 { format!("{}: new key, table grows", op.kind.name()) } else { format!("{}: new key", op.kind.name()) }
                        } else {
                            format!("{}: update of a present key", op.kind.name())
                        }
                    }
                    Kind::Remove => if was_struct { "remove: present".into() } else { "remove: absent".into() },
                    Kind::Get | Kind::IdxGet => if missing { format!("{}: missing key, panic error", op.kind.name()) } else { format!("{}: value", op.kind.name()) },
                    k => format!("{}: ok", k.name()),
                }
            };
            out.class(&c);
            if h.len() >= 5 && h.len() % 2 == 1 && out.samples.len() < 3 {
                out.sample(json!({"history": text, "emits": emits_short(got), "end": r.end.class()}));
            }
        }
        Some(n) if n < last_step => out.class("diverged at an earlier step (reported by the prefix history)"),
        Some(_) => {
            out.class("violation");
            if out.violations.len() >= MAX_RECORDED_PER_UNIT {
                out.count("violations_counted_but_not_recorded (per-unit cap)", 1);
                return;
            }
            let mut keys = vec![format!("input:{}", hkey(&text))];
            if let End::Fault(p) = &r.end {
                keys.push(p.site_key());
            }
            let lastk = h.last().map(|o| o.kind.name()).unwrap_or("new");
            let lastkey = h.last().map(|o| fam.keys[o.key].short()).unwrap_or_default();
            keys.push(format!("class:{}:{}:key={}:{}", fam.container(), lastk, lastkey, r.end.class()));
            keys.push(format!("keyclass:{}:{}", lastkey, r.end.class()));
            out.violation(
                keys,
                format!("{text} => {why}"),
                json!({
                    "family": fam.name,
                    "history": text,
                    "standalone_program": prog,
                    "expected_emits_per_step": steps.iter().map(|s| emits_short(s)).collect::<Vec<_>>(),
                    "expected_end": if missing { "runtime error: panic (get of a missing key)" } else { "done" },
                    "observed_emits": emits_short(got),
                    "observed_end": end_short(&r.end),
                    "why": why,
                    "note": "emits per step: result of the operation, then len and contains/try_get of every key of the family (try_get none = -1000)",
                    "probe_keys": fam.probe_keys().iter().map(|k| k.short()).collect::<Vec<_>>(),
                }),
            );
        }
    }
}

fn unit_map(tier: Tier) -> Vec<(usize, usize)> {
    let mut v = vec![];
    for (i, f) in families().iter().enumerate() {
        for s in 0..f.nshards(tier) {
            v.push((i, s));
        }
    }
    v
}

impl Prop for C27 {
    fn id(&self) -> &'static str {
        "C27"
    }
    fn level(&self) -> &'static str {
        "model_checking"
    }
    fn prepare(&self, _tier: Tier) -> Result<(), String> {
        for f in families() {
            for m in ["map", "set", "math"] {
                std::fs::read_to_string(format!("/repo/modules/core/{m}.abra")).map_err(|e| format!("core/{m}.abra: {e}"))?;
            }
            Driver::build(&driver_src(&f)).map_err(|e| format!("driver for family `{}`: {e}", f.name))?;
        }
        Ok(())
    }
    fn n_units(&self, tier: Tier) -> usize {
        unit_map(tier).len()
    }
    fn run_unit(&self, tier: Tier, unit: usize, out: &mut UnitOut) {
        let (fi, shard) = unit_map(tier)[unit];
        let fams = families();
        let fam = &fams[fi];
        let d = match Driver::build(&driver_src(fam)) {
            Ok(d) => d,
            Err(e) => {
                out.notes.push(format!("machinery: {e}"));
                return;
            }
        };
        let ops = fam.alphabet(tier);
        sharded_bfs(
            fam.init.clone(),
            &ops,
            fam.depth(tier),
            |h| key(fam, h),
            |h, out| exec(&d, fam, h, out),
            out,
            0,
            shard,
            fam.nshards(tier),
            30_000_000,
        );
    }
    fn rule(&self, tier: Tier) -> String {
        let fams = families();
        let list: Vec<String> = fams.iter().map(|f| format!("{} (depth {})", f.name, f.depth(tier))).collect();
        format!(
            "breadth-first search over operation histories of the real core/map and core/set (module text read from the working tree), one family per key domain: {}; \
             map operations insert k v, m[k] = v, remove k, get k, m[k], try_get k, contains k, len (values {{0,1}}); set operations insert, remove, contains, len; after every \
             operation the driver probes len and contains/try_get of every key of the family; histories merged on (sequence of structural events = insert of an absent key / \
             removal of a present key, current key->value map); every transition replays its whole history on a fresh VM and is compared with Rust HashMap/HashSet after every \
             step; get / m[k] of a missing key => runtime error of kind panic; non-trivial = at least two structural events or an expected missing-key panic",
            list.join("; ")
        )
    }
    fn assumptions(&self) -> Vec<String> {
        vec![
            "state merging is exact for the code as written: buckets, chains, free list and resize are touched only by an insert of an absent key and a removal of a present key, so two histories with the same sequence of such events (same keys) and the same current values reach the same table; that reads/updates do not disturb the table is itself checked, because every step of every history is followed by a full probe and every transition is executed on the real module".into(),
            "the design's layout fingerprint read from the struct fields is replaced by this history-derived structural sequence (strictly finer than any fingerprint of the fields), which keeps the search order independent of the subject".into(),
            "the alphabet is reduced per family instead of the depth: all nine operation kinds on 3-key domains, insert/remove only on 5-6-key domains (first resize at the 5th slot, slot reuse), and a 7-key start state for the second resize".into(),
            "the minimum 64-bit integer key is confined to its own small families so that its known defect cannot mask anything in the main families".into(),
            "a divergence at step k of a longer history is reported once, by the history that ends at step k".into(),
        ]
    }
}
