//! Shared helpers of the C16 / C30 modules: float literal spelling (Abra has no exponent form),
//! exact decimal expansions of binary64 values and of the midpoints between neighbours
//! (independent oracle for round-half cases), and a judge over per-emit expectations.

use crate::batch::{Case, CaseResult, short_end};
use crate::drive::{Emit, End};
use crate::fw::{UnitOut, hkey};
use serde_json::json;

// ------------------------------------------------------------------ float literal spelling

/// Positional decimal spelling (digits `.` digits, no exponent, no sign) of a finite
/// non-negative binary64 that `str::parse::<f64>` maps back to exactly `v`.
pub fn spell_abs(v: f64) -> Option<String> {
    if !v.is_finite() {
        return None;
    }
    let v = v.abs();
    let mut s = format!("{v}"); // Display: shortest round-trip digits, never an exponent
    if s.contains('e') || s.contains('E') {
        return None;
    }
    if !s.contains('.') {
        s.push_str(".0");
    }
    match s.parse::<f64>() {
        Ok(b) if b.to_bits() == v.to_bits() => Some(s),
        _ => None,
    }
}

/// Abra expression text of a float literal denoting exactly `v` (negative values parenthesised,
/// like `batch::int_lit`); None for NaN / infinities, which have no literal spelling.
pub fn flit(v: f64) -> Option<String> {
    let s = spell_abs(v)?;
    Some(if v.is_sign_negative() { format!("(-{s})") } else { s })
}

/// Short readable name of a float for case names (bit pattern always included).
pub fn fname(v: f64) -> String {
    if v.is_nan() {
        format!("{}NaN#{:016x}", if v.is_sign_negative() { "-" } else { "+" }, v.to_bits())
    } else {
        format!("{:e}#{:016x}", v, v.to_bits())
    }
}

// ------------------------------------------------------------------ exact decimal expansions

/// Unsigned decimal big number: little-endian base-10 digits (naive on purpose).
#[derive(Clone, Debug)]
pub struct Dec(pub Vec<u8>);
impl Dec {
    pub fn from_u64(mut n: u64) -> Dec {
        let mut d = vec![];
        if n == 0 {
            d.push(0);
        }
        while n > 0 {
            d.push((n % 10) as u8);
            n /= 10;
        }
        Dec(d)
    }
    pub fn mul_small(&mut self, k: u32) {
        let mut carry: u32 = 0;
        for d in self.0.iter_mut() {
            let x = *d as u32 * k + carry;
            *d = (x % 10) as u8;
            carry = x / 10;
        }
        while carry > 0 {
            self.0.push((carry % 10) as u8);
            carry /= 10;
        }
    }
    /// most significant digit first
    pub fn digits(&self) -> String {
        let mut s: String = self.0.iter().rev().map(|d| (b'0' + d) as char).collect();
        while s.len() > 1 && s.starts_with('0') {
            s.remove(0);
        }
        s
    }
}

/// Exact positional decimal text of `m * 2^e` (m > 0), always with a `.` and at least one
/// fractional digit, no superfluous trailing zeros.
pub fn exact_decimal(m: u64, e: i32) -> String {
    let mut d = Dec::from_u64(m);
    if e >= 0 {
        for _ in 0..e {
            d.mul_small(2);
        }
        format!("{}.0", d.digits())
    } else {
        let k = (-e) as usize;
        for _ in 0..k {
            d.mul_small(5);
        }
        // value = d / 10^k
        let mut ds = d.digits();
        if ds.len() <= k {
            ds = format!("{}{}", "0".repeat(k + 1 - ds.len()), ds);
        }
        let (ip, fp) = ds.split_at(ds.len() - k);
        let fp = fp.trim_end_matches('0');
        format!("{}.{}", ip, if fp.is_empty() { "0" } else { fp })
    }
}

/// (mantissa, exponent) with value = m * 2^e exactly, for finite positive v.
pub fn decompose(v: f64) -> (u64, i32) {
    let bits = v.to_bits();
    let exp = ((bits >> 52) & 0x7ff) as i32;
    let frac = bits & ((1u64 << 52) - 1);
    if exp == 0 { (frac, -1074) } else { (frac | (1u64 << 52), exp - 1075) }
}

/// Exact decimal text of a finite positive binary64.
pub fn exact_of(v: f64) -> String {
    let (m, e) = decompose(v);
    exact_decimal(m, e)
}

/// Exact decimal text of the midpoint between finite positive `v` and its successor.
pub fn midpoint_above(v: f64) -> String {
    let (m, e) = decompose(v);
    exact_decimal(2 * m + 1, e - 1)
}

/// Add `delta` (±1) to the last digit of a positional decimal text, with carry/borrow.
/// Returns None if a borrow runs off the front.
pub fn nudge_last_digit(s: &str, up: bool) -> Option<String> {
    let mut b: Vec<u8> = s.bytes().collect();
    let mut i = b.len();
    loop {
        if i == 0 {
            if up {
                b.insert(0, b'1');
                return Some(String::from_utf8(b).unwrap());
            }
            return None;
        }
        i -= 1;
        if b[i] == b'.' {
            continue;
        }
        if up {
            if b[i] == b'9' {
                b[i] = b'0';
            } else {
                b[i] += 1;
                return Some(String::from_utf8(b).unwrap());
            }
        } else if b[i] == b'0' {
            b[i] = b'9';
        } else {
            b[i] -= 1;
            return Some(String::from_utf8(b).unwrap());
        }
    }
}

/// Truncate a positional decimal text to `k` significant digits (digits beyond are dropped in the
/// fraction and replaced by zeros in the integer part); keeps at least one fractional digit.
pub fn truncate_sig(s: &str, k: usize) -> String {
    let mut out = String::new();
    let mut seen = 0usize;
    let mut started = false;
    let mut after_point = false;
    for ch in s.chars() {
        if ch == '.' {
            after_point = true;
            out.push('.');
            continue;
        }
        if ch != '0' {
            started = true;
        }
        if started {
            seen += 1;
        }
        if !started || seen <= k {
            out.push(ch);
        } else if !after_point {
            out.push('0');
        }
    }
    if out.ends_with('.') {
        out.push('0');
    }
    out
}

// ------------------------------------------------------------------ judge

/// Expectation for one host emit.
#[derive(Clone, PartialEq)]
pub enum Want {
    /// exactly this binary64
    Float(u64),
    /// any NaN (IEEE-754 leaves sign and payload of a generated NaN open)
    FloatNaN,
    /// any of these bit patterns
    FloatAny(Vec<u64>),
    Int(i64),
    Bool(bool),
    Str(String),
    /// a string whose non-whitespace characters, in order, are exactly these
    StrNonWs(String),
}

impl std::fmt::Debug for Want {
    fn fmt(&self, f: &mut std::fmt::Formatter<'_>) -> std::fmt::Result {
        let fl = |b: &u64| format!("{:?} = 0x{:016x}", f64::from_bits(*b), b);
        match self {
            Want::Float(b) => write!(f, "Float({})", fl(b)),
            Want::FloatNaN => write!(f, "Float(any NaN)"),
            Want::FloatAny(v) => write!(f, "Float(one of {})", v.iter().map(fl).collect::<Vec<_>>().join(" | ")),
            Want::Int(i) => write!(f, "Int({i})"),
            Want::Bool(b) => write!(f, "Bool({b})"),
            Want::Str(s) => write!(f, "Str({s:?})"),
            Want::StrNonWs(s) => write!(f, "Str(any text whose non-whitespace characters are {s:?})"),
        }
    }
}

impl Want {
    pub fn matches(&self, e: &Emit) -> bool {
        match (self, e) {
            (Want::Float(b), Emit::Float(x)) => b == x,
            (Want::FloatNaN, Emit::Float(x)) => f64::from_bits(*x).is_nan(),
            (Want::FloatAny(v), Emit::Float(x)) => v.contains(x),
            (Want::Int(a), Emit::Int(b)) => a == b,
            (Want::Bool(a), Emit::Bool(b)) => a == b,
            (Want::Str(a), Emit::Str(b)) => a == b,
            (Want::StrNonWs(a), Emit::Str(b)) => {
                let nb: String = b.chars().filter(|c| !c.is_whitespace()).collect();
                *a == nb
            }
            _ => false,
        }
    }
}

#[derive(Clone, Debug, PartialEq)]
pub enum Exp {
    Done(Vec<Want>),
    Err(&'static str),
    /// must be rejected with diagnostics (not a panic, not accepted)
    Reject,
    /// either rejected with diagnostics, or runs to completion with these emits
    DoneOrReject(Vec<Want>),
    Unspecified,
}

pub fn show_emits(e: &[Emit]) -> String {
    let v: Vec<String> = e
        .iter()
        .map(|e| match e {
            Emit::Float(b) => format!("Float({:?} = 0x{:016x})", f64::from_bits(*b), b),
            o => format!("{o:?}"),
        })
        .collect();
    format!("[{}]", v.join(", "))
}

pub fn fail(out: &mut UnitOut, c: &Case, exp: &str, observed: String, extra: Vec<String>) {
    let mut keys = vec![format!("input:{}", hkey(&c.name))];
    keys.extend(extra);
    out.class("violation");
    out.violation(
        keys,
        format!("{}: expected {}, observed {}", c.name, exp, observed),
        json!({"case": c.name, "program": c.standalone(), "inputs": format!("{:?}", c.inputs),
               "expected": exp, "observed": observed}),
    );
}

/// Pure comparison of a case result with `exp`: Ok(outcome class) or Err((observed, extra keys)).
pub fn evaluate(r: &CaseResult, exp: &Exp, ok_class: &str) -> Result<String, (String, Vec<String>)> {
    match r {
        CaseResult::Diag(d) => match exp {
            Exp::Reject => Ok(ok_class.to_string()),
            Exp::DoneOrReject(_) => Ok(format!("{ok_class}:rejected")),
            Exp::Unspecified => Ok(format!("{ok_class}:rejected")),
            _ => Err((format!("compile diagnostics: {}", d.lines().next().unwrap_or("")), vec![])),
        },
        CaseResult::CompilerPanic(p) => Err((format!("compiler panic at {}: {}", p.site, p.msg), vec![p.site_key()])),
        CaseResult::Ran(o) => {
            if let End::Fault(p) = &o.end {
                return Err((format!("VM fault (Rust panic) at {}: {}", p.site, p.msg), vec![p.site_key()]));
            }
            if let End::InternalError { text } = &o.end {
                return Err((format!("VM internal error: {}", text.lines().next().unwrap_or("")), vec![]));
            }
            let observed = || format!("end={} emits={}", short_end(&o.end), show_emits(&o.emits));
            match exp {
                Exp::Unspecified => Ok(format!("{ok_class}:{}", o.end.class())),
                Exp::Reject => Err((format!("accepted; {}", observed()), vec![])),
                Exp::Done(w) | Exp::DoneOrReject(w) => {
                    let ok = o.end == End::Done
                        && o.emits.len() == w.len()
                        && w.iter().zip(o.emits.iter()).all(|(w, e)| w.matches(e));
                    if ok { Ok(ok_class.to_string()) } else { Err((observed(), vec![])) }
                }
                Exp::Err(kind) => {
                    let ok = matches!(&o.end, End::Error { kind: k, .. } if k == kind) && o.emits.is_empty();
                    if ok { Ok(ok_class.to_string()) } else { Err((observed(), vec![])) }
                }
            }
        }
    }
}

/// Compare a case result with `exp`; on agreement record `ok_class` and return true.
pub fn judge_want(out: &mut UnitOut, c: &Case, r: &CaseResult, exp: &Exp, ok_class: &str) -> bool {
    match evaluate(r, exp, ok_class) {
        Ok(class) => {
            out.class(&class);
            true
        }
        Err((observed, keys)) => {
            fail(out, c, &format!("{exp:?}"), observed, keys);
            false
        }
    }
}

/// Like `judge_want`, but a case that disagrees inside a batch is first re-run as a standalone
/// program and judged on that result (a malformed neighbour in the batch, e.g. a string literal
/// that swallows the following functions, must not be blamed on this case).
pub fn judge_isolating(
    out: &mut UnitOut,
    c: &Case,
    r: &CaseResult,
    exp: &Exp,
    ok_class: &str,
    already_alone: bool,
    co: crate::drive::COpts,
    ro: crate::drive::ROpts,
) -> bool {
    if already_alone || evaluate(r, exp, ok_class).is_ok() || out.isolate || out.only_case.is_some() {
        return judge_want(out, c, r, exp, ok_class);
    }
    let alone = crate::batch::run_batch(std::slice::from_ref(c), co, ro);
    out.count("disagreements_rerun_standalone", 1);
    if evaluate(&alone[0], exp, ok_class).is_ok() {
        out.count("batch_only_disagreements", 1);
    }
    judge_want(out, c, &alone[0], exp, ok_class)
}

#[cfg(test)]
mod tests {
    use super::*;
    #[test]
    fn expansions() {
        assert_eq!(exact_of(1.0), "1.0");
        assert_eq!(exact_of(0.5), "0.5");
        assert_eq!(exact_of(0.1), "0.1000000000000000055511151231257827021181583404541015625");
        assert_eq!(midpoint_above(1.0), "1.00000000000000011102230246251565404236316680908203125");
        assert_eq!(midpoint_above(9007199254740992.0), "9007199254740993.0");
        assert_eq!(truncate_sig("123.456", 2), "120.0");
        assert_eq!(truncate_sig("0.00123456", 3), "0.00123");
        assert_eq!(nudge_last_digit("1.99", true).unwrap(), "2.00");
        assert_eq!(nudge_last_digit("1.00", false).unwrap(), "0.99");
        assert!(exact_of(f64::from_bits(1)).starts_with("0.000"));
        assert_eq!(exact_of(f64::from_bits(1)).parse::<f64>().unwrap().to_bits(), 1);
    }
}
