//! C03 — every program accepted by the checker compiles to bytecode.
//!
//! Universe: the full product `context chain × payload × declaration level`.
//! A chain is a sequence of ≤ k nested contexts (top level = the empty chain); the payload is one
//! statement placed innermost; payloads that touch a variable are enumerated once per *level* at
//! which that variable can be declared (level 0 = top level, level i = body of the i-th context),
//! so every distance (number of function / lambda / task / loop boundaries) between declaration
//! and use is covered.  `fn` and `extend` are only grammatical at top level, therefore the contexts
//! "function body" and "member function" occur only as the outermost element of a chain.
//!
//! Oracle: `check` returns diagnostics (class rejected, passes) or, if it returns Ok,
//! `compile_bytecode` returns Ok (no panic, no diagnostics) and running the result under budget 1
//! does not fault.

use crate::drive::{self, COpts, Checked, Compiled, End, ROpts, Src, StdHost};
use crate::fw::{Prop, Tier, UnitOut, hkey};
use serde_json::json;

pub struct C03;

#[derive(Clone, Copy, Debug, PartialEq, Eq)]
pub enum Ctx {
    Fn,
    Member,
    Lambda,
    Task,
    While,
    For,
    MatchArm,
    If,
    Operand,
    /// the payload sits in a block that is the CONDITION of a while loop (not in the loop's body)
    WhileCond,
    /// ... in a block that is the iterable of a for loop
    ForIter,
    /// ... in a block that is the condition of an if
    IfCond,
    /// ... in a block that is the scrutinee of a match
    Scrutinee,
}
use Ctx::*;
/// contexts allowed as the outermost element
const FIRST: [Ctx; 13] = [Fn, Member, Lambda, Task, While, For, MatchArm, If, Operand, WhileCond, ForIter, IfCond, Scrutinee];
/// contexts allowed below another context (fn / extend cannot be nested: parse error)
const INNER: [Ctx; 11] = [Lambda, Task, While, For, MatchArm, If, Operand, WhileCond, ForIter, IfCond, Scrutinee];

impl Ctx {
    fn name(self) -> &'static str {
        match self {
            Fn => "fn",
            Member => "member",
            Lambda => "lambda",
            Task => "task",
            While => "while",
            For => "for",
            MatchArm => "arm",
            If => "if",
            Operand => "operand",
            WhileCond => "while-cond",
            ForIter => "for-iter",
            IfCond => "if-cond",
            Scrutinee => "scrutinee",
        }
    }
    fn has_param(self) -> bool {
        matches!(self, Fn | Member | Lambda)
    }
}

#[derive(Clone, Copy, Debug, PartialEq, Eq)]
pub enum Ret {
    Void,
    Int,
    Opt,
}

#[derive(Clone, Copy, Debug, PartialEq, Eq)]
pub enum PK {
    Nop,
    Break,
    Continue,
    Return,
    ReturnE,
    Try,
    Unwrap,
    // need a variable declared at some level
    ReadLocal,
    Assign,
    AddAssign,
    FieldAssign,
    FieldAddAssign,
    ArrAssign,
    ArrAddAssign,
    /// element assignment whose index expression binds a name (`a[match .. { .some(i) -> i .. }] = 5`)
    ArrAssignBindingIndex,
    /// field assignment through an element whose index expression binds a name
    FieldOfElemAssignBindingIndex,
    IdxAssign,
    IdxAddAssign,
    TaskRead,
    LambdaRead,
    MatchScrut,
    Num(char),
    /// unary minus on the user Num type
    NumNeg,
    /// `n += n` on a `var` of the user Num type
    NumAddAssign,
    /// call of a lambda held in an outer local (the variable occurs only in callee position)
    CallLocal,
    // need a binder of the context at that level
    ReadParam,
    ReadLoopVar,
    ReadBinding,
}
const PLAIN: [PK; 7] = [PK::Nop, PK::Break, PK::Continue, PK::Return, PK::ReturnE, PK::Try, PK::Unwrap];
const VARPK: [PK; 22] = [
    PK::ReadLocal,
    PK::Assign,
    PK::AddAssign,
    PK::FieldAssign,
    PK::FieldAddAssign,
    PK::ArrAssign,
    PK::ArrAddAssign,
    PK::ArrAssignBindingIndex,
    PK::FieldOfElemAssignBindingIndex,
    PK::IdxAssign,
    PK::IdxAddAssign,
    PK::TaskRead,
    PK::LambdaRead,
    PK::MatchScrut,
    PK::Num('+'),
    PK::Num('-'),
    PK::Num('*'),
    PK::Num('/'),
    PK::Num('^'),
    PK::NumNeg,
    PK::NumAddAssign,
    PK::CallLocal,
];

#[derive(Clone, Copy, Debug, PartialEq, Eq)]
pub struct Payload {
    pub kind: PK,
    /// declaration level of the variable used (0 = top level); unused for PLAIN kinds
    pub lvl: usize,
}

impl Payload {
    fn name(&self) -> String {
        match self.kind {
            PK::Nop | PK::Break | PK::Continue | PK::Return | PK::ReturnE | PK::Try | PK::Unwrap => {
                format!("{:?}", self.kind)
            }
            PK::Num(c) => format!("Num{c}@{}", self.lvl),
            k => format!("{k:?}@{}", self.lvl),
        }
    }
    fn ret(&self) -> Ret {
        match self.kind {
            PK::ReturnE => Ret::Int,
            PK::Try => Ret::Opt,
            _ => Ret::Void,
        }
    }
    /// declaration placed at the start of the body of level `lvl`
    fn decl(&self) -> Option<String> {
        let j = self.lvl;
        Some(match self.kind {
            PK::ReadLocal | PK::TaskRead | PK::LambdaRead | PK::MatchScrut => format!("let v{j} = 10"),
            PK::Assign | PK::AddAssign => format!("var v{j} = 10"),
            PK::FieldAssign | PK::FieldAddAssign => format!("let s{j} = St(1)"),
            PK::ArrAssign | PK::ArrAddAssign | PK::ArrAssignBindingIndex => format!("let a{j} = [1, 2]"),
            PK::FieldOfElemAssignBindingIndex => format!("let a{j} = [St(1), St(2)]"),
            PK::IdxAssign | PK::IdxAddAssign => format!("let m{j} = Bx([1, 2])"),
            PK::Num(_) | PK::NumNeg => format!("let n{j} = Vv(2)"),
            PK::NumAddAssign => format!("var n{j} = Vv(2)"),
            PK::CallLocal => format!("let h{j} = () -> 1"),
            _ => return None,
        })
    }
    fn stmt(&self) -> String {
        let j = self.lvl;
        match self.kind {
            PK::Nop => "let r = 1".into(),
            PK::Break => "break".into(),
            PK::Continue => "continue".into(),
            PK::Return => "return".into(),
            PK::ReturnE => "return 7".into(),
            PK::Try => "let r = option.some(1)?".into(),
            PK::Unwrap => "let r = option.some(1)!".into(),
            PK::ReadLocal => format!("let r = v{j} + 1"),
            PK::ReadParam => format!("let r = p{j} + 1"),
            PK::ReadLoopVar => format!("let r = l{j} + 1"),
            PK::ReadBinding => format!("let r = b{j} + 1"),
            PK::Assign => format!("v{j} = 5"),
            PK::AddAssign => format!("v{j} += 5"),
            PK::FieldAssign => format!("s{j}.f = 5"),
            PK::FieldAddAssign => format!("s{j}.f += 5"),
            PK::ArrAssign => format!("a{j}[0] = 5"),
            PK::ArrAddAssign => format!("a{j}[0] += 5"),
            PK::ArrAssignBindingIndex => format!("a{j}[match option.some(1) {{\n.some(ix) -> ix\n.none -> 0\n}}] = 5"),
            PK::FieldOfElemAssignBindingIndex => format!("a{j}[match option.some(1) {{\n.some(ix) -> ix\n.none -> 0\n}}].f = 5"),
            PK::IdxAssign => format!("m{j}[0] = 5"),
            PK::IdxAddAssign => format!("m{j}[0] += 5"),
            PK::TaskRead => format!("task {{\nlet r = v{j} + 1\nnil\n}}"),
            PK::LambdaRead => format!("let g = () -> v{j} + 1\nlet r = g()"),
            PK::MatchScrut => format!("match v{j} {{\n10 -> nil\n_ -> nil\n}}"),
            PK::Num(c) => format!("let r = n{j} {c} n{j}"),
            PK::NumNeg => format!("let r = -n{j}"),
            PK::NumAddAssign => format!("n{j} += n{j}"),
            PK::CallLocal => format!("let r = h{j}()"),
        }
    }
    fn needs_st(&self) -> bool {
        matches!(self.kind, PK::FieldAssign | PK::FieldAddAssign)
    }
}

const DECL_ST: &str = "type St = {\nf: int\n}\n";
const DECL_BX: &str = "type Bx = {\narr: array<int>\n}\nimplement Index for Bx {\nfn index_get(self, index: int) -> int {\nself.arr[index]\n}\nfn index_set(self, index: int, val: int) -> void {\nself.arr[index] = val\n}\n}\n";
const DECL_VV: &str = "type Vv = {\nv: int\n}\nimplement Num for Vv {\nfn add(a, b) = Vv(a.v + b.v)\nfn subtract(a, b) = Vv(a.v - b.v)\nfn multiply(a, b) = Vv(a.v * b.v)\nfn divide(a, b) = Vv(a.v / b.v)\nfn power(a, b) = Vv(a.v ^ b.v)\n}\n";

/// all chains of length ≤ k in a fixed order (by length, then lexicographic)
pub fn chains(k: usize) -> Vec<Vec<Ctx>> {
    let mut all: Vec<Vec<Ctx>> = vec![vec![]];
    let mut cur: Vec<Vec<Ctx>> = vec![vec![]];
    for n in 1..=k {
        let mut next = vec![];
        for c in &cur {
            let opts: &[Ctx] = if n == 1 { &FIRST } else { &INNER };
            for o in opts {
                let mut d = c.clone();
                d.push(*o);
                next.push(d);
            }
        }
        all.extend(next.iter().cloned());
        cur = next;
    }
    all
}

pub fn payloads(chain: &[Ctx]) -> Vec<Payload> {
    let mut v: Vec<Payload> = PLAIN.iter().map(|k| Payload { kind: *k, lvl: 0 }).collect();
    for lvl in 0..=chain.len() {
        for k in VARPK {
            v.push(Payload { kind: k, lvl });
        }
        if lvl >= 1 {
            let c = chain[lvl - 1];
            if c.has_param() {
                v.push(Payload { kind: PK::ReadParam, lvl });
            }
            if c == For {
                v.push(Payload { kind: PK::ReadLoopVar, lvl });
            }
            if c == MatchArm {
                v.push(Payload { kind: PK::ReadBinding, lvl });
            }
        }
    }
    v
}

/// closed-form number of cases for chains of length ≤ k (independent of the enumerator)
pub fn closed_form(k: usize) -> u64 {
    let p = PLAIN.len() as u64;
    let v = VARPK.len() as u64;
    let mut total = p + v; // empty chain: level 0 only
    for n in 1..=k as u32 {
        let chains = 13 * 11u64.pow(n - 1);
        total += chains * (p + v * (n as u64 + 1));
        // binders: first position has 5 binding contexts of 9 (fn, member, lambda, for, arm)
        total += 5 * 11u64.pow(n - 1);
        // every later position has 3 binding contexts of 7 (lambda, for, arm)
        if n >= 2 {
            total += (n as u64 - 1) * 13 * 3 * 11u64.pow(n - 2);
        }
    }
    total
}

fn tail(r: Ret) -> &'static str {
    match r {
        Ret::Void => "nil",
        Ret::Int => "0",
        Ret::Opt => "option.some(0)",
    }
}
fn rty(r: Ret) -> &'static str {
    match r {
        Ret::Void => "void",
        Ret::Int => "int",
        Ret::Opt => "option<int>",
    }
}

/// statements of the body of level `lvl` (0 = top level)
fn body(chain: &[Ctx], lvl: usize, p: &Payload) -> String {
    let mut s = String::new();
    if p.lvl == lvl {
        if let Some(d) = p.decl() {
            s.push_str(&d);
            s.push('\n');
        }
    }
    if lvl == chain.len() {
        s.push_str(&p.stmt());
        return s;
    }
    let l = lvl + 1;
    let b = body(chain, l, p);
    let r = p.ret();
    let w = match chain[lvl] {
        Fn => format!("fn f{l}(p{l}: int) -> {} {{\n{b}\n{}\n}}\nf{l}(1)", rty(r), tail(r)),
        Member => format!(
            "extend St {{\nfn mm{l}(self, p{l}: int) -> {} {{\n{b}\n{}\n}}\n}}\nSt(0).mm{l}(1)",
            rty(r),
            tail(r)
        ),
        Lambda => format!("let g{l} = (p{l}: int) -> {{\n{b}\n{}\n}}\ng{l}(1)", tail(r)),
        Task => format!("task {{\n{b}\nnil\n}}"),
        While => format!("var w{l} = 0\nwhile w{l} < 2 {{\nw{l} += 1\n{b}\nnil\n}}"),
        For => format!("for l{l} in 2 {{\n{b}\nnil\n}}"),
        MatchArm => format!("match option.some({l}) {{\n.some(b{l}) -> {{\n{b}\nnil\n}}\n.none -> nil\n}}"),
        If => format!("if true {{\n{b}\nnil\n}}"),
        Operand => format!("let t{l} = 1 + {{\n{b}\n2\n}}"),
        WhileCond => format!("var w{l} = 0\nwhile {{\n{b}\nw{l} += 1\nw{l} < 2\n}} {{\nnil\n}}"),
        ForIter => format!("for l{l} in {{\n{b}\n[1]\n}} {{\nnil\n}}"),
        IfCond => format!("if {{\n{b}\ntrue\n}} {{\nnil\n}}"),
        Scrutinee => format!("match {{\n{b}\n1\n}} {{\n_ -> nil\n}}"),
    };
    s.push_str(&w);
    s
}

pub fn case_name(chain: &[Ctx], p: &Payload) -> String {
    let c: Vec<&str> = chain.iter().map(|c| c.name()).collect();
    format!("[{}] {}", if c.is_empty() { "top".to_string() } else { c.join(">") }, p.name())
}

pub fn program(chain: &[Ctx], p: &Payload) -> String {
    let mut s = String::new();
    if chain.first() == Some(&Member) || p.needs_st() {
        s.push_str(DECL_ST);
    }
    if matches!(p.kind, PK::IdxAssign | PK::IdxAddAssign) {
        s.push_str(DECL_BX);
    }
    if matches!(p.kind, PK::Num(_) | PK::NumNeg | PK::NumAddAssign) {
        s.push_str(DECL_VV);
    }
    s.push_str(&body(chain, 0, p));
    s.push('\n');
    if chain.contains(&Task) || p.kind == PK::TaskRead {
        // give spawned tasks time to run (round-robin, one instruction per turn)
        s.push_str("var zz = 0\nwhile zz < 150 {\nzz += 1\n}\n");
    }
    s
}

fn diag_title(d: &str) -> String {
    // first non-empty line of the diagnostics, without location noise
    let l = d.lines().map(|l| l.trim()).find(|l| !l.is_empty()).unwrap_or("");
    let l = l.trim_start_matches("error:").trim();
    let mut t: String = l.chars().take_while(|c| *c != '`' && *c != ':').collect();
    t.truncate(48);
    t.trim().to_string()
}

/// panic location with line number (distinguishes the panic sites inside one file)
fn at_key(pi: &drive::PanicInfo) -> String {
    format!("at:{}", pi.site.strip_prefix("/repo/").unwrap_or(&pi.site))
}

fn kmax(tier: Tier) -> usize {
    tier.pick(2, 3)
}
const CHAINS_PER_UNIT: usize = 3;

fn run_one(out: &mut UnitOut, chain: &[Ctx], p: &Payload) {
    let name = case_name(chain, p);
    let text = program(chain, p);
    let src = Src::single(&text);
    out.evaluations += 1;
    let key = format!("input:{}", hkey(&name));
    let mut viol = |out: &mut UnitOut, cls: &str, what: String, extra: Vec<String>, observed: String| {
        out.class(cls);
        for k in &extra {
            if k.starts_with("at:") {
                out.count(k, 1);
            }
        }
        let mut keys = vec![key.clone()];
        keys.extend(extra);
        // construct-level key for known findings: payload kind + failure class (+ whether the
        // payload sits in an operand block, which is what a jump out of an operand needs)
        keys.push(format!("c03:{:?}:{}{}", p.kind, cls, if chain.contains(&Operand) { ":in-operand" } else { "" }));
        out.violation(
            keys,
            format!("{name}: {what}"),
            json!({"case": name, "program": text, "program_bytes": text.len(),
                   "expected": "check gives diagnostics, or check Ok and compile_bytecode Ok and the run does not fault",
                   "observed": observed}),
        );
    };
    match drive::check(&src, 1) {
        Checked::Diag(d) => {
            if p.kind == PK::Nop {
                // guard against a vacuous run: `let r = 1` is valid in every context of the universe
                viol(
                    out,
                    "sanity-nop-rejected",
                    "the checker rejected a program whose payload is `let r = 1`".into(),
                    vec!["sanity".into()],
                    format!("check diagnostics: {d}"),
                );
                return;
            }
            out.class(&format!("rejected: {}", diag_title(&d)));
            return;
        }
        Checked::Panic(pi) => {
            viol(
                out,
                "checker-panic",
                format!("the checker panicked at {}: {}", pi.site, pi.msg),
                vec![pi.site_key(), at_key(&pi)],
                format!("check panicked at {}: {}", pi.site, pi.msg),
            );
            return;
        }
        Checked::Ok => {}
    }
    out.nontrivial_text(&text);
    out.sample(json!({"case": name, "program": text}));
    let prog = match drive::compile(&src, COpts::default()) {
        Compiled::Ok(p) => p,
        Compiled::Diag(d) => {
            viol(
                out,
                "accepted-then-compile-diagnostics",
                "check returned Ok but compile_bytecode returned diagnostics".into(),
                vec![],
                format!("compile diagnostics: {d}"),
            );
            return;
        }
        Compiled::Panic(pi) => {
            viol(
                out,
                "accepted-then-compiler-panic",
                format!("check returned Ok but compile_bytecode panicked at {}: {}", pi.site, pi.msg),
                vec![pi.site_key(), at_key(&pi)],
                format!("check Ok; compile_bytecode panicked at {}: {}", pi.site, pi.msg),
            );
            return;
        }
    };
    let r = drive::run(&prog, &src.host_table(), StdHost::default(), ROpts { budget: 1, max_steps: 30_000 });
    match &r.end {
        End::Fault(pi) => viol(
            out,
            "accepted-compiled-run-fault",
            format!("compiled program faulted at run time (Rust panic at {}: {})", pi.site, pi.msg),
            vec![pi.site_key(), at_key(&pi)],
            format!("check Ok; compile Ok; VM panic at {}: {}", pi.site, pi.msg),
        ),
        End::InternalError { text: t } => viol(
            out,
            "accepted-compiled-run-internal-error",
            format!("compiled program stopped with an internal VM error: {}", t.lines().next().unwrap_or("")),
            vec![format!("vmerr:{}", t.lines().next().unwrap_or("").chars().take(50).collect::<String>())],
            format!("check Ok; compile Ok; internal error: {t}"),
        ),
        e => {
            if *e == End::StepCap {
                out.notes.push(format!("step cap reached by: {name}"));
            }
            out.class(&format!("accepted, compiled, ran: {}", e.class()))
        }
    }
}

impl Prop for C03 {
    fn id(&self) -> &'static str {
        "C03"
    }
    fn level(&self) -> &'static str {
        "exploration"
    }
    fn n_units(&self, tier: Tier) -> usize {
        chains(kmax(tier)).len().div_ceil(CHAINS_PER_UNIT)
    }
    fn run_unit(&self, tier: Tier, unit: usize, out: &mut UnitOut) {
        let all = chains(kmax(tier));
        let lo = unit * CHAINS_PER_UNIT;
        let hi = (lo + CHAINS_PER_UNIT).min(all.len());
        let mut idx = 0u64;
        for chain in &all[lo..hi] {
            for p in payloads(chain) {
                if out.begin_case(idx) {
                    out.describe_case(&format!("{}\n{}", case_name(chain, &p), program(chain, &p)));
                    run_one(out, chain, &p);
                }
                idx += 1;
            }
        }
    }
    fn expected_evaluations(&self, tier: Tier) -> Option<u64> {
        Some(closed_form(kmax(tier)))
    }
    fn rule(&self, tier: Tier) -> String {
        format!(
            "every chain of ≤ {} nested contexts (outermost from {:?}, inner from {:?}; `fn`/`extend` are not grammatical below top level; the empty chain is the top level) \
             × every payload: {:?} once, and {:?} once per declaration level 0..=len(chain) of the variable they touch, plus reads of the parameter / loop variable / arm binding \
             of every context of the chain that has one. Enclosing function-like contexts get the return type the payload needs (void / int / option<int>). \
             Each program standalone: check; if diagnostics → class rejected (passes); if Ok → compile_bytecode must return Ok and the program, run with budget 1 \
             (step cap 30000), must not fault. A case is non-trivial when the checker accepted it (the antecedent of the property holds); distinctness by program text.",
            kmax(tier),
            FIRST.iter().map(|c| c.name()).collect::<Vec<_>>(),
            INNER.iter().map(|c| c.name()).collect::<Vec<_>>(),
            PLAIN,
            VARPK.iter().map(|k| match k { PK::Num(c) => format!("Num{c}"), k => format!("{k:?}") }).collect::<Vec<_>>(),
        )
    }
    fn assumptions(&self) -> Vec<String> {
        vec![
            "only the class of the checker's answer (Ok / diagnostics) is used; which programs the checker should reject is not asserted here, except that the no-op payload `let r = 1` must be accepted in every context (guard against a vacuous run)".into(),
            "run-time check is 'no fault' only (End::Fault / InternalError); the computed values are the business of C01/C02".into(),
        ]
    }
}
