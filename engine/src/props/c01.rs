//! C01 — accepted programs never hit an internal VM fault.
//!
//! Universe: all of U-prog (ugen.rs) including the strata that exist for this property (S-jump,
//! S-empty, S-task, S-voidvariant); every program is run under EVERY uniform step budget of
//! {1, 2, 3, 7, 64, u32::MAX}. Oracle: the compiler accepts the program (it is well-typed by
//! construction) and the run ends `Done` or with one of the four documented runtime-error kinds.
//! A compiler panic, a Rust panic escaping the runtime, an internal VM error or a wrong-type report
//! is a violation.
//!
//! Operand-stack leak monitor (needs no formula): each batch is compiled with a dispatcher that
//! runs the selected case `reps` times in a loop at the top level of the program, in two forms:
//! the case body as a function `tK()` called from the loop, and the case body as a block of the
//! main program itself (so that a slot leaked by any statement of the body stays in the main
//! thread's frame). Each form is run with reps = 1 and reps = 3 and the depth of the main
//! thread's operand stack at `Done` (hook `verif_stack_depth`) must be the same. Whole-program
//! cases whose first host input is a loop count (S-jump at top level) are run with the count and
//! three times the count instead.

use super::c02::{Res, Seen, end_text, keys_for, res_text};
use crate::batch::Case;
use crate::drive::{self, COpts, Compiled, End, Input, PanicInfo, Src, StdHost, catch};
use crate::fw::{Prop, Tier, UnitOut};
use crate::ugen::{self, Prog, Scope};
use abra_core::verif::CompiledProgram;
use abra_core::vm::{Runtime, RuntimeStatusKind};
use serde_json::json;
use std::rc::Rc;

pub struct C01;

pub const BUDGETS: [u32; 6] = [1, 2, 3, 7, 64, u32::MAX];
const UNIT_SIZE: u64 = 300;
const BATCH: usize = 150;
const MAX_STEPS: u64 = 3_000_000;

/// `drive::run` plus the depth of the main thread's operand stack when the program is `Done`.
pub fn run_with_depth(prog: &CompiledProgram, table: &[String], host: StdHost, budget: u32) -> (Seen, Option<usize>) {
    let mut host = host;
    let mut rt = Runtime::new(prog.clone());
    let mut steps: u64 = 0;
    let r = catch(|| {
        loop {
            let b = if budget == u32::MAX { (MAX_STEPS.saturating_sub(steps)).min(u32::MAX as u64).max(1) as u32 } else { budget };
            let st = rt.run_n_steps(b);
            steps += st.steps_consumed as u64;
            match st.kind {
                RuntimeStatusKind::Done => return End::Done,
                RuntimeStatusKind::MainThreadError(e) => return drive::classify_error(&format!("{e}")),
                RuntimeStatusKind::PendingHostFunc => drive::service_all(&mut rt, table, &mut host),
                RuntimeStatusKind::OutOfSteps => {}
            }
            if steps >= MAX_STEPS {
                return End::StepCap;
            }
        }
    });
    match r {
        Ok(end) => {
            let depth = if end == End::Done { catch(|| rt.main().verif_stack_depth()).ok() } else { None };
            let end = match catch(move || drop(rt)) {
                Ok(()) => end,
                Err(p) => End::Fault(p),
            };
            (Seen { emits: host.emits, out: host.out, end }, depth)
        }
        Err(p) => {
            std::mem::forget(rt);
            (Seen { emits: host.emits, out: host.out, end: End::Fault(p) }, None)
        }
    }
}

/// Batch program whose dispatcher runs the selected case `reps` times at the top level.
/// `inline` = the case bodies are blocks of the main program itself (so that a slot leaked by any
/// statement of the body stays in the main thread's frame and is seen by the monitor); a body
/// that contains `return` stays a function in both forms.
fn rep_program_text(cases: &[Case], progs: &[&Prog], inline: bool) -> String {
    let mut s = String::from("use vh\n");
    let mut seen: Vec<&str> = vec![];
    for c in cases {
        for d in &c.decls {
            if !seen.contains(&d.as_str()) {
                seen.push(d);
                s.push_str(d);
                s.push('\n');
            }
        }
    }
    let as_fn: Vec<bool> = progs.iter().map(|p| !inline || p.has_return()).collect();
    for (i, c) in cases.iter().enumerate() {
        if as_fn[i] {
            s.push_str(&format!("fn t{i}() -> void {{\n{}\nnil\n}}\n", c.body));
        }
    }
    s.push_str("let sel = vh_next_int()\nlet reps = vh_next_int()\nvar rep = 0\nwhile rep < reps {\nmatch sel {\n");
    for (i, c) in cases.iter().enumerate() {
        if as_fn[i] {
            s.push_str(&format!("{i} -> t{i}()\n"));
        } else {
            s.push_str(&format!("{i} -> {{\n{}\nnil\n}}\n", c.body));
        }
    }
    s.push_str("_ -> nil\n}\nrep = rep + 1\n}\n");
    s
}

enum Slot {
    Ok(Rc<(CompiledProgram, Vec<String>)>, usize),
    Diag(String),
    Panic(PanicInfo),
}

fn compile_slots(cases: &[Case], progs: &[&Prog], inline: bool, slots: &mut Vec<Slot>) {
    if cases.is_empty() {
        return;
    }
    let src = Src::with_vh(&rep_program_text(cases, progs, inline));
    match drive::compile(&src, COpts::default()) {
        Compiled::Ok(p) => {
            let rc = Rc::new((p, src.host_table()));
            for i in 0..cases.len() {
                slots.push(Slot::Ok(rc.clone(), i));
            }
        }
        Compiled::Diag(d) if cases.len() == 1 => slots.push(Slot::Diag(d)),
        Compiled::Panic(p) if cases.len() == 1 => slots.push(Slot::Panic(p)),
        _ => {
            let mid = cases.len() / 2;
            compile_slots(&cases[..mid], &progs[..mid], inline, slots);
            compile_slots(&cases[mid..], &progs[mid..], inline, slots);
        }
    }
}

fn host_for(sel: Option<usize>, reps: usize, inputs: &[i64]) -> StdHost {
    let mut h = StdHost::default();
    if let Some(s) = sel {
        h.inputs.push_back(Input::Int(s as i64));
        h.inputs.push_back(Input::Int(reps as i64));
    }
    for _ in 0..reps.max(1) {
        for v in inputs {
            h.inputs.push_back(Input::Int(*v));
        }
    }
    h
}

fn budget_name(b: u32) -> String {
    if b == u32::MAX { "max".into() } else { b.to_string() }
}

fn fail(out: &mut UnitOut, p: &Prog, r: &Res, what: String, budget: Option<u32>) {
    out.class(&format!("{}:violation", p.family));
    out.violation(
        keys_for(p, Some(r)),
        format!("{}{}: {what}", p.name(), budget.map(|b| format!(" [budget {}]", budget_name(b))).unwrap_or_default()),
        json!({"case": p.name(), "program": p.standalone(), "inputs": p.inputs, "budget": budget.map(budget_name), "observed": res_text(r),
               "expected": "Done or one of the documented runtime errors (panic, array index out of bounds, integer overflow/underflow, division by zero)"}),
    );
}

/// judge one run; returns true when the run is acceptable
fn judge_run(out: &mut UnitOut, p: &Prog, s: &Seen, budget: u32) -> bool {
    match &s.end {
        End::Done | End::Error { .. } => {
            out.class(&format!("{}:{}", p.family, s.end.class()));
            true
        }
        End::StepCap => {
            fail(out, p, &Res::Ran(s.clone()), format!("no result within {MAX_STEPS} steps"), Some(budget));
            false
        }
        End::Fault(_) | End::InternalError { .. } => {
            fail(out, p, &Res::Ran(s.clone()), format!("internal fault: {}", end_text(&s.end)), Some(budget));
            false
        }
    }
}

fn judge_leak(out: &mut UnitOut, p: &Prog, once: (&Seen, Option<usize>), thrice: (&Seen, Option<usize>), what: &str) {
    out.count("leak_monitor_pairs", 1);
    match (once.1, thrice.1) {
        (Some(a), Some(b)) if once.0.end == End::Done && thrice.0.end == End::Done => {
            if a != b {
                let mut keys = keys_for(p, None);
                keys.push("operand-stack-leak".into());
                out.class(&format!("{}:stack-leak", p.family));
                out.violation(
                    keys,
                    format!("{}: operand stack leak: final depth of the main thread's stack is {a} after {what} once and {b} after {what} three times", p.name()),
                    json!({"case": p.name(), "program": p.standalone(), "inputs": p.inputs, "depth_once": a, "depth_thrice": b,
                           "expected": "the final operand-stack depth does not depend on how often the case ran"}),
                );
            } else {
                out.count("leak_monitor_equal_depth", 1);
            }
        }
        _ => out.count("leak_monitor_not_applicable (run did not end Done)", 1),
    }
}

impl Prop for C01 {
    fn id(&self) -> &'static str {
        "C01"
    }
    fn level(&self) -> &'static str {
        "exploration"
    }
    fn n_units(&self, tier: Tier) -> usize {
        ugen::universe(tier, Scope::All).units(UNIT_SIZE).len()
    }
    fn run_unit(&self, tier: Tier, unit: usize, out: &mut UnitOut) {
        let u = ugen::universe(tier, Scope::All);
        let (pi, a, b) = u.units(UNIT_SIZE)[unit];
        let base = a - u.starts[pi];
        let progs: Vec<Prog> = (a..b).map(|i| u.get(i)).collect();
        if u.parts[pi].top_level_only() {
            for (k, p) in progs.iter().enumerate() {
                if !out.begin_case(base + k as u64) {
                    continue;
                }
                out.describe_case(&format!("{}\n{}", p.name(), p.standalone()));
                out.nontrivial_text(&p.key_text());
                let src = Src::with_vh(&p.standalone());
                match drive::compile(&src, COpts::default()) {
                    Compiled::Ok(prog) => {
                        let table = src.host_table();
                        let mut last = None;
                        for bud in BUDGETS {
                            out.evaluations += 1;
                            let (s, d) = run_with_depth(&prog, &table, host_for(None, 1, &p.inputs), bud);
                            judge_run(out, p, &s, bud);
                            last = Some((s, d));
                        }
                        if let (Some((s1, d1)), Some(n)) = (last, p.inputs.first()) {
                            // the first input is the loop count
                            let mut inputs3 = p.inputs.clone();
                            inputs3[0] = n * 3;
                            let (s3, d3) = run_with_depth(&prog, &table, host_for(None, 1, &inputs3), u32::MAX);
                            judge_leak(out, p, (&s1, d1), (&s3, d3), "running the loop");
                        }
                    }
                    Compiled::Diag(d) => {
                        out.evaluations += BUDGETS.len() as u64;
                        fail(out, p, &Res::Diag(d), "well-typed by construction but rejected".into(), None);
                    }
                    Compiled::Panic(pi) => {
                        out.evaluations += BUDGETS.len() as u64;
                        let r = Res::CompilerPanic(pi);
                        let w = res_text(&r);
                        fail(out, p, &r, w, None);
                    }
                }
            }
            return;
        }
        let cases: Vec<Case> = progs.iter().map(|p| p.case()).collect();
        let single = out.isolate || out.only_case.is_some();
        let bs = if single { 1 } else { BATCH };
        let mut i = 0;
        while i < cases.len() {
            let j = (i + bs).min(cases.len());
            let sel: Vec<usize> = (i..j).filter(|k| out.begin_case(base + *k as u64)).collect();
            i = j;
            if sel.is_empty() {
                continue;
            }
            if single {
                out.describe_case(&format!("{}\n{}", progs[sel[0]].name(), progs[sel[0]].standalone()));
            }
            let chunk: Vec<Case> = sel.iter().map(|k| cases[*k].clone()).collect();
            let chunk_progs: Vec<&Prog> = sel.iter().map(|k| &progs[*k]).collect();
            let mut slots = vec![];
            compile_slots(&chunk, &chunk_progs, false, &mut slots);
            let mut inline_slots = vec![];
            compile_slots(&chunk, &chunk_progs, true, &mut inline_slots);
            for (n, k) in sel.iter().enumerate() {
                out.begin_case_quiet(base + *k as u64);
                let p = &progs[*k];
                out.nontrivial_text(&p.key_text());
                match &slots[n] {
                    Slot::Ok(rc, local) => {
                        let (prog, table) = (&rc.0, &rc.1);
                        let mut last = None;
                        for bud in BUDGETS {
                            out.evaluations += 1;
                            let (s, d) = run_with_depth(prog, table, host_for(Some(*local), 1, &p.inputs), bud);
                            judge_run(out, p, &s, bud);
                            last = Some((s, d));
                        }
                        let (s1, d1) = last.unwrap();
                        let (s3, d3) = run_with_depth(prog, table, host_for(Some(*local), 3, &p.inputs), u32::MAX);
                        if s3.end.is_fault() && !s1.end.is_fault() {
                            fail(out, p, &Res::Ran(s3.clone()), format!("internal fault when the case runs three times in one program: {}", end_text(&s3.end)), Some(u32::MAX));
                        }
                        judge_leak(out, p, (&s1, d1), (&s3, d3), "calling the case");
                        // the same body as a block of the main program
                        match &inline_slots[n] {
                            Slot::Ok(rc, local) => {
                                let (i1, e1) = run_with_depth(&rc.0, &rc.1, host_for(Some(*local), 1, &p.inputs), u32::MAX);
                                let (i3, e3) = run_with_depth(&rc.0, &rc.1, host_for(Some(*local), 3, &p.inputs), u32::MAX);
                                for (i, reps) in [(&i1, 1), (&i3, 3)] {
                                    if i.end.is_fault() || i.end == End::StepCap {
                                        fail(out, p, &Res::Ran(i.clone()), format!("body as a block of the main program, run {reps}x: {}", end_text(&i.end)), Some(u32::MAX));
                                    } else if i.end.class() != s1.end.class() || (reps == 1 && (i.emits != s1.emits || i.out != s1.out)) {
                                        out.count("body behaves differently as a main-program block than as a function body (not asserted here; C02 compares both with the model)", 1);
                                    }
                                }
                                judge_leak(out, p, (&i1, e1), (&i3, e3), "running the body as a block of the main program");
                            }
                            Slot::Diag(d) => fail(out, p, &Res::Diag(d.clone()), "rejected when the body is a block of the main program".into(), None),
                            Slot::Panic(pi) => {
                                let r = Res::CompilerPanic(pi.clone());
                                let w = format!("body as a block of the main program: {}", res_text(&r));
                                fail(out, p, &r, w, None);
                            }
                        }
                        if *k % 401 == 0 {
                            out.sample(json!({"case": p.name(), "body": cases[*k].body, "end": s1.end.class(), "final_stack_depth": d1}));
                        }
                    }
                    Slot::Diag(d) => {
                        out.evaluations += BUDGETS.len() as u64;
                        fail(out, p, &Res::Diag(d.clone()), "well-typed by construction but rejected".into(), None);
                    }
                    Slot::Panic(pi) => {
                        out.evaluations += BUDGETS.len() as u64;
                        let r = Res::CompilerPanic(pi.clone());
                        let w = res_text(&r);
                        fail(out, p, &r, w, None);
                    }
                }
            }
        }
    }
    fn rule(&self, tier: Tier) -> String {
        let u = ugen::universe(tier, Scope::All);
        let parts: Vec<String> = u.parts.iter().map(|p| format!("{}={}", p.name(), p.len())).collect();
        format!(
            "every program of U-prog ({}) x every uniform step budget of {:?} (u32::MAX written max); one evaluation = one (program, budget) run; \
             every program is distinct by construction and counts as non-trivial (it executes at least one statement that touches the operand stack); \
             additionally one leak-monitor pair per program (case called once vs three times, final main-thread stack depth compared)",
            parts.join(", "),
            BUDGETS.iter().map(|b| budget_name(*b)).collect::<Vec<_>>()
        )
    }
    fn assumptions(&self) -> Vec<String> {
        vec![
            "the leak monitor sees only slots leaked in the frame of the main program: a slot leaked inside a called function is discarded when that function returns (its effect on values is C02's business); S-jump therefore also has whole-program cases whose loop runs at the top level".into(),
            "S-task outcomes are not compared with a model here (C08 owns task copies); only the absence of faults is required".into(),
            format!("a run that does not finish within {MAX_STEPS} steps is reported (no program of the universe needs more than a few thousand)"),
        ]
    }
    fn expected_evaluations(&self, tier: Tier) -> Option<u64> {
        Some(ugen::formula_total(tier, Scope::All) * BUDGETS.len() as u64)
    }
    fn min_classes(&self) -> usize {
        6
    }
}
