//! C22 — generic and interface calls dispatch to the concrete type's code.
//!
//! Family G (generic functions, differential oracle): every generic function of a fixed list ×
//! every ordered pair (A, B) of the instantiation types that satisfy its constraint. The case
//! calls the generic at A, at B and at A again, then calls hand-monomorphised copies (the same
//! text with the type variable replaced by the type) with the same arguments; the two halves of
//! the emitted trace must be identical. Every method of the user implementations emits a tag
//! that names the implementing type, and results are rendered structurally (without going through
//! any interface), so the trace shows which implementation ran. In addition every tag must belong
//! to a type occurring in A or B.
//!
//! Family D (operators, `for`, indexing, method syntax on user types, absolute oracle): the
//! expected tag sequence and value are computed by a Rust model of the user implementations.

use crate::batch::{Case, CaseResult, Expect, judge, run_cases};
use crate::drive::{COpts, Emit, End, ROpts};
use crate::fw::{Prop, Tier, UnitOut, hkey};
use serde_json::json;

pub struct C22;

// ------------------------------------------------------------------ types

#[derive(Clone, Debug, PartialEq, Eq)]
pub enum T {
    Int,
    Float,
    Bool,
    Str,
    Pt,
    Co,
    Bag,
    Rg,
    Tup(Vec<T>),
    Arr(Box<T>),
    Opt(Box<T>),
    /// user generic struct `Wrap<T>` with tagged generic implementations of ToString and Equal
    Wrap(Box<T>),
}
#[derive(Clone, Copy, Debug, PartialEq, Eq)]
pub enum Cap {
    Any,
    ToString,
    Equal,
    Ord,
    Clone,
    Num,
    Index,
    Shape,
}

impl T {
    fn name(&self) -> String {
        match self {
            T::Int => "int".into(),
            T::Float => "float".into(),
            T::Bool => "bool".into(),
            T::Str => "string".into(),
            T::Pt => "Pt".into(),
            T::Co => "Co".into(),
            T::Bag => "Bag".into(),
            T::Rg => "Rg".into(),
            T::Tup(v) => format!("tup_{}", v.iter().map(|t| t.name()).collect::<Vec<_>>().join("_")),
            T::Arr(e) => format!("arr_{}", e.name()),
            T::Opt(e) => format!("opt_{}", e.name()),
            T::Wrap(e) => format!("wrap_{}", e.name()),
        }
    }
    fn expr(&self) -> String {
        match self {
            T::Tup(v) => format!("({})", v.iter().map(|t| t.expr()).collect::<Vec<_>>().join(", ")),
            T::Arr(e) => format!("array<{}>", e.expr()),
            T::Opt(e) => format!("option<{}>", e.expr()),
            T::Wrap(e) => format!("Wrap<{}>", e.expr()),
            t => t.name(),
        }
    }
    /// two distinct values (fresh expressions), the first smaller than the second where ordered
    fn val(&self, i: usize) -> String {
        match self {
            T::Int => ["3", "5"][i].into(),
            T::Float => ["1.5", "2.5"][i].into(),
            T::Bool => ["false", "true"][i].into(),
            T::Str => ["\"ab\"", "\"cd\""][i].into(),
            T::Pt => ["Pt(1)", "Pt(2)"][i].into(),
            T::Co => ["Co.Red", "Co.Green(7)"][i].into(),
            T::Bag => ["Bag([4, 5])", "Bag([6, 7, 8])"][i].into(),
            T::Rg => ["Rg([1, 2, 3])", "Rg([9, 8])"][i].into(),
            T::Tup(v) => format!("({})", v.iter().map(|t| t.val(i)).collect::<Vec<_>>().join(", ")),
            T::Arr(e) => {
                if i == 0 {
                    format!("[{}, {}]", e.val(0), e.val(1))
                } else {
                    format!("[{}, {}, {}]", e.val(1), e.val(0), e.val(1))
                }
            }
            T::Wrap(e) => format!("Wrap({})", e.val(i)),
            T::Opt(e) => {
                if i == 0 {
                    // annotated so the element type is known even when nothing else fixes it
                    format!("option.some({})", e.val(0))
                } else {
                    format!("option.some({})", e.val(1))
                }
            }
        }
    }
    /// the prelude's implementations, structurally
    fn has(&self, c: Cap) -> bool {
        match c {
            Cap::Any => true,
            Cap::ToString => match self {
                T::Bag | T::Rg => false,
                T::Tup(v) => v.iter().all(|t| t.has(c)),
                T::Arr(e) | T::Opt(e) | T::Wrap(e) => e.has(c),
                _ => true,
            },
            Cap::Equal => match self {
                T::Bag | T::Rg | T::Opt(_) => false,
                T::Tup(v) => v.iter().all(|t| t.has(c)),
                T::Arr(e) | T::Wrap(e) => e.has(c),
                _ => true,
            },
            Cap::Ord => match self {
                T::Bag | T::Rg | T::Opt(_) | T::Arr(_) | T::Wrap(_) => false,
                T::Tup(v) => v.iter().all(|t| t.has(c)),
                _ => true,
            },
            Cap::Clone => match self {
                T::Bag | T::Rg | T::Opt(_) | T::Tup(_) | T::Wrap(_) => false,
                T::Arr(e) => e.has(c),
                _ => true,
            },
            Cap::Num => matches!(self, T::Int | T::Float | T::Pt | T::Co),
            Cap::Index => matches!(self, T::Bag | T::Rg) || *self == T::Arr(Box::new(T::Int)),
            Cap::Shape => matches!(self, T::Int | T::Pt | T::Co),
        }
    }
    /// tag families (hundreds digit) a computation at this type may emit
    fn families(&self, out: &mut Vec<i64>) {
        match self {
            T::Pt => out.push(1),
            T::Co => out.push(2),
            T::Bag => out.push(3),
            T::Rg => out.push(4),
            T::Int => out.push(9),
            T::Tup(v) => v.iter().for_each(|t| t.families(out)),
            T::Arr(e) | T::Opt(e) => e.families(out),
            T::Wrap(e) => {
                out.push(5);
                e.families(out)
            }
            _ => {}
        }
    }
    /// declarations of the structural render function of this type (and of its components)
    fn render_decls(&self, out: &mut Vec<String>) {
        let n = self.name();
        let body = match self {
            T::Int => "vh_emit_int(x)".to_string(),
            T::Float => "vh_emit_float(x)".to_string(),
            T::Bool => "vh_emit_bool(x)".to_string(),
            T::Str => "vh_emit_str(x)".to_string(),
            T::Pt => "vh_emit_str(\"Pt\")\nvh_emit_int(x.x)".to_string(),
            T::Co => "match x {\n.Red -> vh_emit_str(\"Red\")\n.Green(n) -> {\nvh_emit_str(\"Green\")\nvh_emit_int(n)\n}\n}".to_string(),
            T::Bag => "vh_emit_str(\"Bag\")\nvh_emit_arr(x.items)".to_string(),
            T::Rg => "vh_emit_str(\"Rg\")\nvh_emit_arr(x.items)".to_string(),
            T::Tup(v) => {
                for t in v {
                    t.render_decls(out);
                }
                let vars: Vec<String> = (0..v.len()).map(|i| format!("c{i}")).collect();
                let mut b = format!("let ({}) = x\nvh_emit_str(\"(\")\n", vars.join(", "));
                for (i, t) in v.iter().enumerate() {
                    b.push_str(&format!("rn_{}(c{i})\n", t.name()));
                }
                b.push_str("vh_emit_str(\")\")");
                b
            }
            T::Arr(e) => {
                e.render_decls(out);
                format!("vh_emit_str(\"[\")\nvar i = 0\nwhile i < x.len() {{\nrn_{}(x[i])\ni += 1\n}}\nvh_emit_str(\"]\")", e.name())
            }
            T::Wrap(e) => {
                e.render_decls(out);
                format!("vh_emit_str(\"Wrap\")\nrn_{}(x.v)", e.name())
            }
            T::Opt(e) => {
                e.render_decls(out);
                format!("match x {{\n.some(v) -> {{\nvh_emit_str(\"some\")\nrn_{}(v)\n}}\n.none -> vh_emit_str(\"none\")\n}}", e.name())
            }
        };
        let d = format!("fn rn_{n}(x: {}) -> void {{\n{body}\n}}", self.expr());
        if !out.contains(&d) {
            out.push(d);
        }
    }
}

fn tup(v: Vec<T>) -> T {
    T::Tup(v)
}
fn arr(t: T) -> T {
    T::Arr(Box::new(t))
}
fn wrap(t: T) -> T {
    T::Wrap(Box::new(t))
}
fn opt(t: T) -> T {
    T::Opt(Box::new(t))
}

pub fn types(tier: Tier) -> Vec<T> {
    let mut v = vec![T::Int, T::Str, T::Pt, T::Co, tup(vec![T::Int, T::Str]), arr(T::Int), arr(T::Pt), tup(vec![T::Pt, T::Co]), wrap(T::Pt), T::Bag, T::Rg];
    if tier == Tier::Thorough {
        v.extend([T::Float, T::Bool, opt(T::Int), opt(T::Co), arr(T::Co), tup(vec![T::Co, T::Int]), arr(arr(T::Pt)), tup(vec![T::Pt, T::Pt, T::Co]), wrap(T::Int), wrap(wrap(T::Co)), arr(wrap(T::Pt))]);
    }
    v
}

// ------------------------------------------------------------------ user declarations

fn tagged_impls(ty: &str, base: i64, key: &str, mk: &str) -> String {
    // key: expression giving the int key of `a`/`b`/`s`/`x` via {V}; mk: constructor from an int via {E}
    let k = |v: &str| key.replace("{V}", v);
    let m = |e: &str| mk.replace("{E}", e);
    let mut s = String::new();
    s.push_str(&format!("implement Equal for {ty} {{\nfn equal(a, b) {{\nvh_emit_int({})\n{} == {}\n}}\n}}\n", base + 1, k("a"), k("b")));
    s.push_str(&format!("implement Ord for {ty} {{\n"));
    for (i, (meth, op)) in [("less_than", "<"), ("less_than_or_equal", "<="), ("greater_than", ">"), ("greater_than_or_equal", ">=")].iter().enumerate() {
        s.push_str(&format!("fn {meth}(a, b) {{\nvh_emit_int({})\n{} {op} {}\n}}\n", base + 2 + i as i64, k("a"), k("b")));
    }
    s.push_str("}\n");
    s.push_str(&format!("implement Clone for {ty} {{\nfn clone(x) {{\nvh_emit_int({})\n{}\n}}\n}}\n", base + 7, m(&k("x"))));
    s.push_str(&format!("implement Num for {ty} {{\n"));
    for (i, (meth, op)) in [("add", "+"), ("subtract", "-"), ("multiply", "*"), ("divide", "/"), ("power", "^")].iter().enumerate() {
        s.push_str(&format!("fn {meth}(a, b) {{\nvh_emit_int({})\n{}\n}}\n", base + 8 + i as i64, m(&format!("{} {op} {}", k("a"), k("b")))));
    }
    s.push_str("}\n");
    s.push_str(&format!("implement Shape for {ty} {{\nfn area(self) -> int {{\nvh_emit_int({})\n{} * 10\n}}\n}}\n", base + 13, k("self")));
    s
}

fn container(ty: &str, base: i64, reverse: bool) -> String {
    let pick = if reverse { "self.items[self.items.len() - 1 - self.i]" } else { "self.items[self.i]" };
    format!(
        "type {ty} = {{\nitems: array<int>\n}}\ntype {ty}Iter = {{\nitems: array<int>\ni: int\n}}\n\
implement Iterable for {ty} {{\nfn make_iterator(self) -> {ty}Iter {{\nvh_emit_int({})\n{ty}Iter(self.items, 0)\n}}\n}}\n\
implement Iterator for {ty}Iter {{\nfn next(self) -> option<int> {{\nvh_emit_int({})\nif self.i >= self.items.len() {{\n.none\n}} else {{\nlet r = {pick}\nself.i = self.i + 1\n.some(r)\n}}\n}}\n}}\n\
implement Index for {ty} {{\nfn index_get(self, index: int) -> int {{\nvh_emit_int({})\nself.items[index]\n}}\nfn index_set(self, index: int, val: int) -> void {{\nvh_emit_int({})\nself.items[index] = val\n}}\n}}\n",
        base + 1,
        base + 2,
        base + 3,
        base + 4
    )
}

pub fn user_decls() -> String {
    let mut s = String::new();
    s.push_str("interface Shape {\nfn area(self) -> int\n}\n");
    s.push_str("implement Shape for int {\nfn area(self) -> int {\nvh_emit_int(913)\nself * 10\n}\n}\n");
    s.push_str("type Pt = {\nx: int\n}\n");
    s.push_str("implement ToString for Pt {\nfn str(s) {\nvh_emit_int(106)\n\"Pt(\" .. s.x .. \")\"\n}\n}\n");
    s.push_str(&tagged_impls("Pt", 100, "{V}.x", "Pt({E})"));
    s.push_str("type Co = Red | Green(int)\n");
    s.push_str("fn rk(c: Co) -> int {\nmatch c {\n.Red -> 1\n.Green(n) -> 2 + n\n}\n}\n");
    s.push_str("implement ToString for Co {\nfn str(s) {\nvh_emit_int(206)\nmatch s {\n.Red -> \"Red\"\n.Green(n) -> \"Green(\" .. n .. \")\"\n}\n}\n}\n");
    s.push_str(&tagged_impls("Co", 200, "rk({V})", "Co.Green({E})"));
    s.push_str("type Wrap<T> = {\nv: T\n}\n");
    s.push_str("implement ToString for Wrap<T ToString> {\nfn str(s) {\nvh_emit_int(506)\n\"W(\" .. s.v .. \")\"\n}\n}\n");
    s.push_str("implement Equal for Wrap<T Equal> {\nfn equal(a, b) {\nvh_emit_int(501)\na.v == b.v\n}\n}\n");
    s.push_str("fn applyf(f: A -> B, x: A) -> B = f(x)\nfn applyf2(f: (A, A) -> B, x: A, y: A) -> B = f(x, y)\n");
    s.push_str(&container("Bag", 300, false));
    s.push_str(&container("Rg", 400, true));
    s
}

// ------------------------------------------------------------------ generic functions

#[derive(Clone, Copy, Debug, PartialEq, Eq)]
pub enum Ret {
    T,
    Bool,
    Str,
    Int,
    /// (U, T)
    Swapped,
}
#[derive(Clone, Copy, Debug, PartialEq, Eq)]
pub enum Args {
    /// f(v)
    One,
    /// f(v, w)
    Two,
    /// f(v, w, v)
    Three,
    /// f([v, w, v])
    ArrOnly,
    /// f([v, w, v], v)
    ArrAnd,
    /// f(container, 1)
    Idx,
    /// f(container, 0, 77)
    IdxSet,
    /// two type parameters: f(a: T, b: U)
    Pair,
}
pub struct Gen {
    pub name: &'static str,
    pub cap: Cap,
    /// constraint text after the type variable in the generic version
    pub constraint: &'static str,
    /// `{S}` suffix, `{TC}` first (constrained) occurrence, `{T}` / `{U}` / `{UC}` other occurrences
    pub template: &'static str,
    pub args: Args,
    pub ret: Ret,
    /// another generic this one calls (its declaration is needed too)
    pub needs: Option<&'static str>,
}

pub const GENS: &[Gen] = &[
    Gen { name: "ident", cap: Cap::Any, constraint: "", template: "fn ident{S}(x: {TC}) -> {T} = x", args: Args::One, ret: Ret::T, needs: None },
    Gen { name: "swap", cap: Cap::Any, constraint: "", template: "fn swap{S}(a: {TC}, b: {UC}) -> ({U}, {T}) = (b, a)", args: Args::Pair, ret: Ret::Swapped, needs: None },
    Gen { name: "gmax", cap: Cap::Ord, constraint: " Ord", template: "fn gmax{S}(a: {TC}, b: {T}) -> {T} {\nif a > b {\na\n} else {\nb\n}\n}", args: Args::Two, ret: Ret::T, needs: None },
    Gen { name: "gmin", cap: Cap::Ord, constraint: " Ord", template: "fn gmin{S}(a: {TC}, b: {T}) -> {T} {\nif a < b {\na\n} else {\nb\n}\n}", args: Args::Two, ret: Ret::T, needs: None },
    Gen { name: "gle", cap: Cap::Ord, constraint: " Ord", template: "fn gle{S}(a: {TC}, b: {T}) -> bool = a <= b", args: Args::Two, ret: Ret::Bool, needs: None },
    Gen { name: "gge", cap: Cap::Ord, constraint: " Ord", template: "fn gge{S}(a: {TC}, b: {T}) -> bool = a >= b", args: Args::Two, ret: Ret::Bool, needs: None },
    Gen { name: "gmax3", cap: Cap::Ord, constraint: " Ord", template: "fn gmax3{S}(a: {TC}, b: {T}, c: {T}) -> {T} = gmax{S}(gmax{S}(a, b), c)", args: Args::Three, ret: Ret::T, needs: Some("gmax") },
    Gen { name: "arrmax", cap: Cap::Ord, constraint: " Ord", template: "fn arrmax{S}(xs: array<{TC}>) -> {T} {\nvar m = xs[0]\nfor e in xs {\nif e > m {\nm = e\n}\n}\nm\n}", args: Args::ArrOnly, ret: Ret::T, needs: None },
    Gen { name: "same", cap: Cap::Equal, constraint: " Equal", template: "fn same{S}(a: {TC}, b: {T}) -> bool = a == b", args: Args::Two, ret: Ret::Bool, needs: None },
    Gen { name: "differ", cap: Cap::Equal, constraint: " Equal", template: "fn differ{S}(a: {TC}, b: {T}) -> bool = a != b", args: Args::Two, ret: Ret::Bool, needs: None },
    Gen { name: "count_eq", cap: Cap::Equal, constraint: " Equal", template: "fn count_eq{S}(xs: array<{TC}>, y: {T}) -> int {\nvar n = 0\nfor e in xs {\nif e == y {\nn += 1\n}\n}\nn\n}", args: Args::ArrAnd, ret: Ret::Int, needs: None },
    Gen { name: "show", cap: Cap::ToString, constraint: " ToString", template: "fn show{S}(x: {TC}) -> string = ToString.str(x)", args: Args::One, ret: Ret::Str, needs: None },
    Gen { name: "show2", cap: Cap::ToString, constraint: " ToString", template: "fn show2{S}(x: {TC}) -> string = \"<\" .. x .. \">\"", args: Args::One, ret: Ret::Str, needs: None },
    Gen { name: "pshow", cap: Cap::ToString, constraint: " ToString", template: "fn pshow{S}(a: {TC}, b: {UC}) -> string = a .. \",\" .. b", args: Args::Pair, ret: Ret::Str, needs: None },
    Gen { name: "dup", cap: Cap::Clone, constraint: " Clone", template: "fn dup{S}(x: {TC}) -> {T} = Clone.clone(x)", args: Args::One, ret: Ret::T, needs: None },
    Gen { name: "garea", cap: Cap::Shape, constraint: " Shape", template: "fn garea{S}(s: {TC}) -> int = Shape.area(s)", args: Args::One, ret: Ret::Int, needs: None },
    Gen { name: "at", cap: Cap::Index, constraint: " Index<Idx=int, Output=int>", template: "fn at{S}(c: {TC}, i: int) -> int = c[i]", args: Args::Idx, ret: Ret::Int, needs: None },
    Gen { name: "put", cap: Cap::Index, constraint: " Index<Idx=int, Output=int>", template: "fn put{S}(c: {TC}, i: int, v: int) -> int {\nc[i] = v\nc[i]\n}", args: Args::IdxSet, ret: Ret::Int, needs: None },
    Gen { name: "gadd", cap: Cap::Num, constraint: " Num", template: "fn gadd{S}(a: {TC}, b: {T}) -> {T} = a + b", args: Args::Two, ret: Ret::T, needs: None },
    Gen { name: "gsub", cap: Cap::Num, constraint: " Num", template: "fn gsub{S}(a: {TC}, b: {T}) -> {T} = a - b", args: Args::Two, ret: Ret::T, needs: None },
    Gen { name: "gmul", cap: Cap::Num, constraint: " Num", template: "fn gmul{S}(a: {TC}, b: {T}) -> {T} = a * b", args: Args::Two, ret: Ret::T, needs: None },
    Gen { name: "gdiv", cap: Cap::Num, constraint: " Num", template: "fn gdiv{S}(a: {TC}, b: {T}) -> {T} = a / b", args: Args::Two, ret: Ret::T, needs: None },
    // lambdas and tasks created inside a generic function that capture values of the generic type (each instantiation needs its own code)
    Gen { name: "lamshow", cap: Cap::ToString, constraint: " ToString", template: "fn lamshow{S}(x: {TC}) -> string {\nlet f = () -> \"<\" .. x .. \">\"\nf()\n}", args: Args::One, ret: Ret::Str, needs: None },
    Gen { name: "lamnest", cap: Cap::ToString, constraint: " ToString", template: "fn lamnest{S}(x: {TC}) -> string {\nlet f = () -> {\nlet g = () -> \"<\" .. x .. \">\"\ng()\n}\nf()\n}", args: Args::One, ret: Ret::Str, needs: None },
    Gen { name: "lamarg", cap: Cap::ToString, constraint: " ToString", template: "fn lamarg{S}(x: {TC}) -> string {\nlet f = (y: {T}) -> \"<\" .. y .. \">\"\nf(x)\n}", args: Args::One, ret: Ret::Str, needs: None },
    Gen { name: "taskshow", cap: Cap::ToString, constraint: " ToString", template: "fn taskshow{S}(x: {TC}) -> string {\nlet c: channel<string> = channel()\ntask {\nc.write(\"<\" .. x .. \">\")\n}\nc.read()\n}", args: Args::One, ret: Ret::Str, needs: None },
    Gen { name: "lamsame", cap: Cap::Equal, constraint: " Equal", template: "fn lamsame{S}(a: {TC}, b: {T}) -> bool {\nlet f = () -> a == b\nf()\n}", args: Args::Two, ret: Ret::Bool, needs: None },
    Gen { name: "lampick", cap: Cap::Ord, constraint: " Ord", template: "fn lampick{S}(a: {TC}, b: {T}) -> {T} {\nlet pick = (first: bool) -> if first {\na\n} else {\nb\n}\npick(a > b)\n}", args: Args::Two, ret: Ret::T, needs: None },
    // interface methods passed as first-class function values inside a generic function
    Gen { name: "valshow", cap: Cap::ToString, constraint: " ToString", template: "fn valshow{S}(x: {TC}) -> string = applyf(ToString.str, x)", args: Args::One, ret: Ret::Str, needs: None },
    Gen { name: "valarea", cap: Cap::Shape, constraint: " Shape", template: "fn valarea{S}(s: {TC}) -> int = applyf(Shape.area, s)", args: Args::One, ret: Ret::Int, needs: None },
    Gen { name: "valsame", cap: Cap::Equal, constraint: " Equal", template: "fn valsame{S}(a: {TC}, b: {T}) -> bool = applyf2(Equal.equal, a, b)", args: Args::Two, ret: Ret::Bool, needs: None },
    Gen { name: "valdup", cap: Cap::Clone, constraint: " Clone", template: "fn valdup{S}(x: {TC}) -> {T} {\nlet f = Clone.clone\nf(x)\n}", args: Args::One, ret: Ret::T, needs: None },
    Gen { name: "gpow", cap: Cap::Num, constraint: " Num", template: "fn gpow{S}(a: {TC}, b: {T}) -> {T} = a ^ b", args: Args::Two, ret: Ret::T, needs: None },
];

fn gen_by_name(n: &str) -> &'static Gen {
    GENS.iter().find(|g| g.name == n).unwrap()
}

impl Gen {
    fn generic_decl(&self) -> String {
        self.template
            .replace("{S}", "")
            .replace("{TC}", &format!("T{}", self.constraint))
            .replace("{UC}", &format!("U{}", self.constraint))
            .replace("{T}", "T")
            .replace("{U}", "U")
    }
    fn mono_suffix(&self, a: &T, b: &T) -> String {
        if self.args == Args::Pair { format!("_{}_{}", a.name(), b.name()) } else { format!("_{}", a.name()) }
    }
    fn mono_decl(&self, a: &T, b: &T) -> String {
        self.template
            .replace("{S}", &self.mono_suffix(a, b))
            .replace("{TC}", &a.expr())
            .replace("{UC}", &b.expr())
            .replace("{T}", &a.expr())
            .replace("{U}", &b.expr())
    }
    /// the call `name<suffix>(args)` at type a (and b for two-parameter generics); `flip` selects the second argument order
    fn call(&self, suffix: &str, a: &T, b: &T, flip: bool) -> String {
        let (v, w) = if flip { (a.val(1), a.val(0)) } else { (a.val(0), a.val(1)) };
        let f = format!("{}{}", self.name, suffix);
        match self.args {
            Args::One => format!("{f}({v})"),
            Args::Two => format!("{f}({v}, {w})"),
            Args::Three => format!("{f}({v}, {w}, {v})"),
            Args::ArrOnly => format!("{f}([{v}, {w}, {v}])"),
            Args::ArrAnd => format!("{f}([{v}, {w}, {v}], {v})"),
            Args::Idx => format!("{f}({v}, 1)"),
            Args::IdxSet => format!("{f}({v}, 0, 77)"),
            Args::Pair => format!("{f}({}, {})", a.val(flip as usize), b.val(flip as usize)),
        }
    }
    fn render(&self, call: &str, a: &T, b: &T) -> String {
        match self.ret {
            Ret::T => format!("rn_{}({call})", a.name()),
            Ret::Bool => format!("vh_emit_bool({call})"),
            Ret::Str => format!("vh_emit_str({call})"),
            Ret::Int => format!("vh_emit_int({call})"),
            Ret::Swapped => format!("rn_{}({call})", T::Tup(vec![b.clone(), a.clone()]).name()),
        }
    }
}

pub fn gen_case(g: &Gen, a: &T, b: &T) -> Case {
    let mut decls = vec![user_decls()];
    let mut rd = vec![];
    a.render_decls(&mut rd);
    b.render_decls(&mut rd);
    let two = g.args == Args::Pair;
    // instantiations exercised: single-parameter: A, B, A(flipped); two-parameter: (A,B), (B,A), (A,A)
    let insts: Vec<(T, T, bool)> = if two {
        vec![(a.clone(), b.clone(), false), (b.clone(), a.clone(), true), (a.clone(), a.clone(), false)]
    } else {
        vec![(a.clone(), a.clone(), false), (b.clone(), b.clone(), false), (a.clone(), a.clone(), true)]
    };
    if g.ret == Ret::Swapped {
        for (x, y, _) in &insts {
            T::Tup(vec![y.clone(), x.clone()]).render_decls(&mut rd);
        }
    }
    decls.extend(rd);
    let mut chain = vec![];
    if let Some(n) = g.needs {
        chain.push(gen_by_name(n));
    }
    chain.push(g);
    for h in &chain {
        decls.push(h.generic_decl());
        for (x, y, _) in &insts {
            let d = h.mono_decl(x, y);
            if !decls.contains(&d) {
                decls.push(d);
            }
        }
    }
    let mut body = String::from("vh_emit_str(\"generic\")\n");
    for (x, y, flip) in &insts {
        body.push_str(&g.render(&g.call("", x, y, *flip), x, y));
        body.push('\n');
    }
    body.push_str("vh_emit_str(\"mono\")\n");
    for (x, y, flip) in &insts {
        body.push_str(&g.render(&g.call(&g.mono_suffix(x, y), x, y, *flip), x, y));
        body.push('\n');
    }
    let mut c = Case::new(format!("generic {} at ({}, {})", g.name, a.expr(), b.expr()), body);
    c.decls = decls;
    c
}

pub fn gen_cases(tier: Tier, num: bool) -> Vec<(Case, Vec<i64>)> {
    let ts = types(tier);
    let mut v = vec![];
    for g in GENS {
        if (g.cap == Cap::Num) != num {
            continue;
        }
        let app: Vec<&T> = ts
            .iter()
            .filter(|t| t.has(g.cap))
            // rendering Bag / Rg values structurally is only needed for the container generics
            .filter(|t| g.cap == Cap::Index || !matches!(t, T::Bag | T::Rg))
            .collect();
        for a in &app {
            for b in &app {
                let mut fam = vec![];
                a.families(&mut fam);
                b.families(&mut fam);
                v.push((gen_case(g, a, b), fam));
            }
        }
    }
    v
}

fn judge_gen(out: &mut UnitOut, c: &Case, fam: &[i64], r: &CaseResult) {
    let key = format!("input:{}", hkey(&c.name));
    out.nontrivial_text(&c.name);
    let mut viol = |out: &mut UnitOut, observed: String, extra: Vec<String>| {
        out.class("violation");
        let mut keys = vec![key.clone()];
        keys.extend(extra);
        out.violation(
            keys,
            format!("{}: {}", c.name, observed.lines().next().unwrap_or("")),
            json!({"case": c.name, "program": c.standalone(), "expected": "the trace of the generic calls equals the trace of the hand-monomorphised copies; tags only of the argument types", "observed": observed}),
        );
    };
    match r {
        CaseResult::Diag(d) => viol(out, format!("rejected: {d}"), vec!["rejected".into()]),
        CaseResult::CompilerPanic(p) => viol(out, format!("compiler panic at {}: {}", p.site, p.msg), vec![p.site_key(), format!("at:{}", p.site)]),
        CaseResult::Ran(o) => {
            if let End::Fault(p) = &o.end {
                return viol(out, format!("VM fault at {}: {}", p.site, p.msg), vec![p.site_key()]);
            }
            if o.end != End::Done {
                return viol(out, format!("end={} emits={:?}", crate::batch::short_end(&o.end), o.emits), vec!["not-done".into()]);
            }
            let m = o.emits.iter().position(|e| *e == Emit::Str("mono".into()));
            let (Some(m), Some(Emit::Str(first))) = (m, o.emits.first()) else {
                return viol(out, format!("trace markers missing: {:?}", o.emits), vec!["markers".into()]);
            };
            if first != "generic" {
                return viol(out, format!("trace markers missing: {:?}", o.emits), vec!["markers".into()]);
            }
            let ge = &o.emits[1..m];
            let mo = &o.emits[m + 1..];
            if ge != mo {
                return viol(out, format!("generic trace {:?} differs from monomorphic trace {:?}", ge, mo), vec!["differs".into()]);
            }
            let mut user_tags = 0;
            for e in ge {
                if let Emit::Int(t) = e {
                    if *t >= 100 && *t < 1000 && (*t % 100) <= 20 {
                        // a tag (values rendered by the cases stay below 100)
                        if !fam.contains(&(*t / 100)) {
                            return viol(out, format!("tag {t} of an implementation for a type that does not occur in the arguments; trace {:?}", ge), vec!["foreign-tag".into()]);
                        }
                        user_tags += 1;
                    }
                }
            }
            out.class(if user_tags > 0 { "traces agree; user implementation tags observed" } else { "traces agree; built-in implementations only" });
            if user_tags > 0 {
                out.sample(json!({"case": c.name, "body": c.body, "trace": format!("{ge:?}")}));
            }
        }
    }
}

// ------------------------------------------------------------------ family D: direct operators on user types

fn ei(x: i64) -> Emit {
    Emit::Int(x)
}

pub fn direct_cases(num: bool) -> Vec<(Case, Expect)> {
    let mut v: Vec<(Case, Expect)> = vec![];
    let decl = user_decls();
    let mut add = |name: String, body: String, e: Vec<Emit>| {
        v.push((Case::new(name, body).decl(decl.clone()), Expect::emits(e)));
    };
    // (type, base tag, values with their int key)
    let tys: [(&str, i64, [(&str, i64); 2]); 2] = [("Pt", 100, [("Pt(1)", 1), ("Pt(2)", 2)]), ("Co", 200, [("Co.Red", 1), ("Co.Green(7)", 9)])];
    let render = |ty: &str, key: i64| -> Vec<Emit> {
        if ty == "Pt" {
            vec![Emit::Str("Pt".into()), ei(key)]
        } else if key == 1 {
            vec![Emit::Str("Red".into())]
        } else {
            vec![Emit::Str("Green".into()), ei(key - 2)]
        }
    };
    let render_code = |ty: &str, e: &str| -> String {
        if ty == "Pt" {
            format!("let r = {e}\nvh_emit_str(\"Pt\")\nvh_emit_int(r.x)")
        } else {
            format!("match {e} {{\n.Red -> vh_emit_str(\"Red\")\n.Green(n) -> {{\nvh_emit_str(\"Green\")\nvh_emit_int(n)\n}}\n}}")
        }
    };
    let show = |ty: &str, key: i64| -> String {
        if ty == "Pt" {
            format!("Pt({key})")
        } else if key == 1 {
            "Red".into()
        } else {
            format!("Green({})", key - 2)
        }
    };
    for (ty, base, vals) in tys {
        if !num {
            for (a, ka) in vals {
                for (b, kb) in vals {
                    let cmp: [(&str, i64, bool); 6] =
                        [("==", 1, ka == kb), ("!=", 1, ka != kb), ("<", 2, ka < kb), ("<=", 3, ka <= kb), (">", 4, ka > kb), (">=", 5, ka >= kb)];
                    for (op, t, res) in cmp {
                        add(format!("direct {ty}: {a} {op} {b}"), format!("vh_emit_bool({a} {op} {b})"), vec![ei(base + t), Emit::Bool(res)]);
                        add(
                            format!("direct {ty}: {a} {op} {b} through variables"),
                            format!("let a = {a}\nlet b = {b}\nlet r = a {op} b\nvh_emit_bool(r)"),
                            vec![ei(base + t), Emit::Bool(res)],
                        );
                    }
                }
                let s = show(ty, ka);
                add(format!("direct {ty}: \"\" .. {a}"), format!("vh_emit_str(\"\" .. {a})"), vec![ei(base + 6), Emit::Str(s.clone())]);
                add(format!("direct {ty}: {a} .. \"\""), format!("vh_emit_str({a} .. \"!\")"), vec![ei(base + 6), Emit::Str(format!("{s}!"))]);
                add(format!("direct {ty}: ({a}).str()"), format!("let a = {a}\nvh_emit_str(a.str())"), vec![ei(base + 6), Emit::Str(s.clone())]);
                add(format!("direct {ty}: ToString.str({a})"), format!("vh_emit_str(ToString.str({a}))"), vec![ei(base + 6), Emit::Str(s.clone())]);
                add(format!("direct {ty}: {a} .. \"\" .. {a}"), format!("vh_emit_str({a} .. \"\" .. {a})"), vec![ei(base + 6), ei(base + 6), Emit::Str(format!("{s}{s}"))]);
                // Pt's clone rebuilds Pt(key); Co's clone re-wraps the key as Green(key)
                let e = if ty == "Co" {
                    vec![ei(base + 7), Emit::Str("Green".into()), ei(ka)]
                } else {
                    let mut e = vec![ei(base + 7)];
                    e.extend(render(ty, ka));
                    e
                };
                add(format!("direct {ty}: ({a}).clone()"), format!("let a = {a}\n{}", render_code(ty, "a.clone()")), e.clone());
                add(format!("direct {ty}: Clone.clone({a})"), render_code(ty, &format!("Clone.clone({a})")), e);
                add(format!("direct {ty}: ({a}).area()"), format!("let a = {a}\nvh_emit_int(a.area())"), vec![ei(base + 13), ei(ka * 10)]);
                add(format!("direct {ty}: Shape.area({a})"), format!("vh_emit_int(Shape.area({a}))"), vec![ei(base + 13), ei(ka * 10)]);
                // containers of the user type through the prelude's generic implementations
                add(
                    format!("direct {ty}: [{a}] == [{a}]"),
                    format!("vh_emit_bool([{a}] == [{a}])"),
                    // array equality compares element-wise with the element type's Equal: one element, one call
                    vec![ei(base + 1), Emit::Bool(true)],
                );
                add(format!("direct {ty}: \"\" .. [{a}]"), format!("vh_emit_str(\"\" .. [{a}])"), vec![ei(base + 6), Emit::Str(format!("[ {s} ]"))]);
                add(format!("direct {ty}: \"\" .. option.some({a})"), format!("vh_emit_str(\"\" .. option.some({a}))"), vec![ei(base + 6), Emit::Str(format!("some({s})"))]);
            }
            // two user types in one expression
            add(
                format!("direct {ty}: mixed with the other type in one concatenation"),
                "vh_emit_str(Pt(1) .. \"|\" .. Co.Red)".into(),
                vec![ei(106), ei(206), Emit::Str("Pt(1)|Red".into())],
            );
        } else {
            for (a, ka) in vals {
                for (b, kb) in vals {
                    let ops: [(&str, i64, Option<i64>); 5] = [
                        ("+", 8, Some(ka + kb)),
                        ("-", 9, Some(ka - kb)),
                        ("*", 10, Some(ka * kb)),
                        ("/", 11, if kb == 0 { None } else { Some(ka / kb) }),
                        ("^", 12, if kb > 10 { None } else { Some(ka.pow(kb as u32)) }),
                    ];
                    for (op, t, res) in ops {
                        let Some(res) = res else { continue };
                        let mut e = vec![ei(base + t)];
                        if ty == "Pt" {
                            e.extend(render(ty, res));
                        } else {
                            e.extend([Emit::Str("Green".into()), ei(res)]);
                        }
                        add(format!("direct {ty}: {a} {op} {b}"), render_code(ty, &format!("{a} {op} {b}")), e);
                    }
                }
            }
        }
    }
    if !num {
        for (ty, base, rev) in [("Bag", 300i64, false), ("Rg", 400, true)] {
            let items = [4i64, 5, 6];
            let mut e = vec![ei(base + 1)];
            let order: Vec<i64> = if rev { items.iter().rev().copied().collect() } else { items.to_vec() };
            for x in &order {
                e.push(ei(base + 2));
                e.push(ei(*x));
            }
            e.push(ei(base + 2));
            add(format!("direct {ty}: for over the user container"), format!("for e in {ty}([4, 5, 6]) {{\nvh_emit_int(e)\n}}"), e.clone());
            add(format!("direct {ty}: for over the user container held in a variable"), format!("let c = {ty}([4, 5, 6])\nfor e in c {{\nvh_emit_int(e)\n}}"), e);
            add(format!("direct {ty}: for over an empty user container"), format!("let c = {ty}([])\nfor e in c {{\nvh_emit_int(e)\n}}"), vec![ei(base + 1), ei(base + 2)]);
            add(format!("direct {ty}: c[1]"), format!("let c = {ty}([4, 5, 6])\nvh_emit_int(c[1])"), vec![ei(base + 3), ei(5)]);
            add(format!("direct {ty}: c[0] = 9"), format!("let c = {ty}([4, 5, 6])\nc[0] = 9\nvh_emit_arr(c.items)"), vec![ei(base + 4), Emit::Arr(vec![9, 5, 6])]);
            add(
                format!("direct {ty}: c[0] += 1"),
                format!("let c = {ty}([4, 5, 6])\nc[0] += 1\nvh_emit_arr(c.items)"),
                vec![ei(base + 3), ei(base + 4), Emit::Arr(vec![5, 5, 6])],
            );
            add(
                format!("direct {ty}: break out of a for over the user container"),
                format!("for e in {ty}([4, 5, 6]) {{\nvh_emit_int(e)\nbreak\n}}"),
                vec![ei(base + 1), ei(base + 2), ei(order[0])],
            );
        }
        add(
            "direct: nested for over two different user containers".into(),
            "for e in Bag([1, 2]) {\nfor g in Rg([7, 8]) {\nvh_emit_int(e * 10 + g)\n}\n}".into(),
            vec![ei(301), ei(302), ei(401), ei(402), ei(18), ei(402), ei(17), ei(402), ei(302), ei(401), ei(402), ei(28), ei(402), ei(27), ei(402), ei(302)],
        );
        add("direct: user generic impl over a user type: \"\" .. Wrap(Pt(1))".into(), "vh_emit_str(\"\" .. Wrap(Pt(1)))".into(), vec![ei(506), ei(106), Emit::Str("W(Pt(1))".into())]);
        add("direct: user generic impl over a built-in type: \"\" .. Wrap(3)".into(), "vh_emit_str(\"\" .. Wrap(3))".into(), vec![ei(506), Emit::Str("W(3)".into())]);
        add("direct: user generic impl nested: \"\" .. Wrap(Wrap(Co.Red))".into(), "vh_emit_str(\"\" .. Wrap(Wrap(Co.Red)))".into(), vec![ei(506), ei(506), ei(206), Emit::Str("W(W(Red))".into())]);
        add("direct: Wrap(Pt(1)) == Wrap(Pt(2))".into(), "vh_emit_bool(Wrap(Pt(1)) == Wrap(Pt(2)))".into(), vec![ei(501), ei(101), Emit::Bool(false)]);
        add("direct: Wrap(Co.Red) != Wrap(Co.Red)".into(), "vh_emit_bool(Wrap(Co.Red) != Wrap(Co.Red))".into(), vec![ei(501), ei(201), Emit::Bool(false)]);
        add("direct: Wrap(4) == Wrap(4)".into(), "vh_emit_bool(Wrap(4) == Wrap(4))".into(), vec![ei(501), Emit::Bool(true)]);
        add("direct: int implements the user interface".into(), "vh_emit_int(Shape.area(4))".into(), vec![ei(913), ei(40)]);
    }
    if !num {
        v.extend(method_order_cases());
        v.extend(void_instantiation_cases());
    }
    v
}

/// Generic functions instantiated at `void` next to another instantiation: a void value occupies no stack slot, so
/// parameters, locals and captures of the generic type exist in one instantiation and not in the other.
pub fn void_instantiation_cases() -> Vec<(Case, Expect)> {
    let d = "fn vkeep(x: T) -> int {\nlet f = () -> {\nlet y = x\n1\n}\nf()\n}\n\
fn vkeep2(x: T, z: int) -> int {\nlet f = () -> {\nlet y = x\nz\n}\nf()\n}\n\
fn vlocal(x: T, z: int) -> int {\nlet y = x\nlet w = z + 1\nw\n}\n\
fn vpair(a: T, b: U, z: int) -> int {\nlet p = a\nlet q = b\nz\n}\n\
fn vident(x: T) -> T = x\n\
fn vtask(x: T, z: int) -> int {\nlet c: channel<int> = channel()\ntask {\nlet y = x\nc.write(z)\n}\nc.read()\n}\n\
fn vnest(x: T, z: int) -> int {\nlet f = () -> {\nlet g = () -> {\nlet y = x\nz\n}\ng()\n}\nf()\n}\n";
    let mut v = vec![];
    let mut add = |name: &str, body: &str, e: Vec<i64>| {
        v.push((Case::new(format!("void instantiation: {name}"), body.to_string()).decl(d), Expect::emits(e.into_iter().map(ei).collect())));
    };
    add("lambda capturing the generic parameter, at void and at int", "vh_emit_int(vkeep(nil))\nvh_emit_int(vkeep(5))\nvh_emit_int(vkeep(nil))", vec![1, 1, 1]);
    add("lambda capturing a generic and an int parameter", "vh_emit_int(vkeep2(nil, 7))\nvh_emit_int(vkeep2(\"s\", 8))\nvh_emit_int(vkeep2(nil, 9))", vec![7, 8, 9]);
    add("local of the generic type", "vh_emit_int(vlocal(nil, 1))\nvh_emit_int(vlocal(4, 2))", vec![2, 3]);
    add("two type parameters, each void in turn", "vh_emit_int(vpair(nil, 3, 10))\nvh_emit_int(vpair(3, nil, 11))\nvh_emit_int(vpair(nil, nil, 12))\nvh_emit_int(vpair(1, 2, 13))", vec![10, 11, 12, 13]);
    add("identity at void in an operand position", "let u = vident(nil)\nvh_emit_int(1 + {\nvident(nil)\n2\n})\nvh_emit_int(vident(4))", vec![3, 4]);
    add("task capturing the generic parameter", "vh_emit_int(vtask(nil, 5))\nvh_emit_int(vtask(\"s\", 6))", vec![5, 6]);
    add("nested lambdas capturing the generic parameter", "vh_emit_int(vnest(nil, 5))\nvh_emit_int(vnest(2, 6))", vec![5, 6]);
    v
}

// ------------------------------------------------------------------ family P: implementation method order

/// An implementation may list the interface's methods in any order (the resolver matches them by name); every call
/// form must still reach the method that was named. One case per permutation of a three-method user interface
/// (same signatures, so a positional mix-up is silent; and differing result types, so it is a type confusion),
/// plus the prelude's `Ord` implemented in two other orders.
pub fn method_order_cases() -> Vec<(Case, Expect)> {
    let mut v = vec![];
    let perms: [[usize; 3]; 6] = [[0, 1, 2], [0, 2, 1], [1, 0, 2], [1, 2, 0], [2, 0, 1], [2, 1, 0]];
    let names = ["one", "two", "three"];
    for (pi, perm) in perms.iter().enumerate() {
        for typed in [false, true] {
            let sfx = format!("{}{}", if typed { "Ty" } else { "Sm" }, pi);
            // result types: all int, or int / string / bool
            let rty = |k: usize| if !typed { "int" } else { ["int", "string", "bool"][k] };
            let rval = |k: usize| -> String {
                if !typed { format!("self.v + {}", k + 1) } else { ["self.v + 1".to_string(), "\"s\" .. self.v".to_string(), "self.v > 0".to_string()][k].clone() }
            };
            let mut d = format!("interface Tri{sfx} {{\n");
            for k in 0..3 {
                d.push_str(&format!("fn {}(self) -> {}\n", names[k], rty(k)));
            }
            d.push_str(&format!("}}\ntype Pa{sfx} = {{\nv: int\n}}\nimplement Tri{sfx} for Pa{sfx} {{\n"));
            for &k in perm {
                d.push_str(&format!("fn {}(self) -> {} {{\nvh_emit_int({})\n{}\n}}\n", names[k], rty(k), 701 + k, rval(k)));
            }
            d.push_str("}\n");
            for k in 0..3 {
                d.push_str(&format!("fn g{}{sfx}(x: T Tri{sfx}) -> {} = Tri{sfx}.{}(x)\n", names[k], rty(k), names[k]));
            }
            let emit = |k: usize, e: &str| -> String {
                if !typed { format!("vh_emit_int({e})") } else { [format!("vh_emit_int({e})"), format!("vh_emit_str({e})"), format!("vh_emit_bool({e})")][k].clone() }
            };
            let val = |k: usize| -> Emit {
                if !typed { ei(10 + k as i64 + 1) } else { [ei(11), Emit::Str("s10".into()), Emit::Bool(true)][k].clone() }
            };
            let mut body = format!("let p = Pa{sfx}(10)\n");
            let mut exp = vec![];
            for form in 0..3 {
                for k in 0..3 {
                    let call = match form {
                        0 => format!("Tri{sfx}.{}(p)", names[k]),
                        1 => format!("p.{}()", names[k]),
                        _ => format!("g{}{sfx}(p)", names[k]),
                    };
                    body.push_str(&emit(k, &call));
                    body.push('\n');
                    exp.push(ei(701 + k as i64));
                    exp.push(val(k));
                }
            }
            v.push((
                Case::new(format!("method order: user interface (one, two, three) implemented in order {:?}, {}", perm.map(|k| names[k]), if typed { "results int/string/bool" } else { "all results int" }), body).decl(d),
                Expect::emits(exp),
            ));
        }
    }
    // the prelude's Ord on a user type, methods written in another order than the interface declares them
    let ord = [("less_than", "<", 801), ("less_than_or_equal", "<=", 802), ("greater_than", ">", 803), ("greater_than_or_equal", ">=", 804)];
    for (oi, order) in [[3usize, 2, 1, 0], [1, 3, 0, 2]].iter().enumerate() {
        let ty = format!("Pb{oi}");
        let mut d = format!("type {ty} = {{\nv: int\n}}\nimplement Equal for {ty} {{\nfn equal(a, b) = a.v == b.v\n}}\nimplement Ord for {ty} {{\n");
        for &k in order {
            d.push_str(&format!("fn {}(a, b) {{\nvh_emit_int({})\na.v {} b.v\n}}\n", ord[k].0, ord[k].2, ord[k].1));
        }
        d.push_str("}\n");
        d.push_str(&format!("fn gle{ty}(a: T Ord, b: T) -> bool = a <= b\n"));
        let mut body = format!("let x = {ty}(1)\nlet y = {ty}(2)\n");
        let mut exp = vec![];
        for (_, op, tag) in ord {
            for (l, r, lv, rv) in [("x", "y", 1, 2), ("y", "x", 2, 1), ("x", "x", 1, 1)] {
                body.push_str(&format!("vh_emit_bool({l} {op} {r})\n"));
                exp.push(ei(tag));
                exp.push(Emit::Bool(match op {
                    "<" => lv < rv,
                    "<=" => lv <= rv,
                    ">" => lv > rv,
                    _ => lv >= rv,
                }));
            }
        }
        body.push_str(&format!("vh_emit_bool(gle{ty}(x, y))\nvh_emit_bool(gle{ty}(y, x))\n"));
        exp.extend([ei(802), Emit::Bool(true), ei(802), Emit::Bool(false)]);
        v.push((Case::new(format!("method order: Ord on a user type implemented in order {:?}", order.map(|k| ord[k].0)), body).decl(d), Expect::emits(exp)));
    }
    v
}

// ------------------------------------------------------------------ family X: same-named types in two modules

/// Two imported modules each declare `type Pt` with their own ToString / Equal / Ord implementations; the main file
/// uses generic functions and interface methods at both. (file texts, expected emits)
fn two_module_program() -> (Vec<(String, String)>, Vec<Emit>) {
    let module = |tag: i64, who: &str| {
        format!(
            "use vh\ntype Pt = {{\n  x: int\n}}\nimplement ToString for Pt {{\n  fn str(p) {{\n    vh_emit_int({})\n    \"{who}.Pt(\" .. p.x .. \")\"\n  }}\n}}\n\
implement Equal for Pt {{\n  fn equal(a, b) {{\n    vh_emit_int({})\n    a.x == b.x\n  }}\n}}\n\
implement Ord for Pt {{\n  fn less_than(a, b) {{\n    vh_emit_int({})\n    a.x < b.x\n  }}\n  fn less_than_or_equal(a, b) = a.x <= b.x\n  fn greater_than(a, b) = a.x > b.x\n  fn greater_than_or_equal(a, b) = a.x >= b.x\n}}\n\
fn mk(n: int) -> Pt = Pt(n)\n",
            tag + 6,
            tag + 1,
            tag + 2
        )
    };
    let main = "use vh\nuse alpha as al\nuse beta as be\n\
fn show(x: T ToString) -> string = \"<\" .. x .. \">\"\n\
fn same(a: T Equal, b: T) -> bool = a == b\n\
fn smaller(a: T Ord, b: T) -> T {\n  if a < b {\n    a\n  } else {\n    b\n  }\n}\n\
let a1: al.Pt = al.Pt(1)\nlet a2: al.Pt = al.Pt(2)\nlet b1: be.Pt = be.Pt(1)\nlet b2: be.Pt = be.Pt(2)\n\
vh_emit_str(show(a1))\nvh_emit_str(show(b1))\nvh_emit_str(show(a2))\n\
vh_emit_bool(same(a1, a2))\nvh_emit_bool(same(b1, b1))\n\
vh_emit_str(\"\" .. smaller(a2, a1))\nvh_emit_str(\"\" .. smaller(b1, b2))\n\
vh_emit_str(\"\" .. [a1, a2])\nvh_emit_str(\"\" .. [b1])\n\
vh_emit_bool([a1] == [a2])\nvh_emit_bool([b2] == [b2])\n\
vh_emit_str(\"\" .. option.some(b2))\nvh_emit_str(\"\" .. option.some(a2))\n";
    let s = |x: &str| Emit::Str(x.into());
    let exp = vec![
        ei(1106), s("<alpha.Pt(1)>"), ei(2106), s("<beta.Pt(1)>"), ei(1106), s("<alpha.Pt(2)>"),
        ei(1101), Emit::Bool(false), ei(2101), Emit::Bool(true),
        ei(1102), ei(1106), s("alpha.Pt(1)"), ei(2102), ei(2106), s("beta.Pt(1)"),
        ei(1106), ei(1106), s("[ alpha.Pt(1), alpha.Pt(2) ]"), ei(2106), s("[ beta.Pt(1) ]"),
        ei(1101), Emit::Bool(false), ei(2101), Emit::Bool(true),
        ei(2106), s("some(beta.Pt(2))"), ei(1106), s("some(alpha.Pt(2))"),
    ];
    (vec![("main.abra".into(), main.to_string()), ("alpha.abra".into(), module(1100, "alpha")), ("beta.abra".into(), module(2100, "beta"))], exp)
}

fn run_two_modules(out: &mut UnitOut) {
    if !out.begin_case(0) {
        return;
    }
    let (files, exp) = two_module_program();
    let name = "two modules declare a type of the same name: generic functions and interface methods at both";
    out.describe_case(&format!("{name}\n{}", files[0].1));
    out.evaluations += 1;
    out.nontrivial_text(name);
    let mut src = crate::drive::Src::with_vh(&files[0].1);
    for (n, t) in &files[1..] {
        src = src.add(n, t);
    }
    let key = format!("input:{}", hkey(name));
    let files_json = json!(files.iter().map(|(n, t)| json!({"file": n, "text": t})).collect::<Vec<_>>());
    match crate::drive::compile(&src, COpts::default()) {
        crate::drive::Compiled::Ok(p) => {
            let r = crate::drive::run(&p, &src.host_table(), crate::drive::StdHost::default(), ROpts { budget: 1000, max_steps: 500_000 });
            if r.end == crate::drive::End::Done && r.host.emits == exp {
                out.class("ok:values as modelled");
                out.sample(json!({"case": name, "emits": r.host.emits.len()}));
            } else {
                out.class("violation");
                out.violation(
                    vec![key],
                    format!("{name}: expected emits {exp:?}, observed end={} emits={:?}", crate::batch::short_end(&r.end), r.host.emits),
                    json!({"case": name, "files": files_json, "expected": format!("{exp:?}"), "observed": format!("{:?}", r.host.emits)}),
                );
            }
        }
        other => {
            out.class("violation");
            out.violation(vec![key], format!("{name}: program rejected / compiler panic: {}", other.class()), json!({"case": name, "files": files_json}));
        }
    }
}

// ------------------------------------------------------------------ Prop

const G_PER_UNIT: usize = 120;

fn n_g_units(tier: Tier) -> usize {
    gen_cases(tier, false).len().div_ceil(G_PER_UNIT)
}

impl Prop for C22 {
    fn id(&self) -> &'static str {
        "C22"
    }
    fn level(&self) -> &'static str {
        "exploration"
    }
    fn n_units(&self, tier: Tier) -> usize {
        n_g_units(tier) + 4
    }
    fn run_unit(&self, tier: Tier, unit: usize, out: &mut UnitOut) {
        let ng = n_g_units(tier);
        // a finite slice: with an unbounded one a task waiting for its host call is only served after the spinning reader has used up the whole budget
        let ro = ROpts { budget: 1000, max_steps: 500_000 };
        if unit < ng {
            let all = gen_cases(tier, false);
            let lo = unit * G_PER_UNIT;
            let hi = (lo + G_PER_UNIT).min(all.len());
            let cases: Vec<Case> = all[lo..hi].iter().map(|x| x.0.clone()).collect();
            run_cases(out, 0, &cases, 40, COpts::default(), ro, |out, k, c, r| judge_gen(out, c, &all[lo + k].1, r));
        } else if unit == ng {
            // Num generics: each program standalone (the user-type ones are known to panic the compiler)
            let all = gen_cases(tier, true);
            let cases: Vec<Case> = all.iter().map(|x| x.0.clone()).collect();
            run_cases(out, 0, &cases, 1, COpts::default(), ro, |out, k, c, r| judge_gen(out, c, &all[k].1, r));
        } else if unit == ng + 3 {
            run_two_modules(out);
        } else {
            let num = unit == ng + 2;
            let all = direct_cases(num);
            let cases: Vec<Case> = all.iter().map(|x| x.0.clone()).collect();
            run_cases(out, 0, &cases, if num { 1 } else { 30 }, COpts::default(), ro, |out, k, c, r| {
                out.nontrivial_text(&c.name);
                if judge(out, c, r, &all[k].1) {
                    out.sample(json!({"case": c.name, "body": c.body, "expected": format!("{:?}", all[k].1)}));
                }
            });
        }
    }
    fn rule(&self, tier: Tier) -> String {
        format!(
            "G: generic functions {:?} × all ordered pairs (A, B) of the instantiation types satisfying the constraint, types = {:?}; each case calls the generic at A, B and A again \
             (two-parameter generics at (A,B), (B,A), (A,A)) and then the hand-monomorphised copies; oracle: equal traces (tags emitted by the user implementations + structural rendering of results) \
             and no tag of a type outside A, B. D: every comparison operator on all value pairs of the user struct and the user enum, `..`, method / interface-qualified / type-qualified calls, clone, \
             a user interface, containers of user types through the prelude's generic implementations, `for` / indexing / indexed assignment on two user containers, Num operators, and a three-method user interface and the prelude's Ord implemented with the methods written in every / another order (interface-qualified, member and generic calls), and generic functions (with locals, lambdas, nested lambdas and tasks using the generic parameter) instantiated at void next to another type, and one three-file program in which two modules declare a type of the same name with their own implementations; oracle: exact tag sequence and value \
             from a Rust model of the user implementations. Every case is counted as non-trivial (each executes at least one dispatch); distinct by case name.",
            GENS.iter().map(|g| g.name).collect::<Vec<_>>(),
            types(tier).iter().map(|t| t.expr()).collect::<Vec<_>>()
        )
    }
    fn assumptions(&self) -> Vec<String> {
        vec![
            "generic functions over Iterable cannot be written on the pinned tree (`for` over a `T Iterable` is rejected, output types cannot be constrained), so `for` dispatch is checked on concrete user containers only".into(),
            "`a != b` is expected to call the type's `equal` once; `c[i] += v` is expected to call index_get then index_set once each".into(),
            "array equality on one-element arrays is expected to call the element's `equal` exactly once; rendering of arrays/options follows C28 ('[ a ]', 'some(a)')".into(),
        ]
    }
}
