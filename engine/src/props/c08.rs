//! C08 — a task works on its own copies of the values it captures.
//!
//! All programs `captured shape (depth <= 2) × mutation by the task × mutation by the spawner`,
//! observed through channels on both sides, each under every uniform budget of a set and under all
//! embedder executions with <= 1 deviation. Model: capture = deep copy at spawn; channels shared.

use crate::drive::{Emit, End};
use crate::embed;
use crate::fw::{Prop, Tier, UnitOut, hkey};
use serde_json::json;

pub struct C08;

/// A captured shape: declarations, constructor expression, probe expression over `{x}` (an int that
/// depends on every mutable int inside), and the mutations applicable to a variable `{x}` of that
/// shape, each with the probe value it leads to (from the initial value).
#[derive(Clone)]
pub struct Shape {
    pub name: String,
    pub decls: Vec<String>,
    pub ctor: String,
    pub probe: String,
    pub initial: i64,
    /// (label, statement template over {x}, probe value after applying it to the initial value)
    pub muts: Vec<(String, String, i64)>,
}

fn inner_kinds() -> Vec<Shape> {
    vec![
        Shape {
            name: "array<int>".into(),
            decls: vec![],
            ctor: "[1, 2]".into(),
            probe: "({x}[0] * 10 + {x}.len())".into(),
            initial: 12,
            muts: vec![("set-elem".into(), "{x}[0] = 7".into(), 72), ("push".into(), "{x}.push(5)".into(), 13)],
        },
        Shape {
            name: "struct".into(),
            decls: vec!["type Pt = {\n  a: int\n  b: int\n}".into()],
            ctor: "Pt(1, 2)".into(),
            probe: "({x}.a * 10 + {x}.b)".into(),
            initial: 12,
            muts: vec![("set-field".into(), "{x}.a = 7".into(), 72)],
        },
        Shape {
            name: "tuple".into(),
            decls: vec!["fn ptup(t: (int, int)) -> int {\n  let (p, q) = t\n  p * 10 + q\n}".into()],
            ctor: "(1, 2)".into(),
            probe: "ptup({x})".into(),
            initial: 12,
            muts: vec![],
        },
        Shape {
            name: "enum".into(),
            decls: vec!["type Ev = Aa(int) | Bb".into(), "fn pen(e: Ev) -> int {\n  match e {\n    .Aa(k) -> k\n    .Bb -> 0\n  }\n}".into()],
            ctor: "Ev.Aa(12)".into(),
            probe: "pen({x})".into(),
            initial: 12,
            muts: vec![],
        },
        Shape {
            name: "string".into(),
            decls: vec!["fn pstr(s: string) -> int {\n  if s == \"st\" {\n    12\n  } else {\n    0\n  }\n}".into()],
            ctor: "(\"s\" .. \"t\")".into(),
            probe: "pstr({x})".into(),
            initial: 12,
            muts: vec![],
        },
    ]
}

pub fn shapes() -> Vec<Shape> {
    let inner = inner_kinds();
    let mut v: Vec<Shape> = inner.clone();
    // closure capturing an int and an array
    v.push(Shape {
        name: "closure".into(),
        decls: vec![],
        ctor: "mkclo()".into(),
        probe: "{x}()".into(),
        initial: 12,
        muts: vec![],
    });
    v.last_mut().unwrap().decls.push("fn mkclo() {\n  let k = 2\n  let arr = [1]\n  () -> arr[0] * 10 + k\n}".into());
    for (ci, inn) in inner.iter().enumerate() {
        let ity = match ci {
            0 => "array<int>",
            1 => "Pt",
            2 => "(int, int)",
            3 => "Ev",
            _ => "string",
        };
        let ip = |path: &str| inn.probe.replace("{x}", path);
        let im = |path: &str| -> Vec<(String, String, i64)> {
            inn.muts.iter().map(|(l, t, r)| (format!("inner-{l}"), t.replace("{x}", path), *r)).collect()
        };
        // array of inner
        let mut muts = im("{x}[0]");
        muts.push(("push-inner".into(), format!("{{x}}.push({})", inn.ctor), inn.initial + 1000));
        v.push(Shape {
            name: format!("array<{}>", inn.name),
            decls: inn.decls.clone(),
            ctor: format!("[{}]", inn.ctor),
            probe: format!("({} + ({{x}}.len() - 1) * 1000)", ip("{x}[0]")),
            initial: inn.initial,
            muts,
        });
        // struct with an inner field
        let sname = format!("Sf{ci}");
        let mut decls = inn.decls.clone();
        decls.push(format!("type {sname} = {{\n  f: {ity}\n  n: int\n}}"));
        let mut muts = im("{x}.f");
        muts.push(("set-int-field".into(), "{x}.n = 1".into(), inn.initial + 1000));
        v.push(Shape {
            name: format!("struct{{f: {}}}", inn.name),
            decls,
            ctor: format!("{sname}({}, 0)", inn.ctor),
            probe: format!("({} + {{x}}.n * 1000)", ip("{x}.f")),
            initial: inn.initial,
            muts,
        });
        // tuple (inner, int): mutate through a destructured alias
        let mut decls = inn.decls.clone();
        decls.push(format!("fn ptupi{ci}(t: ({ity}, int)) -> int {{\n  let (p, q) = t\n  {} + q * 1000\n}}", ip("p")));
        let muts: Vec<(String, String, i64)> = inn
            .muts
            .iter()
            .map(|(l, t, r)| (format!("inner-{l}-via-destructure"), format!("let (pp, qq) = {{x}}\n  {}", t.replace("{x}", "pp")), *r))
            .collect();
        v.push(Shape {
            name: format!("tuple({}, int)", inn.name),
            decls,
            ctor: format!("({}, 0)", inn.ctor),
            probe: format!("ptupi{ci}({{x}})"),
            initial: inn.initial,
            muts,
        });
        // enum payload
        let ename = format!("Ew{ci}");
        let mut decls = inn.decls.clone();
        decls.push(format!("type {ename} = Ca({ity}) | Cb"));
        decls.push(format!("fn pew{ci}(e: {ename}) -> int {{\n  match e {{\n    .Ca(p) -> {}\n    .Cb -> 0\n  }}\n}}", ip("p")));
        let muts: Vec<(String, String, i64)> = inn
            .muts
            .iter()
            .map(|(l, t, r)| (format!("inner-{l}-via-match"), format!("match {{x}} {{\n    .Ca(pp) -> {{\n      {}\n    }}\n    .Cb -> nil\n  }}", t.replace("{x}", "pp")), *r))
            .collect();
        v.push(Shape { name: format!("enum({})", inn.name), decls, ctor: format!("{ename}.Ca({})", inn.ctor), probe: format!("pew{ci}({{x}})"), initial: inn.initial, muts });
    }
    // a variant whose payload is directly another variant, with a mutable array two levels down
    let nested: [(&str, &str, &str, &str, &str); 3] = [
        ("option<option<array<int>>>", "", "option<option<array<int>>>", "option.some(option.some([1, 2]))", ".some(i) -> match i {\n      .some(a) -> BODY\n      .none -> NONE\n    }\n    .none -> NONE"),
        ("result<option<array<int>>, int>", "", "result<option<array<int>>, int>", "result.ok(option.some([1, 2]))", ".ok(i) -> match i {\n      .some(a) -> BODY\n      .none -> NONE\n    }\n    .err(_) -> NONE"),
        ("Wr(Lf(array<int>)) (user enums)", "type Lf = Leaf(array<int>) | Nul\ntype Wr = Wrap(Lf) | Emp", "Wr", "Wr.Wrap(Lf.Leaf([1, 2]))", ".Wrap(i) -> match i {\n      .Leaf(a) -> BODY\n      .Nul -> NONE\n    }\n    .Emp -> NONE"),
    ];
    for (k, (name, tydecl, ty, ctor, arms)) in nested.iter().enumerate() {
        let mut decls: Vec<String> = vec![];
        if !tydecl.is_empty() {
            decls.push(tydecl.to_string());
        }
        decls.push(format!("fn pnv{k}(o: {ty}) -> int {{\n  match o {{\n    {}\n  }}\n}}", arms.replace("BODY", "a[0] * 10 + a[1]").replace("NONE", "0")));
        decls.push(format!("fn snv{k}(o: {ty}) -> int {{\n  match o {{\n    {}\n  }}\n}}", arms.replace("BODY", "{\n        a[0] = 7\n        1\n      }").replace("NONE", "0")));
        v.push(Shape {
            name: name.to_string(),
            decls,
            ctor: ctor.to_string(),
            probe: format!("pnv{k}({{x}})"),
            initial: 12,
            muts: vec![("inner-set-elem".into(), format!("snv{k}({{x}})"), 72)],
        });
    }
    v
}

#[derive(Clone)]
pub struct Prog8 {
    pub name: String,
    pub text: String,
    pub expect: Vec<Emit>,
}

/// who mutates: task (index into muts or none) × spawner (index or none, or reassigns the variable)
pub fn programs() -> Vec<Prog8> {
    let mut out = vec![];
    for sh in shapes() {
        let n = sh.muts.len();
        let mut choices: Vec<Option<usize>> = vec![None];
        choices.extend((0..n).map(Some));
        for tm in &choices {
            for sm in &choices {
                for reassign in [false, true] {
                    if reassign && sm.is_some() {
                        continue;
                    }
                    let mut decls: Vec<String> = vec![];
                    for d in &sh.decls {
                        if !decls.contains(d) {
                            decls.push(d.clone());
                        }
                    }
                    let x = "xx";
                    let mut t = String::from("use vh\n");
                    for d in &decls {
                        t.push_str(d);
                        t.push('\n');
                    }
                    t.push_str(&format!("{} {x} = {}\n", if reassign { "var" } else { "let" }, sh.ctor));
                    t.push_str("let go: channel<int> = channel()\nlet back: channel<int> = channel()\n");
                    t.push_str("task {\n  let g = go.read()\n");
                    let mut task_view = sh.initial;
                    if let Some(i) = tm {
                        t.push_str(&format!("  {}\n", sh.muts[*i].1.replace("{x}", x)));
                        task_view = sh.muts[*i].2;
                    }
                    t.push_str(&format!("  back.write({})\n}}\n", sh.probe.replace("{x}", x)));
                    let mut spawner_view = sh.initial;
                    if let Some(i) = sm {
                        // spawner-side mutation happens at top level (2-space indent harmless)
                        t.push_str(&format!("{}\n", sh.muts[*i].1.replace("{x}", x).replace("\n  ", "\n")));
                        spawner_view = sh.muts[*i].2;
                    }
                    if reassign {
                        // a different value of the same shape: build it and mutate if possible, else same ctor
                        t.push_str(&format!("{x} = {}\n", sh.ctor));
                        if n > 0 {
                            t.push_str(&format!("{}\n", sh.muts[0].1.replace("{x}", x).replace("\n  ", "\n")));
                            spawner_view = sh.muts[0].2;
                        }
                    }
                    t.push_str("go.write(0)\nlet tv = back.read()\nvh_emit_int(tv)\n");
                    t.push_str(&format!("vh_emit_int({})\n", sh.probe.replace("{x}", x)));
                    let name = format!(
                        "capture {} | task: {} | spawner: {}{}",
                        sh.name,
                        tm.map(|i| sh.muts[i].0.clone()).unwrap_or("reads".into()),
                        sm.map(|i| sh.muts[i].0.clone()).unwrap_or("reads".into()),
                        if reassign { " + reassigns the variable" } else { "" }
                    );
                    out.push(Prog8 { name, text: t, expect: vec![Emit::Int(task_view), Emit::Int(spawner_view)] });
                }
            }
        }
    }
    // captures that reach the same heap object more than once (shared rows, two names for one array,
    // a tuple / struct holding one array twice): EVERY occurrence must be a copy. Whether the copy
    // preserves the sharing between occurrences is not specified, so the task only reports the
    // occurrence it mutated.
    let head = "use vh\nlet go: channel<int> = channel()\nlet back: channel<int> = channel()\n";
    let tail = "go.write(0)\nlet tv = back.read()\nvh_emit_int(tv)\n";
    for (occ, idx) in [("first", 0), ("second", 1)] {
        out.push(Prog8 {
            name: format!("capture array holding one row twice | task: mutates the {occ} occurrence | spawner: reads"),
            text: format!("{head}let row = [0, 0]\nlet grid = [row, row]\ntask {{\n  let g = go.read()\n  grid[{idx}][1] = 9\n  back.write(grid[{idx}][1])\n}}\n{tail}vh_emit_int(row[1] * 100 + grid[0][1] * 10 + grid[1][1])\n"),
            expect: vec![Emit::Int(9), Emit::Int(0)],
        });
        out.push(Prog8 {
            name: format!("capture tuple holding one array twice | task: mutates the {occ} component | spawner: reads"),
            text: format!("{head}let a = [1]\nlet t = (a, a)\ntask {{\n  let g = go.read()\n  let (p, q) = t\n  {}[0] = 9\n  back.write({}[0])\n}}\n{tail}vh_emit_int(a[0])\n", ["p", "q"][idx], ["p", "q"][idx]),
            expect: vec![Emit::Int(9), Emit::Int(1)],
        });
        out.push(Prog8 {
            name: format!("capture two names for one array | task: mutates through the {occ} name | spawner: reads"),
            text: format!("{head}let a = [1]\nlet b = a\ntask {{\n  let g = go.read()\n  let keep = a.len() + b.len()\n  {}[0] = 9\n  back.write({}[0])\n}}\n{tail}vh_emit_int(a[0] * 10 + b[0])\n", ["a", "b"][idx], ["a", "b"][idx]),
            expect: vec![Emit::Int(9), Emit::Int(11)],
        });
        out.push(Prog8 {
            name: format!("capture struct whose two fields hold one array | task: mutates the {occ} field | spawner: reads"),
            text: format!("{head}type Two = {{\n  l: array<int>\n  r: array<int>\n}}\nlet a = [1]\nlet s = Two(a, a)\ntask {{\n  let g = go.read()\n  s.{}[0] = 9\n  back.write(s.{}[0])\n}}\n{tail}vh_emit_int(a[0] * 100 + s.l[0] * 10 + s.r[0])\n", ["l", "r"][idx], ["l", "r"][idx]),
            expect: vec![Emit::Int(9), Emit::Int(111)],
        });
    }
    // channels are the exception: a captured channel is the same channel (two-way traffic through captured channels)
    out.push(Prog8 {
        name: "capture channel | both ends shared".into(),
        text: "use vh\nlet c: channel<int> = channel()\nlet d: channel<int> = channel()\ntask {\n  let v = c.read()\n  d.write(v + 1)\n}\nc.write(41)\nvh_emit_int(d.read())\nvh_emit_int(0)\n".into(),
        expect: vec![Emit::Int(42), Emit::Int(0)],
    });
    out.push(Prog8 {
        name: "capture channel inside an array | still shared".into(),
        text: "use vh\nlet c: channel<int> = channel()\nlet box = [c]\ntask {\n  box[0].write(5)\n}\nvh_emit_int(c.read())\nvh_emit_int(box.len())\n".into(),
        expect: vec![Emit::Int(5), Emit::Int(1)],
    });
    out
}

const PER_UNIT: usize = 8;
const BUDGETS: [u32; 6] = [1, 2, 3, 7, 64, 1000];

impl Prop for C08 {
    fn id(&self) -> &'static str {
        "C08"
    }
    fn level(&self) -> &'static str {
        "model_checking"
    }
    fn n_units(&self, _tier: Tier) -> usize {
        programs().len().div_ceil(PER_UNIT)
    }
    fn expected_evaluations(&self, _tier: Tier) -> Option<u64> {
        None
    }
    fn run_unit(&self, tier: Tier, unit: usize, out: &mut UnitOut) {
        let all = programs();
        let lo = unit * PER_UNIT;
        let hi = (lo + PER_UNIT).min(all.len());
        for (k, p) in all[lo..hi].iter().enumerate() {
            if !out.begin_case(k as u64) {
                continue;
            }
            out.describe_case(&format!("{}\n{}", p.name, p.text));
            let mut fail = |out: &mut UnitOut, key: String, what: String, obs: String| {
                out.class("violation");
                out.violation(
                    vec![format!("input:{}", hkey(&key))],
                    format!("{}: {what}", p.name),
                    json!({"case": p.name, "program": p.text, "expected_emits(task view, spawner view)": format!("{:?}", p.expect), "observed": obs}),
                );
            };
            let ep = match embed::compile_eprog(&p.name, &p.text, vec![], vec![]) {
                Ok(e) => e,
                Err(e) => {
                    fail(out, format!("{}|compile", p.name), format!("program rejected: {e}"), e.clone());
                    continue;
                }
            };
            out.nontrivial_text(&p.text);
            if k == 0 {
                out.sample(json!({"case": p.name, "program": p.text, "expected": format!("{:?}", p.expect)}));
            }
            let mut bad: Option<(String, String)> = None;
            for b in BUDGETS {
                let x = embed::execute_uniform(&ep, b, 200_000);
                out.evaluations += 1;
                out.states += 1;
                out.traces += 1;
                if (x.obs.end != End::Done || x.obs.emits != p.expect) && bad.is_none() {
                    bad = Some((format!("uniform budget {b}"), format!("end={} emits={:?}", end_s(&x.obs.end), x.obs.emits)));
                }
            }
            let bound = tier.pick(1, 2);
            let (count, capped) = embed::explore(&ep, bound, 200_000, tier.pick(5_000, 300_000), &mut |x| {
                if (x.obs.end != End::Done || x.obs.emits != p.expect) && bad.is_none() {
                    bad = Some((embed::fmt_choices(x), format!("end={} emits={:?}", end_s(&x.obs.end), x.obs.emits)));
                }
            });
            out.evaluations += count;
            out.states += count;
            out.traces += count;
            out.transitions += count * 50;
            if capped {
                out.count("programs_with_execution_cap_hit", 1);
            }
            match bad {
                None => out.class(&format!("isolated:{}", p.name.split('|').next().unwrap_or("").trim().split(' ').nth(1).unwrap_or("?").split(['<', '(', '{']).next().unwrap_or("?"))),
                Some((sch, obs)) => fail(out, format!("{}|{sch}", p.name), format!("under [{sch}] observed {obs}, expected emits {:?} (task's view, spawner's view)", p.expect), obs.clone()),
            }
        }
    }
    fn rule(&self, tier: Tier) -> String {
        format!(
            "{} programs: captured shape in {{array<int>, struct, tuple, enum, string, closure}} and each of the five data kinds nested once inside {{array, struct field, tuple, enum payload}} (26 shapes), plus 3 shapes in which a variant's payload is directly another variant with an array below \
             x mutation performed by the task (none / each applicable mutation of the shape) x mutation performed by the spawner after the spawn (none / each / reassigning the variable), both sides observed through channels \
             (task's view, spawner's view); plus two programs where the captured value is or contains a channel (must stay shared). Each program under uniform budgets {:?} and ALL embedder executions with <= {} deviation(s) \
             (execution cap {} per program). Model: deep copy at spawn.",
            programs().len(),
            BUDGETS,
            tier.pick(1, 2),
            tier.pick(5_000, 300_000)
        )
    }
    fn assumptions(&self) -> Vec<String> {
        vec!["tasks are spawned at top level; immutable kinds (tuple, enum value, string, closure) are checked for value preservation and, when they contain a mutable part, for isolation of that part".into()]
    }
}

fn end_s(e: &End) -> String {
    match e {
        End::Error { kind, text } => format!("error:{kind} ({})", text.lines().next().unwrap_or("")),
        End::Fault(p) => format!("fault at {}: {}", p.site, p.msg.lines().next().unwrap_or("")),
        End::InternalError { text } => format!("internal error: {}", text.lines().next().unwrap_or("")),
        o => o.class(),
    }
}
