//! C16 — float arithmetic, conversions and comparisons follow the spec.
//!
//! Universe: a boundary set F of binary64 values (signed zeros, subnormals, overflow-producing
//! magnitudes, integers around 2^53 / 2^63, NaNs, infinities, a structured set of exponent/mantissa
//! corner patterns) fully crossed (F × F) with `+ - * / ^` in six operand forms (host-fed variables,
//! literals, compound assignment), the six comparison operators in four forms, every float intrinsic
//! of the prelude on F, `atan2`/`.pow` on F × F, `float_from_int` on the C15 integer grid and
//! `int_from_float` on F. Results are observed bit-exactly through `vh_emit_float`.
//!
//! Model: Rust `f64` (IEEE-754 binary64). A generated NaN may be any NaN (IEEE-754 leaves sign and
//! payload open). Division by ±0.0 is a division-by-zero error in every form. Comparisons are judged
//! against the *property* (one consistent total order that extends the numeric order), not against a
//! particular implementation: per pair the six operators must be mutually consistent, the relation
//! must be antisymmetric and transitive over the whole grid, and every operand form must agree with
//! the host-fed-variable form. Where the order places -0.0 vs +0.0 and the NaNs is not asserted.

use super::floatlit_util::{Exp, Want, fail, flit, fname, judge_want, show_emits};
use crate::batch::{Case, CaseResult, int_lit, run_cases};
use crate::drive::{COpts, Emit, End, Input, ROpts};
use crate::fw::{Prop, Tier, UnitOut};
use serde_json::json;

pub struct C16;

const QNAN: u64 = 0x7ff8_0000_0000_0000;
const NQNAN: u64 = 0xfff8_0000_0000_0000;

pub fn grid(tier: Tier) -> Vec<f64> {
    let b = f64::from_bits;
    let mut v: Vec<f64> = vec![
        0.0,
        -0.0,
        5e-324,
        -5e-324,
        f64::MIN_POSITIVE,
        -f64::MIN_POSITIVE,
        b(0x000f_ffff_ffff_ffff), // largest subnormal
        0.5,
        -0.5,
        1.0,
        -1.0,
        1.5,
        -1.5,
        2.0,
        -2.0,
        3.0,
        2.5,
        10.0,
        0.1,
        0.2,
        0.3,
        1e-5,
        1e-300,
        9007199254740991.0, // 2^53 - 1
        9007199254740992.0, // 2^53
        9007199254740994.0, // 2^53 + 2
        1e16,
        1e308,
        -1e308,
        f64::MAX,
        -f64::MAX,
        1.3407807929942597e154, // 2^512: squares to +inf
        9223372036854775808.0,  // 2^63
        -9223372036854775808.0,
        f64::INFINITY,
        f64::NEG_INFINITY,
        b(QNAN),
        b(NQNAN),
    ];
    if tier == Tier::Thorough {
        v.extend([
            -3.0,
            7.0,
            -7.0,
            4.0,
            0.25,
            0.75,
            100.0,
            -0.1,
            -2.5,
            -1e-5,
            1.0 / 3.0,
            2.0 / 3.0,
            std::f64::consts::PI,
            std::f64::consts::E,
            0.30000000000000004,
            1e22,
            1e23,
            1e-308,
            123456.789,
            1000000000000000.2,
            b(2),
            b(0x0010_0000_0000_0001),
            4503599627370496.0, // 2^52
            4503599627370495.5,
            8.98846567431158e307, // 2^1023
            f64::MAX / 2.0,
            1.3407807929942596e154, // sqrt(MAX)
            2147483648.0,
            4294967296.0,
            4611686018427387904.0,
            18446744073709551616.0,
            9223372036854774784.0, // largest below 2^63
            -9223372036854774784.0,
        ]);
        // structured corner patterns: sign x exponent x mantissa
        for s in [0u64, 1] {
            for e in [0u64, 1, 1022, 1023, 1024, 2046, 2047] {
                for m in [0u64, 1, 0x8_0000_0000_0000, 0xf_ffff_ffff_ffff] {
                    v.push(b((s << 63) | (e << 52) | m));
                }
            }
        }
    }
    // dedupe by bit pattern, keep first occurrence order
    let mut seen = std::collections::BTreeSet::new();
    v.retain(|x| seen.insert(x.to_bits()));
    v
}

const OPS: [&str; 5] = ["+", "-", "*", "/", "^"];
const FORMS: [&str; 7] =
    ["var∘var", "lit∘lit", "var∘lit", "lit∘var", "var op= var", "var op= lit", "lit∘lit (optimizer off)"];

fn arith_units(tier: Tier) -> Vec<(usize, usize)> {
    let mut u = vec![];
    let nforms = tier.pick(6, 7);
    for (oi, op) in OPS.iter().enumerate() {
        for f in 0..nforms {
            if *op == "^" && (f == 4 || f == 5) {
                continue; // there is no `^=`
            }
            u.push((oi, f));
        }
    }
    u
}

fn val(r: f64) -> Exp {
    if r.is_nan() { Exp::Done(vec![Want::FloatNaN]) } else { Exp::Done(vec![Want::Float(r.to_bits())]) }
}

pub fn model_bin(op: &str, a: f64, b: f64) -> Exp {
    match op {
        "+" => val(a + b),
        "-" => val(a - b),
        "*" => val(a * b),
        "/" => {
            if b == 0.0 {
                Exp::Err("div-zero")
            } else {
                val(a / b)
            }
        }
        "^" => val(a.powf(b)),
        _ => unreachable!(),
    }
}

fn class_of(e: &Exp) -> &'static str {
    match e {
        Exp::Err(k) => k,
        Exp::Done(w) => match w.first() {
            Some(Want::FloatNaN) => "nan",
            Some(Want::Float(b)) => {
                let f = f64::from_bits(*b);
                if f.is_infinite() {
                    "inf"
                } else if f == 0.0 {
                    if f.is_sign_negative() { "neg-zero" } else { "zero" }
                } else if f.is_subnormal() {
                    "subnormal"
                } else {
                    "finite"
                }
            }
            Some(Want::FloatAny(_)) => "finite",
            Some(Want::Int(_)) => "int",
            _ => "value",
        },
        Exp::Reject => "rejected",
        Exp::DoneOrReject(_) => "value-or-rejected",
        Exp::Unspecified => "unspecified",
    }
}

fn make_arith(op: &str, form: usize, a: f64, b: f64) -> Option<Case> {
    let name = format!("float {} {op} {} [{}]", fname(a), fname(b), FORMS[form]);
    let (body, inputs) = match form {
        0 => (
            format!("let a = vh_next_float()\nlet b = vh_next_float()\nvh_emit_float(a {op} b)"),
            vec![Input::Float(a), Input::Float(b)],
        ),
        1 | 6 => (format!("vh_emit_float({} {op} {})", flit(a)?, flit(b)?), vec![]),
        2 => (format!("let a = vh_next_float()\nvh_emit_float(a {op} {})", flit(b)?), vec![Input::Float(a)]),
        3 => (format!("let b = vh_next_float()\nvh_emit_float({} {op} b)", flit(a)?), vec![Input::Float(b)]),
        4 => (
            format!("var a = vh_next_float()\nlet b = vh_next_float()\na {op}= b\nvh_emit_float(a)"),
            vec![Input::Float(a), Input::Float(b)],
        ),
        _ => (format!("var a = vh_next_float()\na {op}= {}\nvh_emit_float(a)", flit(b)?), vec![Input::Float(a)]),
    };
    let mut c = Case::new(name, body);
    c.inputs = inputs;
    Some(c)
}

// ---------------------------------------------------------------- comparisons

const CMP: [&str; 6] = ["==", "!=", "<", "<=", ">", ">="];
const CFORMS: [&str; 4] = ["var∘var", "lit∘lit", "var∘lit", "lit∘var"];

fn make_cmp(form: usize, a: f64, b: f64) -> Option<Case> {
    let name = format!("float-cmp {} ? {} [{}]", fname(a), fname(b), CFORMS[form]);
    let (pre, x, y, inputs) = match form {
        0 => (
            "let a = vh_next_float()\nlet b = vh_next_float()\n".to_string(),
            "a".to_string(),
            "b".to_string(),
            vec![Input::Float(a), Input::Float(b)],
        ),
        1 => (String::new(), flit(a)?, flit(b)?, vec![]),
        2 => ("let a = vh_next_float()\n".to_string(), "a".to_string(), flit(b)?, vec![Input::Float(a)]),
        _ => ("let b = vh_next_float()\n".to_string(), flit(a)?, "b".to_string(), vec![Input::Float(b)]),
    };
    let mut body = pre;
    for op in CMP {
        body.push_str(&format!("vh_emit_bool({x} {op} {y})\n"));
    }
    let mut c = Case::new(name, body.trim_end().to_string());
    c.inputs = inputs;
    Some(c)
}

/// the order is pinned by the numeric order unless a NaN or two zeros are involved
fn determined(a: f64, b: f64) -> bool {
    !(a.is_nan() || b.is_nan() || (a == 0.0 && b == 0.0))
}

/// observed six booleans (== != < <= > >=) of a comparison case, or None after reporting
fn cmp_obs(out: &mut UnitOut, c: &Case, r: &CaseResult) -> Option<[bool; 6]> {
    match r {
        CaseResult::Ran(o) if o.end == End::Done && o.emits.len() == 6 && o.emits.iter().all(|e| matches!(e, Emit::Bool(_))) => {
            let mut v = [false; 6];
            for (i, e) in o.emits.iter().enumerate() {
                if let Emit::Bool(b) = e {
                    v[i] = *b;
                }
            }
            Some(v)
        }
        _ => {
            // faults, diagnostics, wrong shape: let the generic judge describe it
            judge_want(out, c, r, &Exp::Done(vec![Want::Bool(true); 6]), "cmp");
            None
        }
    }
}

/// per-pair consistency of the six operators with one total (pre)order
fn pair_laws(v: &[bool; 6]) -> Option<&'static str> {
    let (eq, ne, lt, le, gt, ge) = (v[0], v[1], v[2], v[3], v[4], v[5]);
    if (eq as u8 + lt as u8 + gt as u8) != 1 {
        return Some("exactly one of a<b, a==b, a>b must hold (trichotomy)");
    }
    if ne == eq {
        return Some("a != b must be the negation of a == b");
    }
    if le != (lt || eq) {
        return Some("a <= b must equal (a < b or a == b)");
    }
    if ge != (gt || eq) {
        return Some("a >= b must equal (a > b or a == b)");
    }
    None
}

fn run_cmp_unit(tier: Tier, form: usize, out: &mut UnitOut) {
    let g = grid(tier);
    let n = g.len();
    // main cases: all pairs in this form; reference cases: undetermined pairs in var∘var form
    let mut cases = vec![];
    let mut meta: Vec<(usize, usize, bool)> = vec![]; // (i, j, is_reference)
    for i in 0..n {
        for j in 0..n {
            if let Some(c) = make_cmp(form, g[i], g[j]) {
                cases.push(c);
                meta.push((i, j, false));
            }
        }
    }
    if form != 0 {
        for i in 0..n {
            for j in 0..n {
                if !determined(g[i], g[j]) && flit(g[i]).is_some() && flit(g[j]).is_some() {
                    let mut c = make_cmp(0, g[i], g[j]).unwrap();
                    c.name = format!("{} (reference for {})", c.name, CFORMS[form]);
                    cases.push(c);
                    meta.push((i, j, true));
                }
            }
        }
    }
    let mut mat: Vec<Option<[bool; 6]>> = vec![None; n * n];
    let mut refm: Vec<Option<[bool; 6]>> = vec![None; n * n];
    let mut tc_agree = 0i64;
    let mut tc_differ = 0i64;
    run_cases(out, 0, &cases, 300, COpts::default(), ROpts::default(), |out, k, c, r| {
        let (i, j, is_ref) = meta[k];
        let (a, b) = (g[i], g[j]);
        out.nontrivial_text(&c.name);
        if k % 1499 == 0 {
            out.sample(json!({"case": c.name, "body": c.body}));
        }
        let Some(v) = cmp_obs(out, c, r) else { return };
        if is_ref {
            refm[i * n + j] = Some(v);
            out.class("reference");
            return;
        }
        mat[i * n + j] = Some(v);
        if let Some(law) = pair_laws(&v) {
            fail(out, c, &format!("six operators consistent with one total order: {law}"), format!("== != < <= > >= = {v:?}"), vec![]);
            return;
        }
        if determined(a, b) {
            let want = [a == b, a != b, a < b, a <= b, a > b, a >= b];
            if v != want {
                fail(out, c, &format!("numeric order {want:?} (== != < <= > >=)"), format!("{v:?}"), vec![]);
                return;
            }
            out.class(if a < b { "less" } else if a > b { "greater" } else { "equal" });
        } else {
            if a.to_bits() == b.to_bits() && !v[0] {
                fail(out, c, "a == a (a total order is reflexive)", format!("{v:?}"), vec![]);
                return;
            }
            out.class(if v[0] { "undetermined:equal" } else if v[2] { "undetermined:less" } else { "undetermined:greater" });
        }
        let t = a.total_cmp(&b);
        if v[0] == t.is_eq() && v[2] == t.is_lt() {
            tc_agree += 1;
        } else {
            tc_differ += 1;
        }
    });
    out.count("cells_agreeing_with_total_cmp", tc_agree);
    out.count("cells_differing_from_total_cmp", tc_differ);
    // cross-cell laws (only over cells that were executed: a replay of one case has a partial matrix)
    let law_fail = |out: &mut UnitOut, text: String, detail: String| {
        let name = format!("float-cmp law [{}] {text}", CFORMS[form]);
        let c = Case::new(name, detail.clone());
        fail(out, &c, "comparison results consistent with a single total order over the whole grid", detail, vec![]);
    };
    let mut checked = 0i64;
    for i in 0..n {
        for j in 0..n {
            let (Some(x), Some(y)) = (mat[i * n + j], mat[j * n + i]) else { continue };
            checked += 1;
            // antisymmetry / symmetry: a<b iff b>a, a==b iff b==a
            if x[2] != y[4] || x[0] != y[0] {
                law_fail(
                    out,
                    format!("antisymmetry {} vs {}", fname(g[i]), fname(g[j])),
                    format!("a?b = {x:?}, b?a = {y:?} (order == != < <= > >=)"),
                );
            }
            if let Some(rf) = refm[i * n + j] {
                if rf != x {
                    law_fail(
                        out,
                        format!("form disagreement {} vs {}", fname(g[i]), fname(g[j])),
                        format!("{} gives {x:?}, var∘var gives {rf:?}", CFORMS[form]),
                    );
                }
            }
        }
    }
    // transitivity of < and of == (the form's own matrix)
    let lt = |i: usize, j: usize| mat[i * n + j].map(|v| v[2]);
    let eq = |i: usize, j: usize| mat[i * n + j].map(|v| v[0]);
    let mut trans_fail = 0;
    'outer: for i in 0..n {
        for j in 0..n {
            for k in 0..n {
                if let (Some(ab), Some(bc), Some(ac)) = (lt(i, j), lt(j, k), lt(i, k)) {
                    checked += 1;
                    if ab && bc && !ac {
                        law_fail(
                            out,
                            format!("transitivity of < at {} {} {}", fname(g[i]), fname(g[j]), fname(g[k])),
                            "a<b and b<c but not a<c".into(),
                        );
                        trans_fail += 1;
                    }
                }
                if let (Some(ab), Some(bc), Some(ac), Some(lac)) = (eq(i, j), lt(j, k), lt(i, k), eq(j, k)) {
                    // == is a congruence for <, and transitive
                    if ab && bc != ac {
                        law_fail(
                            out,
                            format!("congruence of == at {} {} {}", fname(g[i]), fname(g[j]), fname(g[k])),
                            "a==b but (b<c) differs from (a<c)".into(),
                        );
                        trans_fail += 1;
                    }
                    if ab && lac && eq(i, k) == Some(false) {
                        law_fail(
                            out,
                            format!("transitivity of == at {} {} {}", fname(g[i]), fname(g[j]), fname(g[k])),
                            "a==b and b==c but not a==c".into(),
                        );
                        trans_fail += 1;
                    }
                }
                if trans_fail > 20 {
                    break 'outer;
                }
            }
        }
    }
    out.count("cross_cell_law_checks", checked);
}

// ---------------------------------------------------------------- unary intrinsics, negation

type F1 = fn(f64) -> f64;
const UNARY: [(&str, F1, bool); 13] = [
    ("sqrt", f64::sqrt, true),
    ("floor", f64::floor, true),
    ("ceil", f64::ceil, true),
    ("round", f64::round, true),
    ("sin", f64::sin, false),
    ("cos", f64::cos, false),
    ("tan", f64::tan, false),
    ("asin", f64::asin, false),
    ("acos", f64::acos, false),
    ("atan", f64::atan, false),
    ("log", f64::ln, false),
    ("log2", f64::log2, false),
    ("log10", f64::log10, false),
];

fn model_unary(name: &str, f: F1, a: f64) -> Exp {
    let r = f(a);
    if name == "round" && a.is_finite() && (a - a.trunc()).abs() == 0.5 {
        // tie: the manual does not say which way; IEEE-754 defines both roundings
        return Exp::Done(vec![Want::FloatAny(vec![a.round().to_bits(), a.round_ties_even().to_bits()])]);
    }
    val(r)
}

fn neg_model(a: f64) -> Exp {
    if a.is_nan() { Exp::Done(vec![Want::FloatNaN]) } else { Exp::Done(vec![Want::Float((-a).to_bits())]) }
}

fn unary_cases(tier: Tier) -> (Vec<Case>, Vec<Exp>) {
    let g = grid(tier);
    let mut cases = vec![];
    let mut exps = vec![];
    let mut push = |name: String, body: String, inputs: Vec<Input>, e: Exp| {
        let mut c = Case::new(name, body);
        c.inputs = inputs;
        cases.push(c);
        exps.push(e);
    };
    for (fname_, f, has_method) in UNARY {
        for a in &g {
            let e = model_unary(fname_, f, *a);
            push(
                format!("float {fname_}({}) [var]", fname(*a)),
                format!("let a = vh_next_float()\nvh_emit_float({fname_}(a))"),
                vec![Input::Float(*a)],
                e.clone(),
            );
            if let Some(l) = flit(*a) {
                push(format!("float {fname_}({}) [lit]", fname(*a)), format!("vh_emit_float({fname_}({l}))"), vec![], e.clone());
            }
            if has_method {
                push(
                    format!("float {}.{fname_}() [var method]", fname(*a)),
                    format!("let a = vh_next_float()\nvh_emit_float(a.{fname_}())"),
                    vec![Input::Float(*a)],
                    e.clone(),
                );
                if let Some(l) = flit(*a) {
                    push(
                        format!("float {}.{fname_}() [lit method]", fname(*a)),
                        format!("vh_emit_float(({l}).{fname_}())"),
                        vec![],
                        e.clone(),
                    );
                }
            }
        }
    }
    // unary minus
    for a in &g {
        let e = neg_model(*a);
        push(
            format!("float -({}) [var]", fname(*a)),
            "let a = vh_next_float()\nvh_emit_float(-a)".into(),
            vec![Input::Float(*a)],
            e.clone(),
        );
        push(
            format!("float -({}) [var, twice]", fname(*a)),
            "let a = vh_next_float()\nlet b = -a\nvh_emit_float(-b)".into(),
            vec![Input::Float(*a)],
            if a.is_nan() { Exp::Done(vec![Want::FloatNaN]) } else { Exp::Done(vec![Want::Float(a.to_bits())]) },
        );
        if let Some(l) = flit(*a) {
            let paren = if l.starts_with('(') { l.clone() } else { format!("({l})") };
            push(format!("float -({}) [lit in parens]", fname(*a)), format!("vh_emit_float(-{paren})"), vec![], e.clone());
        }
    }
    (cases, exps)
}

// ---------------------------------------------------------------- atan2 / pow

fn binfn_cases(tier: Tier) -> (Vec<Case>, Vec<Exp>) {
    let g = grid(tier);
    let mut cases = vec![];
    let mut exps = vec![];
    for a in &g {
        for b in &g {
            let e = val(a.atan2(*b));
            let mut c = Case::new(
                format!("float atan2({}, {}) [var,var]", fname(*a), fname(*b)),
                "let a = vh_next_float()\nlet b = vh_next_float()\nvh_emit_float(atan2(a, b))",
            );
            c.inputs = vec![Input::Float(*a), Input::Float(*b)];
            cases.push(c);
            exps.push(e.clone());
            if let (Some(la), Some(lb)) = (flit(*a), flit(*b)) {
                cases.push(Case::new(
                    format!("float atan2({}, {}) [lit,lit]", fname(*a), fname(*b)),
                    format!("vh_emit_float(atan2({la}, {lb}))"),
                ));
                exps.push(e.clone());
                let mut c = Case::new(
                    format!("float atan2({}, {}) [var,lit]", fname(*a), fname(*b)),
                    format!("let a = vh_next_float()\nvh_emit_float(atan2(a, {lb}))"),
                );
                c.inputs = vec![Input::Float(*a)];
                cases.push(c);
                exps.push(e.clone());
            }
            let e = val(a.powf(*b));
            let mut c = Case::new(
                format!("float {}.pow({}) [var,var]", fname(*a), fname(*b)),
                "let a = vh_next_float()\nlet b = vh_next_float()\nvh_emit_float(a.pow(b))",
            );
            c.inputs = vec![Input::Float(*a), Input::Float(*b)];
            cases.push(c);
            exps.push(e);
        }
    }
    (cases, exps)
}

// ---------------------------------------------------------------- conversions

fn conv_cases(tier: Tier) -> (Vec<Case>, Vec<Exp>) {
    let mut cases = vec![];
    let mut exps = vec![];
    for n in super::c15::grid() {
        let e = Exp::Done(vec![Want::Float((n as f64).to_bits())]);
        let mut c = Case::new(format!("float_from_int({n}) [var]"), "let n = vh_next_int()\nvh_emit_float(float_from_int(n))");
        c.inputs = vec![Input::Int(n)];
        cases.push(c);
        exps.push(e.clone());
        cases.push(Case::new(format!("float_from_int({n}) [lit]"), format!("vh_emit_float(float_from_int({}))", int_lit(n))));
        exps.push(e.clone());
        let mut c = Case::new(format!("({n}).to_float() [var method]"), "let n = vh_next_int()\nvh_emit_float(n.to_float())");
        c.inputs = vec![Input::Int(n)];
        cases.push(c);
        exps.push(e.clone());
        cases.push(Case::new(format!("({n}).to_float() [lit method]"), format!("vh_emit_float(({n}).to_float())")));
        exps.push(e);
    }
    let mut fs = grid(tier);
    fs.extend([
        2.5,
        -2.5,
        0.9999999999999999,
        -0.9999999999999999,
        3.7,
        -3.7,
        1000000000000000.2,
        4503599627370495.5,
        -4503599627370495.5,
        9223372036854774784.0,
        -9223372036854774784.0,
        9007199254740993.0,
        1e18,
        -1e18,
        1e19,
    ]);
    let mut seen = std::collections::BTreeSet::new();
    fs.retain(|x| seen.insert(x.to_bits()));
    let lim = 9223372036854775808.0f64;
    for a in fs {
        let e = if a.is_finite() && a > -lim && a < lim { Exp::Done(vec![Want::Int(a.trunc() as i64)]) } else { Exp::Unspecified };
        let mut c = Case::new(format!("int_from_float({}) [var]", fname(a)), "let a = vh_next_float()\nvh_emit_int(int_from_float(a))");
        c.inputs = vec![Input::Float(a)];
        cases.push(c);
        exps.push(e.clone());
        let mut c = Case::new(format!("({}).to_int() [var method]", fname(a)), "let a = vh_next_float()\nvh_emit_int(a.to_int())");
        c.inputs = vec![Input::Float(a)];
        cases.push(c);
        exps.push(e.clone());
        if let Some(l) = flit(a) {
            cases.push(Case::new(format!("int_from_float({}) [lit]", fname(a)), format!("vh_emit_int(int_from_float({l}))")));
            exps.push(e);
        }
    }
    (cases, exps)
}

// ---------------------------------------------------------------- folded NaN vs computed NaN

/// Expressions over literals whose value is a NaN, paired with the same computation over host-fed
/// variables. The folded constant must be the same binary64 datum as the computation it replaces,
/// which is observable because comparisons are a total order that distinguishes NaNs by sign.
fn nanfold_cases(tier: Tier) -> Vec<Case> {
    let mut cases = vec![];
    let g: Vec<f64> = grid(tier).into_iter().filter(|x| flit(*x).is_some()).collect();
    for op in ["+", "-", "*", "^"] {
        for a in &g {
            for b in &g {
                let r = match op {
                    "+" => a + b,
                    "-" => a - b,
                    "*" => a * b,
                    _ => a.powf(*b),
                };
                if !r.is_nan() {
                    continue;
                }
                let (la, lb) = (flit(*a).unwrap(), flit(*b).unwrap());
                let mut c = Case::new(
                    format!("float nan-fold {} {op} {}", fname(*a), fname(*b)),
                    format!(
                        "let a = vh_next_float()\nlet b = vh_next_float()\nlet rv = a {op} b\nlet rl = {la} {op} {lb}\n\
                         vh_emit_float(rv)\nvh_emit_float(rl)\nvh_emit_bool(rv < 0.0)\nvh_emit_bool(rl < 0.0)\nvh_emit_bool(rl == rv)"
                    ),
                );
                c.inputs = vec![Input::Float(*a), Input::Float(*b)];
                cases.push(c);
            }
        }
    }
    // nested folds that pass through an infinity
    let m = flit(f64::MAX).unwrap();
    let nested: [(&str, String, String); 4] = [
        ("(MAX*10)-(MAX*10)", format!("({m} * 10.0) - ({m} * 10.0)"), "(a * b) - (a * b)".into()),
        ("(MAX+MAX)-(MAX+MAX)", format!("({m} + {m}) - ({m} + {m})"), "(a + a) - (a + a)".into()),
        ("0*(MAX*10)", format!("0.0 * ({m} * 10.0)"), "0.0 * (a * b)".into()),
        ("(MAX*10)+(-MAX*10)", format!("({m} * 10.0) + ((-{m}) * 10.0)"), "(a * b) + ((-a) * b)".into()),
    ];
    for (n, lit, var) in nested {
        let mut c = Case::new(
            format!("float nan-fold nested {n}"),
            format!(
                "let a = vh_next_float()\nlet b = vh_next_float()\nlet rv = {var}\nlet rl = {lit}\n\
                 vh_emit_float(rv)\nvh_emit_float(rl)\nvh_emit_bool(rv < 0.0)\nvh_emit_bool(rl < 0.0)\nvh_emit_bool(rl == rv)"
            ),
        );
        c.inputs = vec![Input::Float(f64::MAX), Input::Float(10.0)];
        cases.push(c);
    }
    cases
}

fn judge_nanfold(out: &mut UnitOut, c: &Case, r: &CaseResult) {
    let exp = "computed and folded NaN are the same binary64 datum: emits [rv, rl, rv<0, rl<0, rl==rv] with rl bits == rv bits, equal signs under <, and rl == rv true";
    match r {
        CaseResult::Ran(o) if o.end == End::Done && o.emits.len() == 5 => {
            if let [Emit::Float(rv), Emit::Float(rl), Emit::Bool(sv), Emit::Bool(sl), Emit::Bool(eq)] = o.emits.as_slice() {
                let (fv, fl) = (f64::from_bits(*rv), f64::from_bits(*rl));
                if !fv.is_nan() || !fl.is_nan() {
                    fail(out, c, "both results NaN (IEEE-754)", show_emits(&o.emits), vec![]);
                } else if rv != rl || sv != sl || !eq {
                    fail(out, c, exp, show_emits(&o.emits), vec![]);
                } else {
                    out.class(if fv.is_sign_negative() { "nan-consistent:negative" } else { "nan-consistent:positive" });
                }
                return;
            }
            fail(out, c, exp, show_emits(&o.emits), vec![]);
        }
        _ => {
            judge_want(out, c, r, &Exp::Done(vec![Want::FloatNaN; 5]), "nan-consistent");
        }
    }
}

// ---------------------------------------------------------------- the property

const EXTRA_UNITS: usize = 4; // unary, binfn, conv, nanfold

impl Prop for C16 {
    fn id(&self) -> &'static str {
        "C16"
    }
    fn level(&self) -> &'static str {
        "exploration"
    }
    fn n_units(&self, tier: Tier) -> usize {
        arith_units(tier).len() + CFORMS.len() + EXTRA_UNITS
    }
    fn run_unit(&self, tier: Tier, unit: usize, out: &mut UnitOut) {
        let au = arith_units(tier);
        if unit < au.len() {
            let (oi, form) = au[unit];
            let op = OPS[oi];
            let g = grid(tier);
            let mut cases = vec![];
            let mut exps = vec![];
            for a in &g {
                for b in &g {
                    if let Some(c) = make_arith(op, form, *a, *b) {
                        cases.push(c);
                        exps.push(model_bin(op, *a, *b));
                    }
                }
            }
            let co = COpts { skip_opt: form == 6, ..COpts::default() };
            run_cases(out, 0, &cases, 300, co, ROpts::default(), |out, k, c, r| {
                out.nontrivial_text(&c.name);
                if k % 1777 == 0 {
                    out.sample(json!({"case": c.name, "body": c.body, "expected": format!("{:?}", exps[k])}));
                }
                judge_want(out, c, r, &exps[k], class_of(&exps[k]));
            });
            return;
        }
        let u = unit - au.len();
        if u < CFORMS.len() {
            run_cmp_unit(tier, u, out);
            return;
        }
        match u - CFORMS.len() {
            0 => {
                let (cases, exps) = unary_cases(tier);
                run_cases(out, 0, &cases, 300, COpts::default(), ROpts::default(), |out, k, c, r| {
                    out.nontrivial_text(&c.name);
                    if k % 701 == 0 {
                        out.sample(json!({"case": c.name, "body": c.body, "expected": format!("{:?}", exps[k])}));
                    }
                    judge_want(out, c, r, &exps[k], &format!("unary:{}", class_of(&exps[k])));
                });
            }
            1 => {
                let (cases, exps) = binfn_cases(tier);
                run_cases(out, 0, &cases, 300, COpts::default(), ROpts::default(), |out, k, c, r| {
                    out.nontrivial_text(&c.name);
                    judge_want(out, c, r, &exps[k], &format!("fn2:{}", class_of(&exps[k])));
                });
            }
            2 => {
                let (cases, exps) = conv_cases(tier);
                run_cases(out, 0, &cases, 300, COpts::default(), ROpts::default(), |out, k, c, r| {
                    out.nontrivial_text(&c.name);
                    if k % 211 == 0 {
                        out.sample(json!({"case": c.name, "body": c.body, "expected": format!("{:?}", exps[k])}));
                    }
                    judge_want(out, c, r, &exps[k], &format!("conv:{}", class_of(&exps[k])));
                });
            }
            _ => {
                let cases = nanfold_cases(tier);
                run_cases(out, 0, &cases, 200, COpts::default(), ROpts::default(), |out, _k, c, r| {
                    out.nontrivial_text(&c.name);
                    judge_nanfold(out, c, r);
                });
            }
        }
    }
    fn expected_evaluations(&self, tier: Tier) -> Option<u64> {
        // closed form for the grids; the list-shaped strata by their length
        let g = grid(tier);
        let n = g.len() as u64;
        let s = g.iter().filter(|x| flit(**x).is_some()).count() as u64;
        let mut total = 0;
        for (_, form) in arith_units(tier) {
            total += match form {
                0 | 4 => n * n,
                1 | 6 => s * s,
                _ => n * s,
            };
        }
        // comparisons: the form's grid plus, for literal forms, the spellable undetermined pairs (±0 × ±0) as reference
        total += n * n + (s * s + 4) + 2 * (n * s + 4);
        total += unary_cases(tier).0.len() as u64 + binfn_cases(tier).0.len() as u64 + conv_cases(tier).0.len() as u64 + nanfold_cases(tier).len() as u64;
        Some(total)
    }
    fn rule(&self, tier: Tier) -> String {
        let g = grid(tier);
        let spell = g.iter().filter(|x| flit(**x).is_some()).count();
        format!(
            "full grid F×F, |F|={} binary64 boundary values ({} of them have a finite decimal literal spelling; NaNs and infinities are host-fed only): \
             ±0, ±min subnormal, max subnormal, ±min normal, ±0.5/1/1.5/2, 0.1 0.2 0.3, 2^53-1, 2^53, 2^53+2, 1e16, ±1e308, ±MAX, 2^512, ±2^63, ±inf, ±qNaN{} \
             × operators {:?} × operand forms {:?} (no `^=`); six comparison operators on F×F in forms {:?}; 13 unary float intrinsics (+ method forms of floor/ceil/round/sqrt) and unary minus on F; \
             atan2 and .pow on F×F; float_from_int / .to_float on the C15 integer grid; int_from_float / .to_int on F plus fractional and near-2^63 values. \
             Expected values from Rust f64 (IEEE-754 binary64), observed bit-exactly via vh_emit_float; a NaN result may be any NaN; division by ±0.0 must raise division by zero in every form; \
             comparisons: numeric order where it is defined, otherwise only the laws of one total order (trichotomy, != / <= / >= derived, antisymmetry, transitivity, == congruent) and agreement of every form with the variable form; \
             every case is distinct by construction and counted as non-trivial",
            g.len(),
            spell,
            if tier == Tier::Thorough { ", further named values and the structured set sign×exponent{0,1,1022,1023,1024,2046,2047}×mantissa{0,1,2^51,2^52-1}" } else { "" },
            OPS,
            &FORMS[..tier.pick(6, 7)],
            CFORMS
        )
    }
    fn assumptions(&self) -> Vec<String> {
        vec![
            "the property's 'random bit patterns' are replaced by an enumerated structured set of exponent/mantissa corner patterns (no sampling)".into(),
            "transcendental intrinsics and ^ are compared with the same Rust std functions the VM calls: this decides plumbing (right function, argument order, literal = variable = folded), not libm accuracy".into(),
            "round() at exact ties accepts both IEEE-754 tie rules (away from zero / to even): the manual does not say which".into(),
            "int_from_float is asserted (truncation toward zero, as in the manual's example and Rust `as`) only strictly inside (-2^63, 2^63); NaN, ±inf and out-of-range inputs are Unspecified (no fault)".into(),
            "where the total order places -0.0 relative to +0.0 and the NaNs is not asserted, only that all six operators and all operand forms agree on one order".into(),
            "sign/payload of a generated NaN are not asserted against the model; the nan-fold stratum asserts only that a folded constant equals the run-time result of the same computation".into(),
            "`%` is not defined on float (type error) and is not part of the universe; core/math abs is outside the prelude and not covered".into(),
        ]
    }
    fn min_classes(&self) -> usize {
        4
    }
}
