//! C10 — results do not depend on how the embedder slices execution.
//! C11 — the runtime reports completion, errors and host calls truthfully.
//!
//! Both use the deviation-bounded embedder exploration of embed.rs over the hand-modelled corpus
//! (corpus.rs), the collector/channel program families and, in C10, uniform budgets.

use crate::corpus;
use crate::drive::{End, Top};
use crate::embed::{self, EProg, Execution};
use crate::fw::{Prop, Tier, UnitOut, hkey};
use crate::props::{c06, c09};
use serde_json::json;

pub struct C10;
pub struct C11;

pub struct Item {
    pub name: String,
    pub text: String,
    pub inputs: Vec<crate::drive::Input>,
    pub lines: Vec<String>,
    pub expect: Option<corpus::P>,
    /// compare printed output/emits across schedules (false only for racing programs)
    pub deterministic: bool,
}

pub fn items() -> Vec<Item> {
    let mut v = vec![];
    for p in corpus::programs() {
        v.push(Item { name: format!("corpus:{}", p.name), text: p.text.clone(), inputs: p.inputs.clone(), lines: p.lines.clone(), expect: Some(p), deterministic: true });
    }
    for (name, body, inputs, heavy) in c06::programs() {
        if heavy {
            continue;
        }
        v.push(Item { name: format!("gc:{name}"), text: c06::full_text(body), inputs, lines: vec![], expect: None, deterministic: true });
    }
    for (name, body, _, heavy) in c09::programs() {
        if heavy {
            continue;
        }
        v.push(Item { name: format!("chan:{name}"), text: format!("use vh\n{body}"), inputs: vec![], lines: vec![], expect: None, deterministic: true });
    }
    // several writers racing into one channel, only main prints: the statement's family ("tasks
    // communicate only through channels and print only from one task"). The scheduler gives every
    // runnable task one instruction per turn whatever the budget, so the merge order is fixed.
    let races: [(&str, &str); 3] = [
        (
            "race:two-producers",
            "let c: channel<array<int>> = channel()\ntask {\n  c.write([1])\n  c.write([2])\n}\ntask {\n  c.write([11])\n  c.write([12])\n}\nvar k = 0\nwhile k < 4 {\n  let r = c.read()\n  println(r[0])\n  k = k + 1\n}\n",
        ),
        (
            "race:three-producers-uneven",
            "let c: channel<int> = channel()\ntask {\n  var i = 0\n  while i < 6 {\n    c.write(i)\n    i = i + 1\n  }\n}\ntask {\n  var i = 0\n  while i < 4 {\n    c.write(100 + i * i)\n    i = i + 1\n  }\n}\ntask {\n  c.write(200)\n  c.write(201)\n}\nvar k = 0\nwhile k < 12 {\n  println(c.read())\n  k = k + 1\n}\n",
        ),
        (
            "race:producers-with-different-work",
            "let c: channel<string> = channel()\ntask {\n  var i = 0\n  while i < 3 {\n    c.write(\"a\" .. i)\n    i = i + 1\n  }\n}\ntask {\n  var i = 0\n  while i < 3 {\n    let pad = [i, i, i]\n    c.write(\"b\" .. pad.len() + i)\n    i = i + 1\n  }\n}\nvar k = 0\nvar acc = \"\"\nwhile k < 6 {\n  acc = acc .. c.read() .. \",\"\n  k = k + 1\n}\nprintln(acc)\n",
        ),
    ];
    // a task keeps calling the host while main finishes / fails: how many of the task's calls happen
    // before main ends legitimately depends on host-call timing, so outputs are NOT compared across
    // schedules (deterministic = false); C11's status contract is what these programs are for
    let host_tasks: [(&str, &str); 2] = [
        (
            "status:task-calls-host-while-main-finishes",
            "task {\n  var k = 0\n  while k < 50 {\n    let r = vh_h1(k)\n    k = k + 1\n  }\n}\nvar i = 0\nwhile i < 6 {\n  i = i + 1\n}\n9\n",
        ),
        (
            "status:task-calls-host-while-main-errors",
            "task {\n  var k = 0\n  while k < 50 {\n    let r = vh_h1(k)\n    k = k + 1\n  }\n}\nvar i = 0\nwhile i < 6 {\n  i = i + 1\n}\nlet a = [1]\nlet z = a[i]\nz\n",
        ),
    ];
    for (name, body) in host_tasks {
        v.push(Item { name: name.into(), text: format!("use vh\n{body}"), inputs: vec![], lines: vec![], expect: None, deterministic: false });
    }
    // the stratified selection of the generated program universe (every statement / expression form of U-prog)
    for (name, p) in crate::ugen::standalone_corpus_full(Tier::Quick) {
        v.push(Item { name: format!("uprog:{name}"), text: p.standalone(), inputs: p.host_inputs(), lines: vec![], expect: None, deterministic: true });
    }
    for (name, body) in races {
        v.push(Item { name: name.into(), text: format!("use vh\n{body}"), inputs: vec![], lines: vec![], expect: None, deterministic: true });
    }
    v
}

fn end_text(e: &End) -> String {
    match e {
        End::Error { kind, text } => format!("error:{kind}\n{text}"),
        End::Fault(p) => format!("fault at {}: {}", p.site, p.msg),
        End::InternalError { text } => format!("internal-error {text}"),
        o => o.class(),
    }
}

fn obs_sig(x: &Execution, include_host_order: bool) -> String {
    let _ = include_host_order;
    format!("end={}\nemits={:?}\nout={:?}\nerr={:?}\ntop={:?}", end_text(&x.obs.end), x.obs.emits, x.obs.out, x.obs.err, x.obs.top)
}

fn bound_for(tier: Tier, default_calls: usize) -> usize {
    match tier {
        // <= 2 deviations when the default execution is short enough for ~N^2 * 18 executions
        Tier::Quick => if default_calls <= 30 { 2 } else { 1 },
        Tier::Thorough => if default_calls <= 400 { 2 } else { 1 },
    }
}

fn run_item(tier: Tier, it: &Item, out: &mut UnitOut, check_status: bool, prop: &str) {
    if !out.begin_case(0) {
        return;
    }
    out.describe_case(&format!("{}\n{}", it.name, it.text));
    let p: EProg = match embed::compile_eprog(&it.name, &it.text, it.inputs.clone(), it.lines.clone()) {
        Ok(p) => p,
        Err(e) => {
            out.class("program-rejected");
            out.violation(vec![format!("input:{}", hkey(&format!("{}|compile", it.name)))], format!("program `{}` {e}", it.name), json!({"program": it.text, "observed": e}));
            return;
        }
    };
    let step_cap = 200_000;
    let base = embed::execute(&p, &[], step_cap);
    let base_sig = obs_sig(&base, true);
    let mut fail = |out: &mut UnitOut, key: String, what: String, detail: serde_json::Value| {
        out.class("violation");
        out.violation(vec![format!("input:{}", hkey(&key)), format!("prog:{}", it.name)], what, detail);
    };
    // the default execution against the hand model
    if let Some(e) = &it.expect {
        let mut probs = vec![];
        if base.obs.end.class() != e.end {
            probs.push(format!("end {} != expected {}", base.obs.end.class(), e.end));
        }
        if base.obs.emits != e.emits {
            probs.push(format!("emits {:?} != expected {:?}", base.obs.emits, e.emits));
        }
        if base.obs.out != e.out {
            probs.push(format!("out {:?} != expected {:?}", base.obs.out, e.out));
        }
        if let Some(t) = &e.top {
            if base.obs.top != *t {
                probs.push(format!("final value {:?} != expected {:?}", base.obs.top, t));
            }
        }
        if let (Some(l), End::Error { text, .. }) = (e.err_line, &base.obs.end) {
            let tb = crate::drive::traceback(text);
            if !tb.iter().any(|(f, line, _)| f.ends_with("main.abra") && *line == l) {
                probs.push(format!("error location: no main.abra:{l} in traceback {tb:?}"));
            }
        }
        if !probs.is_empty() {
            fail(out, format!("{}|default", it.name), format!("{}: default embedder (budget 1) disagrees with the hand model: {}", it.name, probs.join("; ")), json!({"program": it.text, "problems": probs, "observed": base_sig}));
            return;
        }
    } else if base.obs.end.is_fault() {
        fail(out, format!("{}|default", it.name), format!("{}: default embedder run faults: {}", it.name, end_text(&base.obs.end)), json!({"program": it.text}));
        return;
    }
    let bound = bound_for(tier, base.calls.len());
    let mut n_bad = 0u64;
    let mut first_bad: Option<(String, String)> = None;
    let mut status_bad: Option<(String, String)> = None;
    let total_default = base.total_steps;
    let mut classes: std::collections::BTreeMap<String, u64> = Default::default();
    let (count, capped) = embed::explore(&p, bound, step_cap, tier.pick(40_000, 2_000_000), &mut |x: &Execution| {
        let sig = obs_sig(x, true);
        *classes.entry(format!("{}-dev:{}", x.choices.iter().filter(|c| **c != 0).count(), x.obs.end.class())).or_insert(0) += 1;
        if it.deterministic && sig != base_sig {
            n_bad += 1;
            if first_bad.is_none() {
                first_bad = Some((embed::fmt_choices(x), sig.clone()));
            }
        }
        if check_status {
            let mut probs = x.status_problems.clone();
            if p.single_thread && x.obs.end == End::Done && x.total_steps != total_default {
                probs.push(format!("sum of steps_consumed {} != instruction count of the default run {}", x.total_steps, total_default));
            }
            if !probs.is_empty() && status_bad.is_none() {
                status_bad = Some((embed::fmt_choices(x), probs.join("; ")));
            }
        }
    });
    out.evaluations += count;
    out.traces += count;
    out.states += count;
    out.transitions += base.calls.len() as u64 * count;
    out.capped |= capped;
    if capped {
        out.notes.push(format!("{}: execution cap reached with bound {bound}", it.name));
    }
    out.count(&format!("programs_with_bound_{bound}"), 1);
    for (k, v) in classes {
        *out.classes.entry(k).or_insert(0) += v;
    }
    out.nontrivial_text(&it.text);
    out.sample(json!({"program": it.name, "default_calls": base.calls.len(), "deviation_bound": bound, "executions": count}));
    // uniform budgets
    let mut ks: Vec<u32> = (1..=16).chain([64, 1000]).collect();
    if p.single_thread {
        ks.push(u32::MAX);
    }
    for k in ks {
        let x = embed::execute_uniform(&p, k, step_cap);
        out.evaluations += 1;
        let sig = obs_sig(&x, false);
        if it.deterministic && sig != base_sig {
            n_bad += 1;
            if first_bad.is_none() {
                first_bad = Some((format!("uniform budget {k}"), sig));
            }
        }
    }
    if !check_status {
        if let Some((sched, sig)) = first_bad {
            fail(
                out,
                format!("{}|{}", it.name, sched),
                format!("{}: {} execution(s) differ from the default embedder; first: [{}]", it.name, n_bad, sched),
                json!({"program": it.text, "schedule": sched, "observed": sig, "default": base_sig, "property": prop}),
            );
        }
    } else {
        if let Some((sched, why)) = status_bad {
            fail(out, format!("{}|status|{}", it.name, sched), format!("{}: status contract broken under [{}]: {}", it.name, sched, why), json!({"program": it.text, "schedule": sched, "problems": why}));
        }
        // C11 also needs the observable result to be the modelled one under every schedule
        if let (Some((sched, sig)), Some(_)) = (first_bad, &it.expect) {
            fail(out, format!("{}|{}", it.name, sched), format!("{}: under [{}] the reported result differs from the model", it.name, sched), json!({"program": it.text, "schedule": sched, "observed": sig, "expected": base_sig}));
        }
    }
    let _ = Top::None;
}

impl Prop for C10 {
    fn id(&self) -> &'static str {
        "C10"
    }
    fn level(&self) -> &'static str {
        "model_checking"
    }
    fn n_units(&self, _tier: Tier) -> usize {
        items().len()
    }
    fn run_unit(&self, tier: Tier, unit: usize, out: &mut UnitOut) {
        let it = items().swap_remove(unit);
        run_item(tier, &it, out, false, "C10");
    }
    fn rule(&self, tier: Tier) -> String {
        format!(
            "{} programs (hand-modelled corpus incl. host calls, readline, runtime errors with locations, final values, Kahn-style task programs; the collector and channel families): \
             ALL embedder executions with <= 2 deviations from the default (budget 1, immediate host service) when the default run has <= {} calls, else <= 1; deviations = one call with budget in {:?} \
             or leaving a pending host call unserviced for 1..3 further calls; plus uniform budgets 1..16, 64, 1000 (and MAX for task-free programs); oracle: output, emits, final value, error kind AND traceback identical to the default execution \
             (and the default equals the hand model where one exists); states = executions, transitions = run_n_steps calls",
            items().len(),
            tier.pick(30, 400),
            &embed::BUDGET_ALTS[1..]
        )
    }
    fn assumptions(&self) -> Vec<String> {
        vec![
            "programs with racing writers are outside the family (their merge order may legitimately depend on host-call timing)".into(),
            "the generated-program universe (U-prog) is covered for uniform budgets by C01/C02; this check owns the deviation-bounded schedules".into(),
        ]
    }
}

impl Prop for C11 {
    fn id(&self) -> &'static str {
        "C11"
    }
    fn level(&self) -> &'static str {
        "model_checking"
    }
    fn n_units(&self, _tier: Tier) -> usize {
        items().len()
    }
    fn run_unit(&self, tier: Tier, unit: usize, out: &mut UnitOut) {
        let it = items().swap_remove(unit);
        run_item(tier, &it, out, true, "C11");
    }
    fn rule(&self, tier: Tier) -> String {
        format!(
            "same deviation-bounded embedder exploration as C10 over {} programs (<= 2 deviations when the default run has <= {} calls, else <= 1); oracle at EVERY run_n_steps return: steps_consumed <= budget; \
             for task-free programs the sum of steps_consumed equals the default run's instruction count; completion / runtime error is reported on the call where main ends and persists on two further calls \
             (an error is never reported as completion); the final value, printed output and the arguments received by host functions of arity 0..3 (recorded by the host in declaration order) equal the hand model, \
             and the value the host returns is what the program then observes",
            items().len(),
            tier.pick(30, 400)
        )
    }
    fn assumptions(&self) -> Vec<String> {
        vec!["hand-computed expectations in corpus.rs are the reference model for final values, outputs, error kinds and failing lines".into()]
    }
}
