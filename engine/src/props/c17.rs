//! C17 — string concatenation and comparison give byte-exact results.
//!
//! All ordered pairs over a structured string set × {.., ==, !=, <, <=, >, >=} × operand forms,
//! (a) under every uniform step budget of a set (the string instructions are resumable: one byte
//! per step), (b) under every embedder execution with <= 1 deviation, and (c) with a collection
//! cycle started at EVERY instruction boundary of the run and completed at once, one step later,
//! two steps later or at the end (operands of an in-flight string instruction are then only
//! reachable through the VM's string-operand registers).

use crate::batch::{Case, CaseResult, run_cases};
use crate::drive::{COpts, Emit, End, Input, ROpts};
use crate::embed;
use crate::fw::{Prop, Tier, UnitOut, hkey};
use crate::sched::{self, Act, Prog};
use serde_json::json;

pub struct C17;

pub fn strings() -> Vec<String> {
    let long = "0123456789abcdefghijklmnopqrstuvwxyzABCD".to_string(); // 40 bytes
    let mut first = long.clone().into_bytes();
    first[0] = b'1';
    let mut mid = long.clone().into_bytes();
    mid[20] = b'K';
    let mut last = long.clone().into_bytes();
    last[39] = b'E';
    let mut two = long.clone().into_bytes();
    two[9] = b'z'; // greater than '9'
    two[14] = b'0'; // smaller than 'e'
    vec![
        "".into(),
        "a".into(),
        "b".into(),
        "aa".into(),
        "ab".into(),
        "ba".into(),
        "abc".into(),
        "abd".into(),
        "ab\0".into(),
        "é".into(),
        "ée".into(),
        "e".into(),
        "日本".into(),
        "日".into(),
        long.clone(),
        String::from_utf8(first).unwrap(),
        String::from_utf8(mid).unwrap(),
        String::from_utf8(last).unwrap(),
        long[..39].to_string(),
        // two differences inside one 8-byte stretch that order opposite ways (a comparison taken a word at a time
        // must still decide on the FIRST differing byte), in an 8-byte string and in the second stretch of a long one
        "abcdefgh".into(),
        "bacdefgh".into(),
        String::from_utf8(two).unwrap(),
    ]
}

fn lit(s: &str) -> String {
    let mut o = String::from("\"");
    for c in s.chars() {
        match c {
            '"' => o.push_str("\\\""),
            '\\' => o.push_str("\\\\"),
            '\0' => o.push_str("\\x00"),
            '\n' => o.push_str("\\n"),
            c => o.push(c),
        }
    }
    o.push('"');
    o
}

pub fn expected(a: &str, b: &str) -> Vec<Emit> {
    vec![
        Emit::Str(format!("{a}{b}")),
        Emit::Bool(a.as_bytes() == b.as_bytes()),
        Emit::Bool(a.as_bytes() != b.as_bytes()),
        Emit::Bool(a.as_bytes() < b.as_bytes()),
        Emit::Bool(a.as_bytes() <= b.as_bytes()),
        Emit::Bool(a.as_bytes() > b.as_bytes()),
        Emit::Bool(a.as_bytes() >= b.as_bytes()),
    ]
}

const OPS_BODY: &str = "vh_emit_str(X .. Y)\nvh_emit_bool(X == Y)\nvh_emit_bool(X != Y)\nvh_emit_bool(X < Y)\nvh_emit_bool(X <= Y)\nvh_emit_bool(X > Y)\nvh_emit_bool(X >= Y)";
const OPS: [&str; 7] = ["..", "==", "!=", "<", "<=", ">", ">="];
const PROBE: (&str, &str) = ("pq", "p");

fn model_op(op: usize, a: &str, b: &str) -> Emit {
    let (x, y) = (a.as_bytes(), b.as_bytes());
    match op {
        0 => Emit::Str(format!("{a}{b}")),
        1 => Emit::Bool(x == y),
        2 => Emit::Bool(x != y),
        3 => Emit::Bool(x < y),
        4 => Emit::Bool(x <= y),
        5 => Emit::Bool(x > y),
        _ => Emit::Bool(x >= y),
    }
}
fn op_line(op: usize, x: &str, y: &str) -> String {
    format!("{}({x} {} {y})", if op == 0 { "vh_emit_str" } else { "vh_emit_bool" }, OPS[op])
}
/// Every operation on (X, Y) is followed by a probe: another string operation on OTHER operands, so that progress
/// state or operands left behind by one resumable string instruction show in the next one.
/// probe kind 0: a different operation each time on the prefix-related pair; 1: always a concatenation (its result
/// shows which operands it really used); 2: always a comparison whose result is `true` (a resumed stale comparison of
/// unequal operands tends to answer `false`).
const PROBE_KINDS: usize = 3;
fn probe_for(kind: usize, i: usize) -> (usize, &'static str, &'static str) {
    let (p, q) = if i % 2 == 0 { PROBE } else { (PROBE.1, PROBE.0) };
    match kind {
        0 => ((i + 3) % 7, p, q),
        1 => (0, p, q),
        _ => match i {
            0 => (5, "pq", "p"),
            1 => (1, "pq", "pq"),
            2 => (3, "p", "pq"),
            3 => (4, "p", "pq"),
            4 => (6, "pq", "p"),
            5 => (2, "p", "pq"),
            _ => (5, "pr", "pq"),
        },
    }
}
fn probed_body(x: &str, y: &str, kind: usize) -> String {
    let mut lines = vec![];
    for i in 0..7 {
        lines.push(op_line(i, x, y));
        let (op, p, q) = probe_for(kind, i);
        lines.push(op_line(op, &lit(p), &lit(q)));
    }
    lines.join("\n")
}
pub fn expected_probed(a: &str, b: &str, kind: usize) -> Vec<Emit> {
    let mut v = vec![];
    for i in 0..7 {
        v.push(model_op(i, a, b));
        let (op, p, q) = probe_for(kind, i);
        v.push(model_op(op, p, q));
    }
    v
}

const FORMS: [&str; 5] = ["var∘var", "lit∘lit", "var∘lit", "lit∘var", "fn∘fn"];

fn case_for(a: &str, b: &str, form: usize, kind: usize) -> Case {
    let name = format!("str {:?} op {:?} [{}] probe-kind {kind}", a, b, FORMS[form]);
    let (pre, x, y, inputs): (String, String, String, Vec<Input>) = match form {
        0 => ("let a = vh_next_str()\nlet b = vh_next_str()\n".into(), "a".into(), "b".into(), vec![Input::Str(a.into()), Input::Str(b.into())]),
        1 => (String::new(), lit(a), lit(b), vec![]),
        2 => ("let a = vh_next_str()\n".into(), "a".into(), lit(b), vec![Input::Str(a.into())]),
        3 => ("let b = vh_next_str()\n".into(), lit(a), "b".into(), vec![Input::Str(b.into())]),
        _ => (
            "let a = vh_next_str()\nlet b = vh_next_str()\n".into(),
            "c17_id(a)".into(),
            "c17_id(b)".into(),
            vec![Input::Str(a.into()), Input::Str(b.into())],
        ),
    };
    let body = format!("{pre}{}", probed_body(&x, &y, kind));
    let mut c = Case::new(name, body);
    if form == 4 {
        c = c.decl("fn c17_id(s: string) -> string = s");
    }
    c.inputs = inputs;
    c
}

fn standalone_vv() -> String {
    format!("use vh\nlet a = vh_next_str()\nlet b = vh_next_str()\n{}\n", OPS_BODY.replace('X', "a").replace('Y', "b"))
}

const BUDGETS: [u32; 6] = [1, 2, 3, 7, 64, u32::MAX];

impl C17 {
    /// units: [0, nb*nf) = budget × form batches; then GC-window units (one per left string); then deviation units
    fn layout(tier: Tier) -> (usize, usize, usize) {
        let n = strings().len();
        let forms = tier.pick(3, FORMS.len());
        (BUDGETS.len() * forms * PROBE_KINDS, n, tier.pick(n / 3, n))
    }
}

impl Prop for C17 {
    fn id(&self) -> &'static str {
        "C17"
    }
    fn level(&self) -> &'static str {
        "model_checking"
    }
    fn n_units(&self, tier: Tier) -> usize {
        let (a, b, c) = Self::layout(tier);
        a + b + c
    }
    fn run_unit(&self, tier: Tier, unit: usize, out: &mut UnitOut) {
        let ss = strings();
        let (n_batch, n_gc, _n_dev) = Self::layout(tier);
        if unit < n_batch {
            // (a) uniform budgets
            let forms = tier.pick(3, FORMS.len());
            let kind = unit % PROBE_KINDS;
            let budget = BUDGETS[(unit / PROBE_KINDS) / forms];
            let form = (unit / PROBE_KINDS) % forms;
            let mut cases = vec![];
            let mut exps = vec![];
            for a in &ss {
                for b in &ss {
                    cases.push(case_for(a, b, form, kind));
                    exps.push(expected_probed(a, b, kind));
                }
            }
            run_cases(out, 0, &cases, 200, COpts::default(), ROpts { budget, max_steps: 200_000 }, |out, k, c, r| {
                out.states += 1;
                out.traces += 1;
                out.nontrivial_text(&format!("{}|budget {budget}", c.name));
                if k % 101 == 0 {
                    out.sample(json!({"case": c.name, "budget": budget, "body": c.body}));
                }
                let ok = match r {
                    CaseResult::Ran(o) => {
                        out.transitions += o.steps;
                        o.end == End::Done && o.emits == exps[k]
                    }
                    _ => false,
                };
                if ok {
                    out.class(&format!("agree:budget-{}", if budget == u32::MAX { "max".to_string() } else { budget.to_string() }));
                } else {
                    let obs = match r {
                        CaseResult::Ran(o) => format!("end={} emits={:?}", o.end.class(), o.emits),
                        CaseResult::Diag(d) => format!("compile diagnostics: {d}"),
                        CaseResult::CompilerPanic(p) => format!("compiler panic at {}: {}", p.site, p.msg),
                    };
                    out.class("violation");
                    out.violation(
                        vec![format!("input:{}", hkey(&format!("{}|{budget}", c.name)))],
                        format!("{} under uniform budget {budget}: expected {:?}, observed {obs}", c.name, exps[k]),
                        json!({"case": c.name, "program": c.standalone(), "inputs": format!("{:?}", c.inputs), "budget": budget, "expected": format!("{:?}", exps[k]), "observed": obs}),
                    );
                }
            });
            return;
        }
        let unit = unit - n_batch;
        let text = standalone_vv();
        if unit < n_gc {
            // (c) collection windows: left operand fixed by the unit, all right operands
            let a = &ss[unit];
            for (bi, b) in ss.iter().enumerate() {
                if !out.begin_case(bi as u64) {
                    continue;
                }
                let name = format!("gc-window {a:?} {b:?}");
                out.describe_case(&format!("{name}\n{text}"));
                let prog = match Prog::compile(&name, &text, vec![Input::Str(a.clone()), Input::Str(b.clone())]) {
                    Ok(p) => p,
                    Err(e) => {
                        out.violation(vec![format!("input:{}", hkey(&name))], format!("{name}: {e}"), json!({"program": text}));
                        continue;
                    }
                };
                let exp = expected(a, b);
                let (reference, n) = sched::reference(&prog, 100_000);
                out.evaluations += 1;
                if reference.end != Some(End::Done) || reference.emits != exp {
                    out.class("violation");
                    out.violation(
                        vec![format!("input:{}", hkey(&format!("{name}|reference")))],
                        format!("{name}: without collection: end={:?} emits={:?}, expected {:?}", reference.end, reference.emits, exp),
                        json!({"program": text, "inputs": [a, b]}),
                    );
                    continue;
                }
                let mut bad: Option<(String, String)> = None;
                let mut runs = 0u64;
                // start a cycle at boundary i, finish it (all marking, all sweeping) after d more steps
                let delays: Vec<u32> = tier.pick(vec![0, 1], vec![0, 1, 2, 5, 1000]);
                'outer: for i in 0..=n {
                    for d in &delays {
                        let mut s = sched::Sys::new(&prog);
                        let mut hist: Vec<Act> = vec![];
                        let mut step = |s: &mut sched::Sys, a: Act, hist: &mut Vec<Act>| {
                            s.apply(a);
                            hist.push(a);
                        };
                        for _ in 0..i {
                            step(&mut s, Act::M, &mut hist);
                        }
                        if s.terminal() {
                            break;
                        }
                        step(&mut s, Act::S(0), &mut hist);
                        let mut dd = 0;
                        while dd < *d && !s.terminal() {
                            step(&mut s, Act::M, &mut hist);
                            dd += 1;
                        }
                        // complete the cycle
                        let mut guard = 0;
                        while !s.terminal() && guard < 10_000 {
                            let en = s.enabled(1);
                            if en.contains(&Act::K(0)) {
                                step(&mut s, Act::K(0), &mut hist);
                            } else if en.contains(&Act::W(0)) {
                                step(&mut s, Act::W(0), &mut hist);
                            } else {
                                break;
                            }
                            guard += 1;
                            if let Err(e) = s.invariant() {
                                bad = Some((sched::fmt_hist(&hist), e));
                                break 'outer;
                            }
                        }
                        while !s.terminal() && s.msteps < 100_000 {
                            step(&mut s, Act::M, &mut hist);
                        }
                        runs += 1;
                        out.transitions += hist.len() as u64;
                        if let Err(e) = s.invariant() {
                            bad = Some((sched::fmt_hist(&hist), e));
                            break 'outer;
                        }
                        let o = s.outcome();
                        if o.end != Some(End::Done) || o.emits != exp {
                            bad = Some((sched::fmt_hist(&hist), format!("end={:?} emits={:?}, expected {:?}", o.end, o.emits, exp)));
                            break 'outer;
                        }
                    }
                }
                out.states += runs;
                out.traces += runs;
                out.nontrivial_text(&name);
                match bad {
                    None => out.class("gc-window:agree"),
                    Some((h, e)) => {
                        out.class("violation");
                        out.violation(
                            vec![format!("input:{}", hkey(&format!("{name}|{h}")))],
                            format!("{name}: schedule {h} => {e}"),
                            json!({"program": text, "inputs": [a, b], "schedule": h, "observed": e}),
                        );
                    }
                }
            }
            return;
        }
        // (b) <= 1 embedder deviation, var∘var form: left operand fixed by the unit
        let unit = unit - n_gc;
        let a = &ss[unit];
        for (bi, b) in ss.iter().enumerate() {
            if !out.begin_case(bi as u64) {
                continue;
            }
            let name = format!("deviation {a:?} {b:?}");
            out.describe_case(&format!("{name}\n{text}"));
            let p = match embed::compile_eprog(&name, &text, vec![Input::Str(a.clone()), Input::Str(b.clone())], vec![]) {
                Ok(p) => p,
                Err(e) => {
                    out.violation(vec![format!("input:{}", hkey(&name))], format!("{name}: {e}"), json!({"program": text}));
                    continue;
                }
            };
            let exp = expected(a, b);
            let mut bad: Option<(String, String)> = None;
            let (count, capped) = embed::explore(&p, 1, 200_000, 100_000, &mut |x| {
                if (x.obs.end != End::Done || x.obs.emits != exp) && bad.is_none() {
                    bad = Some((embed::fmt_choices(x), format!("end={} emits={:?}", x.obs.end.class(), x.obs.emits)));
                }
            });
            out.evaluations += count;
            out.states += count;
            out.traces += count;
            out.capped |= capped;
            out.nontrivial_text(&name);
            match bad {
                None => out.class("deviation<=1:agree"),
                Some((sch, e)) => {
                    out.class("violation");
                    out.violation(
                        vec![format!("input:{}", hkey(&format!("{name}|{sch}")))],
                        format!("{name}: embedder [{sch}] => {e}, expected {exp:?}"),
                        json!({"program": text, "inputs": [a, b], "schedule": sch, "observed": e}),
                    );
                }
            }
        }
    }
    fn rule(&self, tier: Tier) -> String {
        let n = strings().len();
        format!(
            "all {n}x{n} ordered pairs over the structured string set (empty, prefix/extension pairs, first difference at first/middle/last byte of a 40-byte string, two opposite differences within one 8-byte stretch, NUL byte, 2- and 3-byte UTF-8), each evaluating `..` and the six comparisons: \
             (a) in {} operand forms under every uniform budget in {:?}, each of the seven operations followed by a probe operation on other operands in 3 probe kinds (rotating operations, always a concatenation, always a comparison that is true), so state left behind by one string instruction shows in the next; (b) var∘var form under ALL embedder executions with <= 1 deviation for {} left operands; \
             (c) var∘var form with a collection cycle started at EVERY instruction boundary and completed after {:?} further steps (real collector via hooks, quarantine on). Oracle: Rust byte-wise concatenation and ordering.",
            tier.pick(3, FORMS.len()),
            BUDGETS,
            tier.pick(n / 3, n),
            tier.pick(vec![0, 1], vec![0, 1, 2, 5, 1000])
        )
    }
    fn assumptions(&self) -> Vec<String> {
        vec![
            "the property's 'random strings' are replaced by the structured set; bytes are compared through the host (vh_emit_str/bool)".into(),
            "collection windows use the schedulable-collector hooks (as C06); the full interleaving search for string temporaries is in C06's concat/equal/less programs".into(),
        ]
    }
}
