//! C32 — runtime errors report the failing file, line and call stack.
//!
//! Universe: call chains `<main> → L1 → … → Ld` (d ≤ 2 quick / ≤ 3 thorough). Every level ≥ 1 is a
//! named function, a member function or a lambda (a lambda is defined inside the body of its caller,
//! functions/methods live in the caller's file or in any later one of ≤ 3 files). Every body has the
//! same statement skeleton (one statement per line, one nested `if` block) with five statement
//! positions; exactly one failing operation {panic, index out of range, integer overflow, division
//! by zero, `!` on none} is inserted at one position of one level. Variants put k non-ASCII
//! characters (in a comment or in a string literal) on a line above everything else in every file.
//!
//! Statement layouts. In the family above every statement is written on one line, so the line of a
//! `let` and the line of the operation on its right-hand side coincide. A second family separates
//! them: the failing operations whose result can be stored {index out of range, overflow, division by
//! zero, `!` on none} at every level and position (quick: three of the five positions) again, written as `let v =` ⏎ `<op>`, `let v =` ⏎
//! `// comment` ⏎ `<op>`, `let v = {` ⏎ `<op>` ⏎ `}`, and as an assignment to a `var` declared on the
//! line before: `w =` ⏎ `<op>` (thorough also `w = <op>` on one line, `w =` ⏎ `// comment` ⏎ `<op>`,
//! `w = {` ⏎ `<op>` ⏎ `}`). The operator expression itself is always written on ONE line, so "the line
//! of the operation that failed" is unambiguous: it is that line, not the line of the `let` / `w =`
//! (the unchanged implementation reports exactly this line for all these layouts).
//!
//! Oracle: the generator knows by construction the line of the failing statement, the line of every
//! call site and the name the VM gives each function (`<main>`, the unqualified function / method
//! name, `<lambda>`): the traceback must be exactly
//! `[failing location, call site of level j-1, …, call site in <main>]`.
//! For `!` on none the failure happens inside the prelude's `unwrap`, so one leading
//! `prelude.abra:* in unwrap` entry is required and the user frames that follow are compared.

use crate::drive::{self, COpts, Compiled, End, ROpts, Src, StdHost};
use crate::fw::{Prop, Tier, UnitOut, hkey};
use serde_json::json;

pub struct C32;

#[derive(Clone, Copy, PartialEq, Eq, Debug)]
enum Kind {
    Fn,
    Method,
    Lambda,
}

/// levels 1..=d: (kind, file index). Level 0 is the top-level code of file 0.
#[derive(Clone, Debug)]
struct Shape {
    levels: Vec<(Kind, usize)>,
}

const FILES: [&str; 3] = ["main", "fb", "fc"];
const NSLOTS: usize = 5;
const OPS: [&str; 5] = ["panic", "array-oob", "overflow", "div-zero", "unwrap-none"];

fn shapes(max_depth: usize) -> Vec<Shape> {
    fn go(cur: &mut Vec<(Kind, usize)>, max_depth: usize, out: &mut Vec<Shape>) {
        if !cur.is_empty() {
            out.push(Shape { levels: cur.clone() });
        }
        if cur.len() == max_depth {
            return;
        }
        let pf = cur.last().map(|l| l.1).unwrap_or(0);
        // lambda: same file as its caller
        cur.push((Kind::Lambda, pf));
        go(cur, max_depth, out);
        cur.pop();
        for k in [Kind::Fn, Kind::Method] {
            for f in pf..FILES.len() {
                cur.push((k, f));
                go(cur, max_depth, out);
                cur.pop();
            }
        }
    }
    let mut out = vec![];
    go(&mut vec![], max_depth, &mut out);
    out
}

#[derive(Clone, Copy, Debug, PartialEq)]
enum Form {
    Comment,
    Str,
}
#[derive(Clone, Copy, Debug)]
struct Variant {
    k: usize,
    form: Form,
    ch: char,
}

fn variants(tier: Tier) -> Vec<Variant> {
    let v = |k, form, ch| Variant { k, form, ch };
    match tier {
        Tier::Quick => vec![v(0, Form::Comment, 'é'), v(1, Form::Comment, 'é'), v(5, Form::Str, 'é'), v(40, Form::Comment, 'é')],
        Tier::Thorough => {
            let mut r = vec![];
            for form in [Form::Comment, Form::Str] {
                for k in [0, 1, 5, 40] {
                    r.push(v(k, form, 'é'));
                }
            }
            // one variant with 4-byte characters (3 extra bytes per character)
            r.push(v(5, Form::Comment, '😀'));
            r
        }
    }
}

struct Built {
    src: Src,
    /// expected user frames, failing location first
    expected: Vec<(String, u32, String)>,
    /// line of the `let` / assignment that stores the failing operation's result (0 for `panic`)
    stmt_line: u32,
}

/// how the failing statement is laid out
#[derive(Clone, Copy, PartialEq, Eq, Debug)]
enum Lay {
    /// `let v = <op>` (first family)
    OneLine,
    LetWrap,
    LetWrapComment,
    LetBlock,
    AsgOneLine,
    AsgWrap,
    AsgWrapComment,
    AsgBlock,
}
impl Lay {
    fn name(self) -> &'static str {
        match self {
            Lay::OneLine => "let-one-line",
            Lay::LetWrap => "let-wrapped",
            Lay::LetWrapComment => "let-wrapped-after-comment",
            Lay::LetBlock => "let-block",
            Lay::AsgOneLine => "assign-one-line",
            Lay::AsgWrap => "assign-wrapped",
            Lay::AsgWrapComment => "assign-wrapped-after-comment",
            Lay::AsgBlock => "assign-block",
        }
    }
}

/// layouts of the second family (failing operation on a later line than the `let` / assignment)
fn layouts(tier: Tier) -> Vec<Lay> {
    match tier {
        Tier::Quick => vec![Lay::LetWrap, Lay::LetWrapComment, Lay::LetBlock, Lay::AsgWrap],
        Tier::Thorough => vec![Lay::LetWrap, Lay::LetWrapComment, Lay::LetBlock, Lay::AsgOneLine, Lay::AsgWrap, Lay::AsgWrapComment, Lay::AsgBlock],
    }
}
/// statement positions of the second family (quick: start of the body, after the call, inside the nested `if` block)
fn layout_slots(tier: Tier) -> Vec<usize> {
    tier.pick(vec![0, 2, 3], (0..NSLOTS).collect())
}
/// operations of the second family: those whose result can be stored (all but `panic`)
const STORABLE_OPS: std::ops::Range<usize> = 1..5;
const NOARG_SLOTS: [usize; 3] = [0, 2, 4];
const NOARG_OPS: [usize; 2] = [1, 4];
/// the second family uses no non-ASCII prefix (that dimension is exhausted by the first family)
const PLAIN: Variant = Variant { k: 0, form: Form::Comment, ch: 'é' };

struct Builder<'a> {
    shape: &'a Shape,
    fail_level: usize,
    fail_slot: usize,
    op: usize,
    lay: Lay,
    files: Vec<Vec<String>>,
    call_line: Vec<u32>,
    fail_line: u32,
    stmt_line: u32,
    /// every callee takes no argument (it declares its `x` itself), so the call is the first instruction of its line
    noarg: bool,
}

impl Builder<'_> {
    fn d(&self) -> usize {
        self.shape.levels.len()
    }
    fn file_of(&self, level: usize) -> usize {
        if level == 0 { 0 } else { self.shape.levels[level - 1].1 }
    }
    fn name_of(&self, level: usize) -> String {
        if level == 0 {
            return "<main>".into();
        }
        match self.shape.levels[level - 1].0 {
            Kind::Fn => format!("f{level}"),
            Kind::Method => format!("m{level}"),
            Kind::Lambda => "<lambda>".into(),
        }
    }
    fn push(&mut self, f: usize, ind: usize, s: &str) -> u32 {
        self.files[f].push(format!("{}{}", " ".repeat(ind), s));
        self.files[f].len() as u32
    }
    fn slot(&mut self, level: usize, s: usize, f: usize, ind: usize) {
        if level == self.fail_level && s == self.fail_slot {
            let x = format!("x{level}");
            if self.op == 0 {
                assert!(self.lay == Lay::OneLine);
                self.fail_line = self.push(f, ind, "panic(\"x\")");
                return;
            }
            // the operator expression: always on one line
            let e = match self.op {
                1 => format!("[1, 2][{x} + 7]"),
                2 => format!("9223372036854775807 + {x}"),
                3 => format!("1 / ({x} - {x})"),
                _ => "nope()!".to_string(),
            };
            let assign = matches!(self.lay, Lay::AsgOneLine | Lay::AsgWrap | Lay::AsgWrapComment | Lay::AsgBlock);
            if assign {
                self.push(f, ind, "var w = 0");
            }
            let head = if assign { "w =" } else { "let v =" };
            match self.lay {
                Lay::OneLine | Lay::AsgOneLine => {
                    self.fail_line = self.push(f, ind, &format!("{head} {e}"));
                    self.stmt_line = self.fail_line;
                }
                Lay::LetWrap | Lay::AsgWrap => {
                    self.stmt_line = self.push(f, ind, head);
                    self.fail_line = self.push(f, ind + 2, &e);
                }
                Lay::LetWrapComment | Lay::AsgWrapComment => {
                    self.stmt_line = self.push(f, ind, head);
                    self.push(f, ind + 2, "// the value");
                    self.fail_line = self.push(f, ind + 2, &e);
                }
                Lay::LetBlock | Lay::AsgBlock => {
                    self.stmt_line = self.push(f, ind, &format!("{head} {{"));
                    self.fail_line = self.push(f, ind + 2, &e);
                    self.push(f, ind, "}");
                }
            }
        }
    }
    /// statements of level `i` into file `f` at indentation `ind`
    fn body(&mut self, i: usize, f: usize, ind: usize) {
        if self.noarg && i > 0 {
            self.push(f, ind, &format!("let x{i} = 1"));
        }
        self.slot(i, 0, f, ind);
        self.push(f, ind, &format!("let a{i} = x{i} + 1"));
        self.slot(i, 1, f, ind);
        if i < self.d() {
            let n = i + 1;
            match self.shape.levels[i].0 {
                Kind::Lambda => {
                    let params = if self.noarg { String::new() } else { format!("x{n}: int") };
                    self.push(f, ind, &format!("let lam{n} = ({params}) -> {{"));
                    self.body(n, f, ind + 2);
                    self.push(f, ind, "}");
                    let arg = if self.noarg { String::new() } else { format!("a{i}") };
                    self.call_line[i] = self.push(f, ind, &format!("let r{i} = lam{n}({arg})"));
                }
                Kind::Fn => {
                    let arg = if self.noarg { String::new() } else { format!("a{i}") };
                    self.call_line[i] = self.push(f, ind, &format!("let r{i} = f{n}({arg})"));
                }
                Kind::Method => {
                    let arg = if self.noarg { String::new() } else { format!("a{i}") };
                    self.call_line[i] = self.push(f, ind, &format!("let r{i} = St{n}(0).m{n}({arg})"));
                }
            }
        } else {
            self.push(f, ind, &format!("let r{i} = a{i}"));
        }
        self.slot(i, 2, f, ind);
        self.push(f, ind, &format!("if r{i} > 0 {{"));
        self.slot(i, 3, f, ind + 2);
        self.push(f, ind + 2, &format!("let t{i} = r{i}"));
        self.push(f, ind, "}");
        self.slot(i, 4, f, ind);
        self.push(f, ind, &format!("r{i}"));
    }
}

fn build(shape: &Shape, fail_level: usize, fail_slot: usize, op: usize, lay: Lay, var: Variant, noarg: bool) -> Built {
    let d = shape.levels.len();
    let mut b = Builder {
        shape,
        fail_level,
        fail_slot,
        op,
        lay,
        files: vec![vec![]; FILES.len()],
        call_line: vec![0; d + 1],
        fail_line: 0,
        stmt_line: 0,
        noarg,
    };
    let used: Vec<bool> = (0..FILES.len()).map(|f| f == 0 || shape.levels.iter().any(|l| l.1 == f)).collect();
    let body_ascii: String = std::iter::repeat_n('e', var.k.max(1)).collect();
    let body_na: String = std::iter::repeat_n(var.ch, var.k).collect();
    let filler = if var.k == 0 { body_ascii } else { body_na };
    for f in 0..FILES.len() {
        if !used[f] {
            continue;
        }
        for g in f + 1..FILES.len() {
            if used[g] {
                b.push(f, 0, &format!("use {}", FILES[g]));
            }
        }
        b.push(f, 0, "use hh");
        match var.form {
            Form::Comment => b.push(f, 0, &format!("// {filler}")),
            Form::Str => b.push(f, 0, &format!("fn filler{f}() -> string {{ \"{filler}\" }}")),
        };
        for lvl in 1..=d {
            let (k, lf) = shape.levels[lvl - 1];
            if lf != f {
                continue;
            }
            match k {
                Kind::Lambda => {}
                Kind::Fn => {
                    b.push(f, 0, &if noarg { format!("fn f{lvl}() -> int {{") } else { format!("fn f{lvl}(x{lvl}: int) -> int {{") });
                    b.body(lvl, f, 2);
                    b.push(f, 0, "}");
                }
                Kind::Method => {
                    b.push(f, 0, &format!("type St{lvl} = {{"));
                    b.push(f, 2, "v: int");
                    b.push(f, 0, "}");
                    b.push(f, 0, &format!("extend St{lvl} {{"));
                    b.push(f, 2, &if noarg { format!("fn m{lvl}(self) -> int {{") } else { format!("fn m{lvl}(self, x{lvl}: int) -> int {{") });
                    b.body(lvl, f, 4);
                    b.push(f, 2, "}");
                    b.push(f, 0, "}");
                }
            }
        }
        if f == 0 {
            b.push(0, 0, "let x0 = 1");
            b.body(0, 0, 0);
        }
    }
    let mut expected = vec![];
    expected.push((format!("{}.abra", FILES[b.file_of(fail_level)]), b.fail_line, b.name_of(fail_level)));
    for i in (0..fail_level).rev() {
        expected.push((format!("{}.abra", FILES[b.file_of(i)]), b.call_line[i], b.name_of(i)));
    }
    let mut files = vec![];
    for f in 0..FILES.len() {
        if used[f] {
            files.push((format!("{}.abra", FILES[f]), b.files[f].join("\n") + "\n"));
        }
    }
    files.push(("hh.abra".to_string(), "fn nope() -> option<int> {\n  .none\n}\n".to_string()));
    Built { src: Src { files, main: "main.abra".into() }, expected, stmt_line: b.stmt_line }
}

fn shape_text(s: &Shape) -> String {
    let mut t = String::from("main@main");
    for (i, (k, f)) in s.levels.iter().enumerate() {
        t.push_str(&format!(" -> {:?}{}@{}", k, i + 1, FILES[*f]));
    }
    t
}

/// 1-based line that contains byte offset `off` of `text`
fn line_of_byte(text: &str, off: usize) -> u32 {
    1 + text.as_bytes()[..off.min(text.len())].iter().filter(|b| **b == b'\n').count() as u32
}

/// Lowest line the known "spans in characters, line starts in bytes" defect could report for a
/// node that really starts on `line` (1-based) of `text`.
fn lowest_shifted_line(text: &str, line: u32) -> u32 {
    let mut off = 0usize;
    for (n, l) in text.split_inclusive('\n').enumerate() {
        if n as u32 + 1 == line {
            break;
        }
        off += l.len();
    }
    let extra = text[..off].len() - text[..off].chars().count();
    line_of_byte(text, off.saturating_sub(extra))
}

fn tier_depth(tier: Tier) -> usize {
    tier.pick(2, 3)
}

/// first family: (level, slot, op, non-ASCII variant); second family: (level, slot, storable op, layout)
fn cases_per_shape(s: &Shape, nvar: usize, nlay_slots: usize, nlay: usize) -> u64 {
    let levels = s.levels.len() + 1;
    (levels * NSLOTS * OPS.len() * nvar + levels * nlay_slots * STORABLE_OPS.len() * nlay + levels * NOARG_SLOTS.len() * NOARG_OPS.len()) as u64
}

impl Prop for C32 {
    fn id(&self) -> &'static str {
        "C32"
    }
    fn level(&self) -> &'static str {
        "exploration"
    }
    fn n_units(&self, tier: Tier) -> usize {
        shapes(tier_depth(tier)).len()
    }
    fn expected_evaluations(&self, tier: Tier) -> Option<u64> {
        let (nv, ns, nl) = (variants(tier).len(), layout_slots(tier).len(), layouts(tier).len());
        Some(shapes(tier_depth(tier)).iter().map(|s| cases_per_shape(s, nv, ns, nl)).sum())
    }
    fn min_classes(&self) -> usize {
        5
    }
    fn run_unit(&self, tier: Tier, unit: usize, out: &mut UnitOut) {
        let shs = shapes(tier_depth(tier));
        let shape = &shs[unit];
        let vars = variants(tier);
        let d = shape.levels.len();
        let mut idx: u64 = 0;
        for level in 0..=d {
            for slot in 0..NSLOTS {
                for op in 0..OPS.len() {
                    for var in &vars {
                        let my = idx;
                        idx += 1;
                        if !out.begin_case(my) {
                            continue;
                        }
                        let case_text = format!(
                            "C32 chain [{}] fail at level {level} slot {slot} op {} nonascii k={} form={:?} ch={}",
                            shape_text(shape),
                            OPS[op],
                            var.k,
                            var.form,
                            var.ch
                        );
                        out.describe_case(&case_text);
                        out.evaluations += 1;
                        out.nontrivial_text(&case_text);
                        let b = build(shape, level, slot, op, Lay::OneLine, *var, false);
                        run_one(out, &case_text, &b, OPS[op], Lay::OneLine, var.k, my);
                    }
                }
            }
        }
        // second family (after the first, so that the case indices of the first are unchanged)
        let lays = layouts(tier);
        let lay_slots = layout_slots(tier);
        for level in 0..=d {
            for &slot in &lay_slots {
                for op in STORABLE_OPS {
                    for lay in &lays {
                        let my = idx;
                        idx += 1;
                        if !out.begin_case(my) {
                            continue;
                        }
                        let case_text = format!("C32 chain [{}] fail at level {level} slot {slot} op {} layout {}", shape_text(shape), OPS[op], lay.name());
                        out.describe_case(&case_text);
                        out.evaluations += 1;
                        out.nontrivial_text(&case_text);
                        let b = build(shape, level, slot, op, *lay, PLAIN, false);
                        run_one(out, &case_text, &b, OPS[op], *lay, 0, my);
                    }
                }
            }
        }
        // third family: calls without arguments (the call is the first instruction of its source line)
        for level in 0..=d {
            for slot in NOARG_SLOTS {
                for op in NOARG_OPS {
                    let my = idx;
                    idx += 1;
                    if !out.begin_case(my) {
                        continue;
                    }
                    let case_text = format!("C32 chain [{}] fail at level {level} slot {slot} op {} calls without arguments", shape_text(shape), OPS[op]);
                    out.describe_case(&case_text);
                    out.evaluations += 1;
                    out.nontrivial_text(&case_text);
                    let b = build(shape, level, slot, op, Lay::OneLine, PLAIN, true);
                    run_one(out, &case_text, &b, OPS[op], Lay::OneLine, 0, my);
                }
            }
        }
        assert_eq!(idx, cases_per_shape(shape, vars.len(), lay_slots.len(), lays.len()));
    }
    fn rule(&self, tier: Tier) -> String {
        format!(
            "every call chain <main> -> L1 .. Ld, d <= {}, each level a named function, member function or lambda (lambda defined in its caller's body; functions/methods in the caller's file or any later of 3 files), \
             x every (level, statement position) pair with {} positions per body (start, before the call, after the call, inside a nested if block, before the final expression) \
             x failing operation {:?} x non-ASCII variants {:?} (k characters in a comment or string-literal line above all code of every file); \
             plus, for every level and the statement positions {:?} (numbered in the order above from 0), the storable failing operations {:?} x statement layouts {:?} in which the operator expression (always written on one line) stands on a later line than \
             the `let` / assignment that stores its result (right-hand side wrapped after `=`, wrapped with a comment line in between, block-valued right-hand side; assignment to a `var` declared on the line before): \
             the expected failing line is the line of the operator expression, not the line of the `let` / `w =`. \
             plus, for every level, the statement positions {:?} and the operations array-oob and unwrap-none, the same chain with every call written without arguments (`let r = f()`; the callee declares its own x), so that the call is the first instruction of its source line. \
             Expected traceback computed by the generator from the line numbers it emitted: failing file:line + function name, then the call-site file:line + function name of every active call, innermost first; \
             for unwrap-none one leading prelude.abra/unwrap frame is required and its line is not asserted. Function names asserted: <main>, unqualified fn/method name, <lambda>. \
             Every case is a distinct program and counts as non-trivial (a runtime error below at least the top-level frame).",
            tier_depth(tier),
            NSLOTS,
            OPS,
            variants(tier).iter().map(|v| format!("{}x{:?}{:?}", v.k, v.ch, v.form)).collect::<Vec<_>>(),
            layout_slots(tier),
            &OPS[STORABLE_OPS],
            layouts(tier).iter().map(|l| l.name()).collect::<Vec<_>>(),
            NOARG_SLOTS
        )
    }
    fn assumptions(&self) -> Vec<String> {
        vec![
            "the property's 'random statement' is replaced by every statement position of every function of the chain".into(),
            "a callee in an earlier file than its caller (import cycle) is not generated".into(),
            "the line of the prelude's own frame for `!` on none is not asserted (depends on prelude.abra layout), only file and function name".into(),
            "'the line of the operation that failed' is the line on which the failing operator's expression is written; the generator writes that expression on a single line, so its first token, the operator and its last token are all on that line (an operator expression that itself spans lines is not generated: the statement does not say which of its lines is meant)".into(),
        ]
    }
}

fn run_one(out: &mut UnitOut, case_text: &str, b: &Built, op: &str, lay: Lay, k: usize, my: u64) {
    let files_json: serde_json::Value =
        b.src.files.iter().map(|(n, t)| (n.clone(), serde_json::Value::String(t.clone()))).collect::<serde_json::Map<_, _>>().into();
    let exp_kind = if op == "unwrap-none" { "panic" } else { op };
    let exp_str: Vec<String> = b.expected.iter().map(|(f, l, n)| format!("{f}:{l} in `{n}`")).collect();
    let key0 = format!("input:{}", hkey(case_text));
    let prog = match drive::compile(&b.src, COpts::default()) {
        Compiled::Ok(p) => p,
        Compiled::Diag(dg) => {
            out.class("violation:rejected");
            out.violation(
                vec![key0],
                format!("{case_text}: generated program rejected by the compiler"),
                json!({"case": case_text, "files": files_json, "diagnostics": dg}),
            );
            return;
        }
        Compiled::Panic(p) => {
            out.class("violation:compiler-panic");
            out.violation(
                vec![key0, p.site_key()],
                format!("{case_text}: compiler panic at {}: {}", p.site, p.msg),
                json!({"case": case_text, "files": files_json, "panic": p.msg, "site": p.site}),
            );
            return;
        }
    };
    let r = drive::run(&prog, &b.src.host_table(), StdHost::default(), ROpts::default());
    match &r.end {
        End::Error { kind, text } => {
            let tb = drive::traceback(text);
            let user: &[(String, u32, String)] = if op == "unwrap-none" {
                if tb.first().map(|t| t.0 == "prelude.abra" && t.2 == "unwrap").unwrap_or(false) { &tb[1..] } else { &tb[..] }
            } else {
                &tb[..]
            };
            let prelude_ok = op != "unwrap-none" || tb.len() == user.len() + 1;
            if kind == exp_kind && prelude_ok && user == &b.expected[..] {
                if lay == Lay::OneLine {
                    out.class(&format!("match:{op}:frames{}", b.expected.len()));
                } else {
                    out.class(&format!("match:{op}:{}", lay.name()));
                }
                if my % 211 == 0 {
                    out.sample(json!({"case": case_text, "files": files_json, "expected_traceback": exp_str, "observed": text}));
                }
                return;
            }
            // classify the disagreement
            let mut keys = vec![key0];
            let same_shape = kind == exp_kind
                && prelude_ok
                && user.len() == b.expected.len()
                && user.iter().zip(&b.expected).all(|(o, e)| o.0 == e.0 && o.2 == e.2);
            let mut cls = "violation:other";
            if same_shape && k > 0 {
                let within = user.iter().zip(&b.expected).all(|(o, e)| {
                    let text = &b.src.files.iter().find(|f| f.0 == e.0).unwrap().1;
                    o.1 <= e.1 && o.1 >= lowest_shifted_line(text, e.1)
                });
                if within {
                    keys.push("cause:nonascii-above-shifts-line".into());
                    cls = "violation:line-shifted-by-nonascii-above";
                }
            } else if same_shape && b.stmt_line != b.expected[0].1 && user[0].1 == b.stmt_line && user[1..].iter().zip(&b.expected[1..]).all(|(o, e)| o.1 == e.1) {
                keys.push("cause:line-of-enclosing-statement-instead-of-operation".into());
                cls = "violation:line-of-the-let-or-assignment-instead-of-the-operation";
            } else if same_shape {
                cls = "violation:wrong-line";
            }
            out.class(cls);
            out.violation(
                keys,
                format!(
                    "{case_text}: expected {exp_kind} with traceback {:?}, observed {kind} with {:?}",
                    exp_str,
                    tb.iter().map(|(f, l, n)| format!("{f}:{l} in `{n}`")).collect::<Vec<_>>()
                ),
                json!({"case": case_text, "files": files_json, "main": "main.abra", "expected_kind": exp_kind,
                       "expected_traceback": exp_str, "observed": text}),
            );
        }
        other => {
            let mut keys = vec![key0];
            if let End::Fault(p) = other {
                keys.push(p.site_key());
            }
            out.class(&format!("violation:{}", other.class()));
            out.violation(
                keys,
                format!("{case_text}: expected runtime error {exp_kind}, observed {}", crate::batch::short_end(other)),
                json!({"case": case_text, "files": files_json, "expected_kind": exp_kind, "expected_traceback": exp_str,
                       "observed": format!("{other:?}")}),
            );
        }
    }
}
