//! C38 — arena allocation is memory-safe for values of any size.
//!
//! Every allocation sequence up to a bounded length over a menu of (size, align) shapes, from
//! several initial capacities, on the real `utils::arena::Arena`. Direct oracle: alignment,
//! containment in one of the arena's buffers (hook `verif_buffers`), pairwise disjointness, and
//! read-back of every earlier value. The same sequences run again in the AddressSanitizer build.

use crate::drive::catch;
use crate::explore::for_each_seq;
use crate::fw::{Prop, Tier, UnitOut, hkey};
use serde_json::json;
use utils::arena::Arena;

pub struct C38;

#[derive(Clone, Copy)]
#[repr(align(32))]
struct A32x64([u8; 64]);
#[derive(Clone, Copy)]
#[repr(align(64))]
struct A64x64([u8; 64]);

const SHAPES: [(&str, usize, usize); 10] = [
    ("u8", 1, 1),
    ("u16", 2, 2),
    ("u32", 4, 4),
    ("u64", 8, 8),
    ("u128", 16, 16),
    ("[u64;3]", 24, 8),
    ("align32x64", 64, 32),
    ("[u8;100]", 100, 1),
    ("[u64;512]", 4096, 8),
    ("align64x64", 64, 64),
];
const CAPS: [usize; 5] = [0, 1, 8, 64, 100];

/// allocate shape `k` filled with byte pattern `pat`; returns (address, size, align)
fn alloc_shape(arena: &Arena, k: usize, pat: u8) -> (usize, usize, usize) {
    macro_rules! go {
        ($v:expr, $t:ty) => {{
            let r = arena.alloc::<$t>($v);
            (&*r as *const $t as usize, size_of::<$t>(), align_of::<$t>())
        }};
    }
    let p64 = u64::from_ne_bytes([pat; 8]);
    match k {
        0 => go!(pat, u8),
        1 => go!(u16::from_ne_bytes([pat; 2]), u16),
        2 => go!(u32::from_ne_bytes([pat; 4]), u32),
        3 => go!(p64, u64),
        4 => go!(u128::from_ne_bytes([pat; 16]), u128),
        5 => go!([p64; 3], [u64; 3]),
        6 => go!(A32x64([pat; 64]), A32x64),
        7 => go!([pat; 100], [u8; 100]),
        8 => go!([p64; 512], [u64; 512]),
        _ => go!(A64x64([pat; 64]), A64x64),
    }
}

fn seq_text(cap: usize, seq: &[usize]) -> String {
    format!(
        "Arena::with_capacity({cap}); alloc {}",
        seq.iter().map(|k| SHAPES[*k].0).collect::<Vec<_>>().join(", ")
    )
}

/// Returns Ok(number of buffer switches) or the first violated condition.
fn exec(cap: usize, seq: &[usize]) -> Result<usize, String> {
    let arena = Arena::with_capacity(cap);
    let mut live: Vec<(usize, usize, u8)> = vec![];
    for (i, k) in seq.iter().enumerate() {
        let pat = 0xA0u8.wrapping_add(i as u8);
        let (addr, size, align) = alloc_shape(&arena, *k, pat);
        let name = SHAPES[*k].0;
        if addr % align != 0 {
            return Err(format!("allocation #{i} ({name}) at {addr:#x} is not aligned to {align}"));
        }
        let bufs = arena.verif_buffers();
        let inside = bufs.iter().any(|(b, l)| addr >= *b && addr + size <= *b + *l);
        if !inside {
            return Err(format!(
                "allocation #{i} ({name}, {size} bytes) lies outside every arena buffer (buffer lengths {:?}, offset from current buffer start {})",
                bufs.iter().map(|b| b.1).collect::<Vec<_>>(),
                addr as isize - bufs.last().unwrap().0 as isize
            ));
        }
        for (j, (a, s, _)) in live.iter().enumerate() {
            if addr < a + s && *a < addr + size {
                return Err(format!("allocation #{i} ({name}) overlaps allocation #{j}"));
            }
        }
        live.push((addr, size, pat));
        // every earlier value (and this one) still reads back its own pattern; all addresses were
        // just shown to lie inside live arena buffers, so the reads are in bounds
        for (j, (a, s, p)) in live.iter().enumerate() {
            let bytes = unsafe { std::slice::from_raw_parts(*a as *const u8, *s) };
            if bytes.iter().any(|b| b != p) {
                return Err(format!("value of allocation #{j} was overwritten after allocation #{i} ({name})"));
            }
        }
    }
    Ok(arena.verif_buffers().len() - 1)
}

impl C38 {
    fn maxlen(tier: Tier) -> usize {
        tier.pick(5, 7)
    }
}

impl Prop for C38 {
    fn id(&self) -> &'static str {
        "C38"
    }
    fn level(&self) -> &'static str {
        "model_checking"
    }
    fn asan(&self) -> bool {
        true
    }
    fn n_units(&self, _tier: Tier) -> usize {
        CAPS.len() * SHAPES.len()
    }
    fn expected_evaluations(&self, tier: Tier) -> Option<u64> {
        let n = SHAPES.len() as u64;
        let l = Self::maxlen(tier) as u32;
        // per capacity: sequences of length 1..=l, plus the empty sequence once per capacity
        let per_cap: u64 = (1..=l).map(|i| n.pow(i)).sum::<u64>() + 1;
        let total = per_cap * CAPS.len() as u64;
        Some(if C38.asan() && std::env::var("VERIF_NO_ASAN").is_err() { 2 * total } else { total })
    }
    fn run_unit(&self, tier: Tier, unit: usize, out: &mut UnitOut) {
        let cap = CAPS[unit / SHAPES.len()];
        let first = unit % SHAPES.len();
        let mut case = 0u64;
        let mut one = |seq: &[usize], out: &mut UnitOut| {
            let idx = case;
            case += 1;
            if !out.begin_case(idx) {
                return;
            }
            let text = seq_text(cap, seq);
            out.describe_case(&text);
            out.evaluations += 1;
            out.transitions += seq.len() as u64;
            out.states += 1;
            out.traces += 1;
            let r = match catch(|| exec(cap, seq)) {
                Ok(r) => r,
                Err(p) => Err(format!("panic in a safe operation at {}: {}", p.site, p.msg)),
            };
            match r {
                Ok(sw) => {
                    out.class(&format!("ok-switches-{}", sw.min(4)));
                    if sw > 0 {
                        out.nontrivial_text(&text);
                    }
                    if seq.len() == 4 && sw >= 2 {
                        out.sample(json!(text));
                    }
                }
                Err(e) => {
                    out.class("violation");
                    out.violation(
                        vec![format!("input:{}", hkey(&text))],
                        format!("{text} => {e}"),
                        json!({"sequence": text, "observed": e}),
                    );
                }
            }
        };
        if first == 0 {
            one(&[], out);
        }
        for len in 1..=Self::maxlen(tier) {
            for_each_seq(SHAPES.len(), len - 1, |rest| {
                let mut seq = vec![first];
                seq.extend_from_slice(rest);
                one(&seq, out);
            });
        }
    }
    fn rule(&self, tier: Tier) -> String {
        format!(
            "all allocation sequences of length <= {} over {} (size,align) shapes {:?} from initial capacities {:?}; each sequence is one \
             state-machine run of the real arena (states = sequences, transitions = allocations) checked after every allocation for alignment, \
             containment in an arena buffer, disjointness and read-back of all earlier values; non-trivial = at least one buffer switch; \
             every unit is executed by the plain build and again by the AddressSanitizer build",
            Self::maxlen(tier),
            SHAPES.len(),
            SHAPES.iter().map(|s| (s.1, s.2)).collect::<Vec<_>>(),
            CAPS
        )
    }
    fn assumptions(&self) -> Vec<String> {
        vec![
            "Arena::verif_buffers (read-only hook) reports the arena's buffers truthfully".into(),
            "AddressSanitizer is the monitor for out-of-bounds writes that the direct containment check would also report".into(),
        ]
    }
}
