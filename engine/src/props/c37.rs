//! C37 — the interning set is a sound, order-preserving id map.
//!
//! Explicit-state search over operation histories of the real `utils::id_set::IdSet`, compared
//! on every transition with a Vec + position-lookup model. The same enumeration is executed a
//! second time by the AddressSanitizer build of this binary (see fw::run_property).

use crate::drive::catch;
use crate::explore::opseq_bfs;
use crate::fw::{Prop, Tier, UnitOut};
use serde_json::json;
use std::fmt::Debug;
use std::hash::Hash;
use utils::id_set::IdSet;

pub struct C37;

#[derive(Clone, Copy, Debug, PartialEq, Eq, Hash)]
pub enum Op {
    /// insert a value not yet in the set (next fresh one)
    Fresh,
    /// insert the one long (40-byte) value; a duplicate if already present
    Long,
    /// re-insert the first / last present element (duplicate insert)
    DupFirst,
    DupLast,
    Clear,
    /// s = s.clone() with the original kept alive / dropped / cleared (and kept)
    CloneKeep,
    CloneDrop,
    CloneClearOrig,
}
const OPS: [Op; 8] = [
    Op::Fresh,
    Op::Long,
    Op::DupFirst,
    Op::DupLast,
    Op::Clear,
    Op::CloneKeep,
    Op::CloneDrop,
    Op::CloneClearOrig,
];

pub trait Elem: Hash + Eq + Clone + Debug {
    const NAME: &'static str;
    /// number of distinct short values available
    const DISTINCT: usize;
    fn fresh(i: usize) -> Self;
    fn long() -> Option<Self>;
}
impl Elem for String {
    const NAME: &'static str = "String";
    const DISTINCT: usize = 16;
    fn fresh(i: usize) -> Self {
        format!("v{i}")
    }
    fn long() -> Option<Self> {
        Some("0123456789012345678901234567890123456789".to_string())
    }
}
impl Elem for u8 {
    const NAME: &'static str = "u8";
    const DISTINCT: usize = 16;
    fn fresh(i: usize) -> Self {
        i as u8
    }
    fn long() -> Option<Self> {
        Some(255)
    }
}
impl Elem for () {
    const NAME: &'static str = "unit";
    const DISTINCT: usize = 1;
    fn fresh(_i: usize) -> Self {}
    fn long() -> Option<Self> {
        None
    }
}
impl Elem for Vec<u64> {
    const NAME: &'static str = "Vec<u64>";
    const DISTINCT: usize = 16;
    fn fresh(i: usize) -> Self {
        vec![i as u64; i % 3]
            .into_iter()
            .chain(std::iter::once(i as u64 + 100))
            .collect()
    }
    fn long() -> Option<Self> {
        Some((0..64).collect())
    }
}

/// Abstract effect of a history: the event string that determines the structure's state for any
/// implementation that is oblivious to element values beyond equality, plus the model contents.
/// `None` when an op's side condition fails (Dup on empty set, no fresh values left, …).
fn abstract_key<T: Elem>(h: &[Op]) -> Option<(Vec<u8>, usize, bool)> {
    let mut ev: Vec<u8> = vec![];
    let mut n = 0usize; // elements present
    let mut fresh_used = 0usize;
    let mut long_in = false;
    let mut clones = 0;
    let mut clears = 0;
    for op in h {
        match op {
            Op::Fresh => {
                if fresh_used >= T::DISTINCT {
                    return None;
                }
                if T::DISTINCT == 1 && n >= 1 {
                    return None;
                }
                fresh_used += 1;
                n += 1;
                ev.push(b'U');
            }
            Op::Long => {
                T::long()?;
                if long_in {
                    ev.push(b'D');
                } else {
                    long_in = true;
                    n += 1;
                    ev.push(b'L');
                }
            }
            Op::DupFirst | Op::DupLast => {
                if n == 0 {
                    return None;
                }
                if *op == Op::DupLast && n == 1 {
                    return None; // same as DupFirst
                }
                ev.push(b'D');
            }
            Op::Clear => {
                clears += 1;
                if clears > 2 {
                    return None;
                }
                n = 0;
                long_in = false;
                if T::DISTINCT == 1 {
                    fresh_used = 0;
                }
                ev.push(b'C');
            }
            Op::CloneKeep | Op::CloneDrop | Op::CloneClearOrig => {
                clones += 1;
                if clones > 2 {
                    return None;
                }
                ev.push(match op {
                    Op::CloneKeep => b'k',
                    Op::CloneDrop => b'd',
                    _ => b'c',
                });
            }
        }
        // a run of duplicate inserts longer than two cannot reach a new layout
        let l = ev.len();
        if l >= 3 && ev[l - 1] == b'D' && ev[l - 2] == b'D' && ev[l - 3] == b'D' {
            ev.pop();
        }
    }
    Some((ev, n, long_in))
}

fn observe<T: Elem>(set: &IdSet<T>, model: &[T], probes: &[T], what: &str) -> Result<(), String> {
    if set.len() != model.len() {
        return Err(format!("{what}: len {} != model {}", set.len(), model.len()));
    }
    if set.is_empty() != model.is_empty() {
        return Err(format!("{what}: is_empty disagrees"));
    }
    for p in probes {
        let m = model.iter().position(|x| x == p).map(|i| i as u32);
        let r = set.try_get_id(p);
        if r != m {
            return Err(format!("{what}: try_get_id({p:?}) = {r:?}, model {m:?}"));
        }
        if set.contains(p) != m.is_some() {
            return Err(format!("{what}: contains({p:?}) disagrees"));
        }
    }
    for (i, v) in model.iter().enumerate() {
        let r = &set[i as u32];
        if r != v {
            return Err(format!("{what}: set[{i}] = {r:?}, model {v:?}"));
        }
    }
    let it: Vec<T> = set.iter().cloned().collect();
    if it != model {
        return Err(format!("{what}: iter() = {it:?}, model {model:?}"));
    }
    let mut it2 = vec![];
    for x in set {
        it2.push(x.clone());
    }
    if it2 != model {
        return Err(format!("{what}: (&set).into_iter() = {it2:?}, model {model:?}"));
    }
    let dbg = format!("{set:?}");
    let mut mdbg = String::new();
    let _ = std::fmt::Write::write_fmt(&mut mdbg, format_args!("{:?}", DebugSet(model)));
    if dbg != mdbg {
        return Err(format!("{what}: Debug = {dbg}, model {mdbg}"));
    }
    Ok(())
}

fn exec_history<T: Elem>(h: &[Op]) -> Result<String, String> {
    let mut set: IdSet<T> = IdSet::new();
    let mut model: Vec<T> = vec![];
    let mut kept: Vec<(IdSet<T>, Vec<T>)> = vec![];
    let mut fresh = 0usize;
    let mut probes: Vec<T> = (0..T::DISTINCT.min(4)).map(T::fresh).collect();
    if let Some(l) = T::long() {
        probes.push(l);
    }
    for (step, op) in h.iter().enumerate() {
        match op {
            Op::Fresh | Op::Long | Op::DupFirst | Op::DupLast => {
                let v = match op {
                    Op::Fresh => {
                        let v = T::fresh(fresh);
                        fresh += 1;
                        v
                    }
                    Op::Long => T::long().unwrap(),
                    Op::DupFirst => model[0].clone(),
                    _ => model[model.len() - 1].clone(),
                };
                if !probes.contains(&v) {
                    probes.push(v.clone());
                }
                let expect = match model.iter().position(|x| *x == v) {
                    Some(i) => i as u32,
                    None => {
                        model.push(v.clone());
                        (model.len() - 1) as u32
                    }
                };
                let got = set.insert(v.clone());
                if got != expect {
                    return Err(format!("step {step}: insert({v:?}) returned id {got}, model {expect}"));
                }
            }
            Op::Clear => {
                set.clear();
                model.clear();
                if T::DISTINCT == 1 {
                    fresh = 0;
                }
            }
            Op::CloneKeep => {
                let c = set.clone();
                let orig = std::mem::replace(&mut set, c);
                kept.push((orig, model.clone()));
            }
            Op::CloneDrop => {
                let c = set.clone();
                let orig = std::mem::replace(&mut set, c);
                drop(orig);
            }
            Op::CloneClearOrig => {
                let c = set.clone();
                let mut orig = std::mem::replace(&mut set, c);
                orig.clear();
                kept.push((orig, vec![]));
            }
        }
        if set.len() != model.len() {
            return Err(format!("step {step}: len {} != model {}", set.len(), model.len()));
        }
    }
    observe(&set, &model, &probes, "final")?;
    // out-of-range lookup by id must panic like a vector index, not return a reference
    let n = model.len() as u32;
    let r = catch(|| {
        let _ = &set[n];
    });
    if r.is_ok() {
        return Err(format!("set[{n}] (out of range) returned a reference instead of panicking"));
    }
    for (i, (k, m)) in kept.iter().enumerate() {
        observe(k, m, &probes, &format!("kept original #{i}"))?;
    }
    // consuming iteration
    let consumed: Vec<T> = set.into_iter().collect();
    if consumed != model {
        return Err(format!("into_iter() = {consumed:?}, model {model:?}"));
    }
    for (k, m) in kept {
        let c: Vec<T> = k.into_iter().collect();
        if c != m {
            return Err(format!("kept original into_iter() = {c:?}, model {m:?}"));
        }
    }
    Ok(format!("n={}", model.len().min(9)))
}

fn hist_text(ty: &str, h: &[Op]) -> String {
    format!("IdSet<{ty}>: {}", h.iter().map(|o| format!("{o:?}")).collect::<Vec<_>>().join(" "))
}

fn run_ty<T: Elem>(prefix: Vec<Op>, depth: usize, out: &mut UnitOut) {
    if abstract_key::<T>(&prefix).is_none() {
        out.class("pruned-prefix");
        return;
    }
    opseq_bfs(
        prefix,
        &OPS,
        depth,
        |h| abstract_key::<T>(h),
        |h, out| {
            let text = hist_text(T::NAME, h);
            out.describe_case(&text);
            let r = catch(|| exec_history::<T>(h));
            let r = match r {
                Ok(r) => r,
                Err(p) => Err(format!("panic in a safe operation at {}: {}", p.site, p.msg)),
            };
            match r {
                Ok(c) => {
                    out.class(&c);
                    if h.iter().any(|o| matches!(o, Op::CloneKeep | Op::CloneDrop | Op::CloneClearOrig | Op::Clear))
                        || h.len() >= 3
                    {
                        out.nontrivial_text(&text);
                    }
                    if h.len() == 5 {
                        out.sample(json!(text));
                    }
                }
                Err(e) => {
                    out.class("violation");
                    out.violation(
                        vec![format!("input:{}", crate::fw::hkey(&text))],
                        format!("{text} => {e}"),
                        json!({"history": text, "observed": e}),
                    );
                }
            }
        },
        out,
        50_000_000,
    );
}

const TYPES: usize = 4;
impl C37 {
    fn depth(tier: Tier) -> usize {
        tier.pick(6, 9)
    }
}

impl Prop for C37 {
    fn id(&self) -> &'static str {
        "C37"
    }
    fn level(&self) -> &'static str {
        "model_checking"
    }
    fn n_units(&self, _tier: Tier) -> usize {
        // element type × first two operations
        TYPES * OPS.len() * OPS.len()
    }
    fn asan(&self) -> bool {
        true
    }
    fn run_unit(&self, tier: Tier, unit: usize, out: &mut UnitOut) {
        let ty = unit / (OPS.len() * OPS.len());
        let p1 = OPS[(unit / OPS.len()) % OPS.len()];
        let p2 = OPS[unit % OPS.len()];
        let prefix = vec![p1, p2];
        let depth = Self::depth(tier) - 2;
        match ty {
            0 => run_ty::<String>(prefix, depth, out),
            1 => run_ty::<u8>(prefix, depth, out),
            2 => run_ty::<()>(prefix, depth, out),
            _ => run_ty::<Vec<u64>>(prefix, depth, out),
        }
        // histories shorter than the prefix are covered once, by unit 0 of each type
        if unit % (OPS.len() * OPS.len()) == 0 {
            let base = 1_000_000_000u64;
            let shorts: Vec<Vec<Op>> =
                std::iter::once(vec![]).chain(OPS.iter().map(|o| vec![*o])).collect();
            for (i, h) in shorts.iter().enumerate() {
                if !out.begin_case(base + i as u64) {
                    continue;
                }
                let (text, r) = match ty {
                    0 => (hist_text("String", h), short::<String>(h)),
                    1 => (hist_text("u8", h), short::<u8>(h)),
                    2 => (hist_text("unit", h), short::<()>(h)),
                    _ => (hist_text("Vec<u64>", h), short::<Vec<u64>>(h)),
                };
                out.evaluations += 1;
                out.transitions += 1;
                out.traces += 1;
                if let Some(Err(e)) = r {
                    out.violation(
                        vec![format!("input:{}", crate::fw::hkey(&text))],
                        format!("{text} => {e}"),
                        json!({"history": text, "observed": e}),
                    );
                }
            }
        }
    }
    fn rule(&self, tier: Tier) -> String {
        format!(
            "breadth-first search over all operation histories of length <= {} on IdSet<T> for T in {{String, u8, (), Vec<u64>}} \
             (ops: insert fresh / long / duplicate-of-first / duplicate-of-last, clear, clone with the original kept / dropped / cleared; \
             <= 2 clones and <= 2 clears per history); histories merged on their abstract event string (value-oblivious), every transition \
             executed on the real structure from scratch and compared with a Vec model (ids, lookups by value and id, iteration, into_iter, \
             out-of-range index, kept originals); non-trivial = contains clear/clone or >= 3 ops; every unit is executed by the plain build \
             and again by the AddressSanitizer build of the same enumeration",
            Self::depth(tier)
        )
    }
    fn assumptions(&self) -> Vec<String> {
        vec![
            "state merging assumes the structure is oblivious to element values beyond Hash/Eq (every transition is still executed)".into(),
            "AddressSanitizer (nightly rustc -Zsanitizer=address) is the monitor for use-after-free/overflow inside the enumerated runs".into(),
        ]
    }
}

fn short<T: Elem>(h: &[Op]) -> Option<Result<String, String>> {
    abstract_key::<T>(h)?;
    Some(match catch(|| exec_history::<T>(h)) {
        Ok(r) => r,
        Err(p) => Err(format!("panic in a safe operation at {}: {}", p.site, p.msg)),
    })
}

struct DebugSet<'a, T>(&'a [T]);
impl<T: Debug> Debug for DebugSet<'_, T> {
    fn fmt(&self, f: &mut std::fmt::Formatter<'_>) -> std::fmt::Result {
        f.debug_set().entries(self.0.iter()).finish()
    }
}
