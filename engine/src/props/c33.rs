//! C33 — diagnostics point at the offending source text.
//!
//! Universe: erroneous programs made by every applicable single *error mutation* at every site of the
//! shortest corpus programs and the 5 hand-written non-ASCII programs {rename an identifier to an undefined
//! name, swap a literal for one of another type, delete one single-line match arm, assign to a `let`, drop /
//! add one call argument, unknown field, unknown named argument, delete one token, put a bad escape into a
//! string literal} × 7 prefix variants that put non-ASCII text before the error site {none, a `// é` line, a
//! `// 日本語` line, a string literal with 1 / 7 non-ASCII chars on the line above, the same two on the same
//! line before the site} + up to 3 in-literal variants: when the site lies inside, or on the same line after, a
//! single-line string literal, `é` / `日本` is put at the start of THAT literal's content (so a span computed
//! relative to the literal's start has non-ASCII text between the literal's start and the site: `"é\q…"`,
//! `'日本\q…'`), and for the bad-escape mutation the escaped character itself is made non-ASCII (`\é`).
//!
//! Oracle, for every diagnostic of `check_lsp(..).errors()` (no hand-written expectations):
//!  (a) the primary range has start ≤ end, end ≤ byte length of the file it names, both ends on UTF-8 char
//!      boundaries of that file's source;
//!  (b) differential: let A be the "ASCII twin" of the text V (each non-ASCII char replaced by `@`, so char
//!      counts and char positions are identical, and `@` is as unrecognisable to the lexer as `é`). If V and A
//!      get the same list of messages (else the pair is not comparable and only (a) is asserted), the i-th
//!      range of V must cover the same chars as the i-th range of A; a range computed in chars but used as
//!      bytes covers shifted text;
//!  (c) weak locality, asserted only where it is unambiguous and only on pure-ASCII texts (so that it is a
//!      separate root cause from (b)): after renaming a *use* of a name (an identifier whose definition_at in
//!      the unmutated program is elsewhere) to an undefined name, and after putting `\q` into a string
//!      literal, some diagnostic's range must intersect the line(s) of the renamed identifier / the bytes of the literal.

use super::text_util::{self as tu, ErrMut, error_mutations};
use crate::drive;
use crate::fw::{Prop, Tier, UnitOut, hkey};
use serde_json::json;
use std::path::Path;
use std::sync::OnceLock;

pub struct C33;

const QUICK_BUDGET_CORE_S: f64 = 320.0;
const THOROUGH_BUDGET_CORE_S: f64 = 7000.0;
/// measured CPU cost of one error mutation (≈ 13 analyses)
const MUT_US: f64 = 170_000.0;
const CHUNK: usize = 24;
const NVAR: usize = 10;
const PER_UNIT_CAP: i64 = 4;
const VARIANTS: [&str; NVAR] = [
    "no prefix",
    "comment line `// é` above",
    "comment line `// 日本語` above",
    "string literal \"é\" on the line above",
    "string literal \"日本語テキスト\" on the line above",
    "string literal \"é\" on the same line before the site",
    "string literal \"日本語テキスト\" on the same line before the site",
    "`é` put at the start of the string literal that contains / precedes the site on its line",
    "`日本` put at the start of the string literal that contains / precedes the site on its line",
    "bad escape with a non-ASCII escaped character: `\\é` instead of `\\q`",
];

/// The single-line `"…"` / `'…'` literal of the mutated text that the in-literal variants fill: the last one that starts
/// on the site's line at or before the site (the site is inside it, or after it on the same line). Returns the byte
/// offset of the literal's first content character.
fn target_literal(m: &ErrMut) -> Option<usize> {
    let t = &m.text;
    let lo = m.lo.min(t.len());
    let line_start = t[..lo].rfind('\n').map(|i| i + 1).unwrap_or(0);
    tu::tokenize(t)
        .iter()
        .filter(|k| {
            let txt = &t[k.lo..k.hi];
            let q = txt.chars().next();
            k.kind == tu::TK::Str
                && k.lo >= line_start
                && k.lo <= lo
                && k.hi - k.lo >= 2
                && !txt.starts_with("\"\"\"")
                && !txt.contains('\n')
                && txt.ends_with(|c| Some(c) == q)
        })
        .last()
        .map(|k| k.lo + 1)
}

/// does prefix variant `k` exist for this mutation?
fn applicable(m: &ErrMut, k: usize) -> bool {
    match k {
        0..=6 => true,
        7 | 8 => target_literal(m).is_some(),
        _ => m.kind == "bad-escape",
    }
}

/// number of variants of one mutation (closed form of `applicable`)
fn n_variants(m: &ErrMut) -> usize {
    7 + 2 * target_literal(m).is_some() as usize + (m.kind == "bad-escape") as usize
}

fn splice(t: &str, lo: usize, hi: usize, with: &str) -> String {
    format!("{}{}{}", &t[..lo], with, &t[hi..])
}

/// the text of prefix variant `k` and the shifted site
fn variant(m: &ErrMut, k: usize) -> (String, usize, usize) {
    let t = &m.text;
    let lo = m.lo.min(t.len());
    let line_start = t[..lo].rfind('\n').map(|i| i + 1).unwrap_or(0);
    let (at, ins): (usize, &str) = match k {
        0 => return (t.clone(), m.lo, m.hi),
        1 => (line_start, "// é\n"),
        2 => (line_start, "// 日本語\n"),
        3 => (line_start, "\"é\"\n"),
        4 => (line_start, "\"日本語テキスト\"\n"),
        5 | 6 => {
            // first non-blank column of the site's line, but never after the site
            let indent = t[line_start..].chars().take_while(|c| *c == ' ' || *c == '\t').count();
            ((line_start + indent).min(lo), if k == 5 { "\"é\"; " } else { "\"日本語テキスト\"; " })
        }
        7 | 8 => {
            let at = target_literal(m).expect("variant 7/8 only where a literal exists");
            let ins = if k == 7 { "é" } else { "日本" };
            // the literal starts at or before the site: the site's start moves only if the literal ends before it
            let new_lo = if at <= m.lo { m.lo + ins.len() } else { m.lo };
            return (splice(t, at, at, ins), new_lo, m.hi + ins.len());
        }
        9 => {
            // the mutation put `\q` directly after the opening quote at m.lo
            assert!(m.kind == "bad-escape" && t[m.lo + 1..].starts_with("\\q"));
            return (splice(t, m.lo + 2, m.lo + 3, "é"), m.lo, m.hi + 1);
        }
        _ => unreachable!(),
    };
    (splice(t, at, at, ins), m.lo + ins.len(), m.hi + ins.len())
}

pub fn ascii_twin(s: &str) -> String {
    s.chars().map(|c| if c.is_ascii() { c } else { '@' }).collect()
}

#[derive(Clone, Debug)]
struct Diag {
    msg: String,
    file: u32,
    lo: usize,
    hi: usize,
    /// length of the source of `file`, and whether both ends are char boundaries (None if the file id is unknown)
    file_len: Option<usize>,
    on_boundaries: bool,
    is_main: bool,
    secondary_bad: usize,
}

/// analysis → diagnostics, or None if the analysis panicked
fn diagnostics(text: &str) -> Result<Vec<Diag>, drive::PanicInfo> {
    let src = tu::src_for(text);
    abra_core::verif::reset_counters(1);
    tu::watchdog_arm();
    let r = diagnostics_inner(&src);
    tu::watchdog_disarm();
    r
}

fn diagnostics_inner(src: &drive::Src) -> Result<Vec<Diag>, drive::PanicInfo> {
    drive::catch(|| {
        let res = abra_core::check_lsp(&src.main, src.provider());
        let main_id = res.file_id_for_path(Path::new(&src.main));
        let okr = |f: u32, lo: usize, hi: usize| match res.file_db.files.get(f as usize) {
            Some(fd) => {
                let n = fd.source.len();
                // a range end past the file is reported separately, so boundaries are tested on the clamped ends
                (Some(n), lo <= hi && hi <= n, fd.source.is_char_boundary(lo.min(n)) && fd.source.is_char_boundary(hi.min(n)))
            }
            None => (None, false, false),
        };
        res.errors()
            .into_iter()
            .map(|e| {
                let (file_len, _, on_boundaries) = okr(e.file_id, e.range.start, e.range.end);
                let secondary_bad = e.secondary_labels.iter().filter(|(f, r, _)| { let o = okr(*f, r.start, r.end); !(o.1 && o.2) }).count();
                Diag { msg: e.message, file: e.file_id, lo: e.range.start, hi: e.range.end, file_len, on_boundaries, is_main: Some(e.file_id) == main_id, secondary_bad }
            })
            .collect()
    })
}

fn char_pos(s: &str, byte: usize) -> usize {
    s[..byte].chars().count()
}

fn covered(s: &str, lo: usize, hi: usize) -> String {
    if lo <= hi && hi <= s.len() && s.is_char_boundary(lo) && s.is_char_boundary(hi) {
        s[lo..hi].to_string()
    } else {
        let (l, h) = (lo.min(s.len()), hi.min(s.len()).max(lo.min(s.len())));
        format!("<invalid {lo}..{hi}: bytes {:?}>", String::from_utf8_lossy(&s.as_bytes()[l..h]))
    }
}

fn judge(out: &mut UnitOut, origin: &str, m: &ErrMut, k: usize) {
    let (v, site_lo, site_hi) = variant(m, k);
    if out.isolate {
        out.describe_case(&v);
    }
    out.evaluations += 1;
    out.count(&format!("cases of kind {}", m.kind), 1);
    out.count(&format!("cases of variant #{k}"), 1);
    let a = ascii_twin(&v);
    let pure_ascii = a == v;
    let input_key = format!("input:{}", hkey(&v));
    let dv = match diagnostics(&v) {
        Ok(d) => d,
        Err(p) => {
            out.class("analysis panicked (C04/C34 territory, not judged here)");
            out.count(&format!("analysis panic {}", p.site_key()), 1);
            return;
        }
    };
    let da = if pure_ascii {
        Some(dv.clone())
    } else {
        match diagnostics(&a) {
            Ok(d) => Some(d),
            Err(_) => None,
        }
    };
    let mut causes: Vec<(String, String, serde_json::Value)> = vec![]; // (cause key, what, per-diagnostic detail)
    let mut push = |cause: &str, what: String, d: serde_json::Value| {
        if !causes.iter().any(|c| c.0 == cause) {
            causes.push((cause.to_string(), what, d));
        }
    };
    // (a) well-formed ranges
    for (i, d) in dv.iter().enumerate() {
        if d.secondary_bad > 0 {
            out.count("secondary_labels_with_malformed_range", d.secondary_bad as i64);
        }
        let Some(flen) = d.file_len else {
            push("cause:unknown-file-id", format!("diagnostic #{i} `{}` names file id {} which is not in the file database", d.msg, d.file), json!({"diag": i}));
            continue;
        };
        let info = json!({"diag": i, "message": d.msg, "file_id": d.file, "range": [d.lo, d.hi], "file_len": flen,
                          "covered": if d.is_main { covered(&v, d.lo, d.hi) } else { String::new() }});
        if d.lo > d.hi {
            push("cause:range-start-after-end", format!("diagnostic `{}`: range {}..{} has start > end", d.msg, d.lo, d.hi), info.clone());
        }
        if d.hi > flen {
            push("cause:range-past-end-of-file", format!("diagnostic `{}`: range {}..{} ends past the file's {} bytes", d.msg, d.lo, d.hi, flen), info.clone());
        }
        if !d.on_boundaries {
            push("cause:range-not-on-char-boundary", format!("diagnostic `{}`: range {}..{} is not on UTF-8 char boundaries", d.msg, d.lo, d.hi), info.clone());
        }
    }
    // (b) differential against the ASCII twin
    let mut comparable = false;
    if !pure_ascii {
        if let Some(da) = &da {
            comparable = da.len() == dv.len() && da.iter().zip(&dv).all(|(x, y)| x.msg == y.msg && x.file == y.file);
            if comparable {
                for (i, (x, y)) in da.iter().zip(&dv).enumerate() {
                    if !y.is_main {
                        if (x.lo, x.hi) != (y.lo, y.hi) {
                            push("cause:range-in-other-file-differs-from-ascii-twin", format!("diagnostic `{}`: range in file {} is {}..{} but {}..{} in the ASCII twin", y.msg, y.file, y.lo, y.hi, x.lo, x.hi), json!({"diag": i}));
                        }
                        continue;
                    }
                    // expected byte range in V = the byte positions of the twin's char positions (twin is pure ASCII: byte = char)
                    let to_byte = |c: usize| v.char_indices().map(|t| t.0).chain([v.len()]).nth(c);
                    let exp = (to_byte(x.lo.min(a.len())), to_byte(x.hi.min(a.len())));
                    let same = exp == (Some(y.lo.min(v.len())), Some(y.hi.min(v.len()))) && (x.hi > a.len()) == (y.hi > v.len());
                    if !same {
                        let as_chars = (x.lo, x.hi) == (y.lo, y.hi);
                        let info = json!({"diag": i, "message": y.msg.clone(), "range_in_text": [y.lo, y.hi], "covers": covered(&v, y.lo, y.hi),
                                          "range_in_ascii_twin": [x.lo, x.hi], "twin_covers": covered(&a, x.lo, x.hi),
                                          "expected_byte_range": [exp.0, exp.1], "expected_covers": match exp { (Some(l), Some(h)) => covered(&v, l, h), _ => String::new() }});
                        if as_chars {
                            push("cause:range-is-char-offsets-not-bytes", format!("diagnostic `{}`: range {}..{} covers {:?}; the ASCII twin's same diagnostic covers {:?} — the range counts chars, not bytes", y.msg, y.lo, y.hi, covered(&v, y.lo, y.hi), covered(&a, x.lo, x.hi)), info);
                        } else {
                            push("cause:range-differs-from-ascii-twin", format!("diagnostic `{}`: range {}..{} covers {:?} but the ASCII twin's covers {:?} at {}..{}", y.msg, y.lo, y.hi, covered(&v, y.lo, y.hi), covered(&a, x.lo, x.hi), x.lo, x.hi), info);
                        }
                    }
                }
            } else {
                out.count("pairs_not_comparable_twin_diagnostics_differ", 1);
            }
        } else {
            out.count("pairs_not_comparable_twin_analysis_panicked", 1);
        }
    }
    // (c) weak locality on pure-ASCII texts
    if m.locality && pure_ascii {
        let ls = v[..site_lo.min(v.len())].rfind('\n').map(|i| i + 1).unwrap_or(0);
        let le = v[site_hi.min(v.len())..].find('\n').map(|i| site_hi.min(v.len()) + i + 1).unwrap_or(v.len() + 1);
        // bad-escape: the diagnostic must touch the literal itself; rename: the line(s) of the identifier
        let (ls, le) = if m.kind == "bad-escape" { (site_lo, site_hi) } else { (ls, le) };
        let near = dv.iter().any(|d| d.is_main && d.lo < le && d.hi.max(d.lo + 1) > ls);
        out.count("locality_assertions", 1);
        if !near {
            push(
                &format!("cause:no-diagnostic-on-the-line-of-the-error:{}", m.kind),
                format!("{}: no diagnostic intersects the bytes {}..{} (bad-escape: the literal; rename: its line) of the mutated token; got {:?}", m.kind, ls, le, dv.iter().map(|d| (d.msg.as_str(), d.lo, d.hi)).collect::<Vec<_>>()),
                json!({"site": [site_lo, site_hi], "line_span": [ls, le]}),
            );
        }
    }
    // (d) a range that spans several tokens covers a construct, so it cannot cut through a bracket pair
    // (asserted only on texts whose own brackets are balanced: a mutation that deletes a bracket leaves no such constructs)
    let balanced = |lo: usize, hi: usize| -> Option<bool> {
        let toks: Vec<tu::Tok> = tu::tokenize(&v).into_iter().filter(|t| t.lo >= lo && t.hi <= hi && !matches!(t.kind, tu::TK::Space | tu::TK::Newline | tu::TK::Comment | tu::TK::Str)).collect();
        if toks.len() < 2 {
            return None;
        }
        let mut stack: Vec<char> = vec![];
        for t in &toks {
            match &v[t.lo..t.hi] {
                "(" => stack.push(')'),
                "[" => stack.push(']'),
                "{" => stack.push('}'),
                x @ (")" | "]" | "}") => {
                    if stack.pop() != x.chars().next() {
                        return Some(false);
                    }
                }
                _ => {}
            }
        }
        Some(stack.is_empty())
    };
    // ... and only for mutation kinds that leave the text syntactically well-formed: after a syntax error the parser's
    // recovered nodes (e.g. a call closed early at the error) are not constructs the user wrote
    let syntax_preserving = matches!(m.kind, "rename-to-undefined" | "unknown-field" | "literal-of-other-type" | "assign-to-let" | "unknown-named-argument" | "paren-operand");
    // ... and only for the variants that add a comment line or text inside a literal: a string-literal STATEMENT put on or
    // above the site's line (variants 3-6) is itself a syntax error when the site is inside a match or an argument list
    let variant_keeps_syntax = matches!(k, 0 | 1 | 2 | 7 | 8);
    let text_balanced = syntax_preserving && variant_keeps_syntax && balanced(0, v.len()) != Some(false);
    for (i, d) in dv.iter().enumerate() {
        if !text_balanced {
            break;
        }
        if !d.is_main || d.file_len.is_none() || d.lo >= d.hi || d.hi > v.len() || !d.on_boundaries {
            continue;
        }
        let Some(ok) = balanced(d.lo, d.hi) else { continue };
        out.count("bracket_balance_assertions", 1);
        let (bad, stack): (bool, Vec<char>) = (!ok, vec![]);
        if bad || !stack.is_empty() {
            push(
                "cause:range-cuts-a-bracket-pair",
                format!("diagnostic `{}`: range {}..{} covers {:?}, which cuts through a bracket pair: it is not a construct of the program", d.msg, d.lo, d.hi, covered(&v, d.lo, d.hi)),
                json!({"diag": i, "message": d.msg, "range": [d.lo, d.hi], "covered": covered(&v, d.lo, d.hi)}),
            );
        }
    }
    // evidence
    let first_non_ascii = v.char_indices().find(|(_, c)| !c.is_ascii()).map(|x| x.0);
    if let (Some(fna), Some(da)) = (first_non_ascii, &da) {
        let fna_c = char_pos(&v, fna);
        if comparable && da.iter().any(|d| d.is_main && d.hi > fna_c) {
            out.nontrivial_text(&v);
        }
    }
    if causes.is_empty() {
        let c = if dv.is_empty() {
            "no diagnostic (mutation accepted)"
        } else if pure_ascii {
            "ascii text: ranges well-formed"
        } else if comparable {
            "non-ascii text: ranges well-formed and equal to the ASCII twin's"
        } else {
            "non-ascii text: ranges well-formed, twin not comparable"
        };
        out.class(c);
        if out.evaluations % 97 == 1 {
            out.sample(json!({"origin": origin, "mutation": m.desc, "variant": VARIANTS[k], "text": tu::shorten(&v, 200),
                              "diagnostics": dv.iter().map(|d| json!({"message": d.msg, "range": [d.lo, d.hi], "covers": if d.is_main { covered(&v, d.lo, d.hi) } else { String::new() }})).collect::<Vec<_>>()}));
        }
        return;
    }
    out.class("VIOLATION");
    let diags_json = |s: &str, ds: &Vec<Diag>| ds.iter().map(|d| json!({"message": d.msg, "file_id": d.file, "range": [d.lo, d.hi], "covers": if d.is_main { covered(s, d.lo, d.hi) } else { String::new() }})).collect::<Vec<_>>();
    for (cause, what, info) in &causes {
        out.count(&format!("violations {cause}"), 1);
        // one root cause is hit by thousands of enumerated texts: per unit only the first PER_UNIT_CAP cases of a cause
        // become violation records (the counter above has the total)
        if *out.counters.get(&format!("violations {cause}")).unwrap_or(&0) > PER_UNIT_CAP {
            out.count("violation_records_suppressed_over_per_unit_cap", 1);
            continue;
        }
        let what = format!("{what} | {origin}: {} [{}]", m.desc, VARIANTS[k]);
        out.violation(
            vec![input_key.clone(), cause.clone()],
            what.clone(),
            json!({"origin": origin, "mutation": m.desc, "mutation_kind": m.kind, "variant": VARIANTS[k], "text": v, "ascii_twin": a,
                   "expected": "range within file, on char boundaries, covering the same chars as in the ASCII twin", "observed": what, "this_diagnostic": info,
                   "diagnostics": diags_json(&v, &dv), "twin_diagnostics": da.as_ref().map(|d| diags_json(&a, d)),
                   "repro": "abra_core::check_lsp(\"main.abra\", MockFileProvider::single_file(text)).errors(); or run the CLI on `text` and look at the underlined span"}),
        );
    }
}

// ---------------------------------------------------------------- generated family: parenthesised operands

/// Erroneous expressions whose offending construct starts or ends with a parenthesised operand / callee / receiver
/// (the span of the construct has to include the parentheses), in three statement forms. The site is the expression.
fn paren_family() -> &'static Vec<ErrMut> {
    static P: OnceLock<Vec<ErrMut>> = OnceLock::new();
    P.get_or_init(|| {
        let pre = "fn add(a: int, b: int) -> int = a + b\nlet x = 1\nlet o = option.some(1)\n";
        let mut exprs: Vec<String> = vec![];
        for op in ["+", "-", "*", "/", "%", "^", "<", "<=", ">", ">=", "==", "!="] {
            exprs.push(format!("(1 + 2) {op} \"three\""));
            exprs.push(format!("\"three\" {op} (1 + 2)"));
        }
        for e in [
            "(x) + \"three\"",
            "((1 + 2)) * \"three\"",
            "(1 + 2) * (\"three\")",
            "(1 + 2) and true",
            "(true) and 1",
            "true or (1 + 2)",
            "not (1 + 2)",
            "-(\"s\")",
            "(add)(1, \"two\")",
            "(add)(1)",
            "add((1), \"two\")",
            "add(1, (\"two\"))",
            "(x).nofield",
            "(o).nofield",
            "(x)[0]",
            "(x)!",
            "(1 + 2)!",
            "[(1), \"a\"]",
            "((1, 2)).nofield",
            "(1 + 2) .. zzundef",
            "(zzundef) + 1",
            "(add)(zzundef, 1)",
        ] {
            exprs.push(e.to_string());
        }
        let mut v = vec![];
        for e in &exprs {
            for (fi, (a, b)) in [("let v = ", ""), ("", ""), ("println(", ")")].iter().enumerate() {
                let text = format!("{pre}{a}{e}{b}\n");
                let lo = pre.len() + a.len();
                v.push(ErrMut {
                    text,
                    kind: "paren-operand",
                    desc: format!("`{e}` {}", ["as a let initialiser", "as a statement", "as a call argument"][fi]),
                    lo,
                    hi: lo + e.len(),
                    locality: true,
                });
            }
        }
        v
    })
}
const PAREN_CHUNK: usize = 40;
fn paren_units() -> usize {
    paren_family().len().div_ceil(PAREN_CHUNK)
}

// ---------------------------------------------------------------- generated family: diagnostics that involve two files

/// (case name, files (main first), acceptable anchors: (file name suffix, text that the primary range must lie inside
/// or cover, i.e. one of the two is a substring of the other))
#[allow(clippy::type_complexity)]
fn cross_file_cases() -> Vec<(String, Vec<(String, String)>, Vec<(String, String)>)> {
    let shapes = "// фигуры\ninterface Shape {\n  fn area(self) -> int\n  fn perimeter(self) -> int\n}\nfn twice(n: int) -> int = n * 2\ntype Cfg = {\n  depth: int\n}\n";
    let mut v = vec![];
    let mut add = |name: &str, main: &str, anchors: &[(&str, &str)]| {
        v.push((
            name.to_string(),
            vec![("main.abra".to_string(), main.to_string()), ("shapes.abra".to_string(), shapes.to_string())],
            anchors.iter().map(|(f, t)| (f.to_string(), t.to_string())).collect(),
        ));
    };
    let imp = "implement Shape for Sq {\n  fn area(self) -> int = self.side * self.side\n}";
    add(
        "implementation of an imported interface misses a method",
        &format!("use shapes\n// квадрат é: a square with an integer side; the offsets of this comment cover those of the interface in the other file ........\ntype Sq = {{\n  side: int\n}}\n{imp}\n"),
        &[("shapes.abra", "perimeter"), ("main.abra", imp)],
    );
    let imp2 = "implement ToString for Sq {\n}";
    add(
        "implementation of a prelude interface misses its method",
        &format!("// квадрат é\ntype Sq = {{\n  side: int\n}}\n{imp2}\n"),
        &[("prelude.abra", "str"), ("main.abra", imp2)],
    );
    let imp3 = "implement Ord for Sq {\n  fn less_than(a, b) = a.side < b.side\n}";
    add(
        "implementation of the prelude's Ord misses three methods",
        &format!("// квадрат é\ntype Sq = {{\n  side: int\n}}\nimplement Equal for Sq {{\n  fn equal(a, b) = a.side == b.side\n}}\n{imp3}\n"),
        &[("prelude.abra", "less_than_or_equal"), ("prelude.abra", "greater_than"), ("prelude.abra", "greater_than_or_equal"), ("main.abra", imp3)],
    );
    add(
        "wrong argument type for an imported function",
        "use shapes\n// é\nlet r = twice(\"двa\")\n",
        &[("main.abra", "twice(\"двa\")"), ("shapes.abra", "n: int")],
    );
    add(
        "unknown field of an imported struct type",
        "use shapes\n// é\nlet c = Cfg(1)\nlet d = c.zzfield\n",
        &[("main.abra", "c.zzfield")],
    );
    v
}

fn run_cross_file(out: &mut UnitOut) {
    for (idx, (name, files, anchors)) in cross_file_cases().into_iter().enumerate() {
        if !out.begin_case(idx as u64) {
            continue;
        }
        out.describe_case(&format!("{name}\n{}", files[0].1));
        out.evaluations += 1;
        out.count("cases of kind cross-file", 1);
        out.nontrivial_text(&name);
        let mut src = drive::Src::single(&files[0].1);
        for (n, t) in &files[1..] {
            src = src.add(n, t);
        }
        abra_core::verif::reset_counters(1);
        let key = format!("input:{}", hkey(&name));
        let r = drive::catch(|| {
            let res = abra_core::check_lsp(&src.main, src.provider());
            res.errors()
                .into_iter()
                .map(|e| {
                    let fd = res.file_db.files.get(e.file_id as usize);
                    let fname = fd.map(|f| f.absolute_path.to_string_lossy().to_string()).unwrap_or_else(|| format!("<unknown file id {}>", e.file_id));
                    let cov = fd.and_then(|f| f.source.get(e.range.start..e.range.end).map(|x| x.to_string()));
                    (e.message, fname, e.range.start, e.range.end, cov)
                })
                .collect::<Vec<_>>()
        });
        let diags = match r {
            Ok(d) => d,
            Err(p) => {
                out.class("analysis panicked (C04/C34 territory, not judged here)");
                out.count(&format!("analysis panic {}", p.site_key()), 1);
                continue;
            }
        };
        if diags.is_empty() {
            out.class("VIOLATION");
            out.violation(vec![key, "cause:no-diagnostic".into()], format!("{name}: the erroneous program was accepted without a diagnostic"), json!({"case": name, "files": files}));
            continue;
        }
        // every diagnostic: the primary range must be readable in the file its id names and lie inside / cover an anchor
        let mut bad = vec![];
        for (msg, fname, lo, hi, cov) in &diags {
            match cov {
                None => bad.push(format!("diagnostic `{msg}`: range {lo}..{hi} is not a valid range of {fname}")),
                Some(c) => {
                    let ok = anchors.iter().any(|(af, at)| fname.ends_with(af.as_str()) && !c.is_empty() && (at.contains(c.as_str()) || c.contains(at.as_str())));
                    if !ok {
                        bad.push(format!("diagnostic `{msg}`: primary location {fname} {lo}..{hi} covers {c:?}, which is none of the places the error concerns ({anchors:?})"));
                    }
                }
            }
        }
        if bad.is_empty() {
            out.class("cross-file: primary locations name the right file and construct");
            out.sample(json!({"case": name, "diagnostics": diags.iter().map(|d| json!({"message": d.0, "file": d.1, "range": [d.2, d.3], "covers": d.4})).collect::<Vec<_>>()}));
        } else {
            out.class("VIOLATION");
            out.violation(
                vec![key, "cause:primary-location-in-the-wrong-file-or-place".into()],
                format!("{name}: {}", bad[0]),
                json!({"case": name, "files": files, "problems": bad, "diagnostics": diags.iter().map(|d| json!({"message": d.0, "file": d.1, "range": [d.2, d.3], "covers": d.4})).collect::<Vec<_>>()}),
            );
        }
    }
}

// ---------------------------------------------------------------- units

fn base_files(tier: Tier) -> &'static Vec<usize> {
    static P: [OnceLock<Vec<usize>>; 2] = [OnceLock::new(), OnceLock::new()];
    P[tier.pick(0, 1)].get_or_init(|| {
        let c = tu::corpus();
        let budget = tier.pick(QUICK_BUDGET_CORE_S, THOROUGH_BUDGET_CORE_S);
        // the hand-written non-ASCII programs are always in; then the shortest corpus files while the budget lasts
        let mut v: Vec<usize> = (0..c.len()).filter(|i| c[*i].name.starts_with("hand/")).collect();
        let cost = |i: usize| error_mutations(&c[i].text, &|_| false).len() as f64 * MUT_US / 1e6;
        let mut total: f64 = v.iter().map(|i| cost(*i)).sum();
        for i in 0..c.len() {
            if v.contains(&i) {
                continue;
            }
            let k = cost(i);
            if total + k > budget {
                break;
            }
            total += k;
            v.push(i);
        }
        v.sort();
        v
    })
}

/// (file, first mutation, end mutation)
fn plan(tier: Tier) -> &'static Vec<(usize, usize, usize)> {
    static P: [OnceLock<Vec<(usize, usize, usize)>>; 2] = [OnceLock::new(), OnceLock::new()];
    P[tier.pick(0, 1)].get_or_init(|| {
        let c = tu::corpus();
        let mut v = vec![];
        for &f in base_files(tier) {
            let n = error_mutations(&c[f].text, &|_| false).len();
            let mut lo = 0;
            while lo < n {
                let hi = (lo + CHUNK).min(n);
                v.push((f, lo, hi));
                lo = hi;
            }
        }
        v
    })
}

impl Prop for C33 {
    fn id(&self) -> &'static str {
        "C33"
    }
    fn level(&self) -> &'static str {
        "exploration"
    }
    fn n_units(&self, tier: Tier) -> usize {
        plan(tier).len() + paren_units() + 1
    }
    fn expected_evaluations(&self, tier: Tier) -> Option<u64> {
        // 7 prefix variants of every mutation, + 2 where a string literal contains / precedes the site, + 1 for a bad escape
        let c = tu::corpus();
        let mut n = 0u64;
        let mut cache: Option<(usize, Vec<ErrMut>)> = None;
        for &(f, lo, hi) in plan(tier) {
            if cache.as_ref().map(|x| x.0) != Some(f) {
                cache = Some((f, error_mutations(&c[f].text, &|_| false)));
            }
            n += cache.as_ref().unwrap().1[lo..hi].iter().map(|m| n_variants(m) as u64).sum::<u64>();
        }
        n += paren_family().iter().map(|m| n_variants(m) as u64).sum::<u64>();
        n += cross_file_cases().len() as u64;
        Some(n)
    }
    fn run_unit(&self, tier: Tier, unit: usize, out: &mut UnitOut) {
        if unit == plan(tier).len() + paren_units() {
            run_cross_file(out);
            return;
        }
        if unit >= plan(tier).len() {
            // the generated parenthesised-operand family (after the corpus units, whose numbers do not change)
            let fam = paren_family();
            let u = unit - plan(tier).len();
            for mi in u * PAREN_CHUNK..((u + 1) * PAREN_CHUNK).min(fam.len()) {
                for k in 0..NVAR {
                    if !applicable(&fam[mi], k) {
                        continue;
                    }
                    if !out.begin_case((mi * NVAR + k) as u64) {
                        continue;
                    }
                    judge(out, "generated/paren-operand", &fam[mi], k);
                }
            }
            return;
        }
        let (f, lo, hi) = plan(tier)[unit];
        let file = &tu::corpus()[f];
        let c0 = tu::thread_cpu_s();
        // which identifier tokens of the unmutated program are uses (definition elsewhere)
        let src = tu::src_for(&file.text);
        abra_core::verif::reset_counters(1);
        let base = drive::catch(|| abra_core::check_lsp(&src.main, src.provider())).ok();
        let is_use = |off: usize| -> bool {
            let Some(res) = &base else { return false };
            drive::catch(|| {
                let Some(fid) = res.file_id_for_path(Path::new(&src.main)) else { return false };
                match res.definition_at(fid, off) {
                    Some(d) => d.file_id != fid || !(d.range.start <= off && off < d.range.end),
                    None => false,
                }
            })
            .unwrap_or(false)
        };
        let muts = error_mutations(&file.text, &is_use);
        for mi in lo..hi.min(muts.len()) {
            for k in 0..NVAR {
                if !applicable(&muts[mi], k) {
                    continue;
                }
                if !out.begin_case((mi * NVAR + k) as u64) {
                    continue;
                }
                judge(out, &file.name, &muts[mi], k);
            }
        }
        if let (Some(a), Some(b)) = (c0, tu::thread_cpu_s()) {
            out.count("cpu_ms", ((b - a) * 1000.0) as i64);
        }
    }
    fn rule(&self, tier: Tier) -> String {
        let c = tu::corpus();
        let fs = base_files(tier);
        let muts: usize = plan(tier).iter().map(|(_, lo, hi)| hi - lo).sum();
        format!(
            "base programs = the 5 hand-written non-ASCII programs + the {} shortest corpus programs within the cost budget (≤ {} bytes; corpus as in C04); every applicable single error mutation at every site \
             (rename identifier to `zzundef`, `.name` to `.zzfield`, literal of another type, delete a single-line `->` arm, `x = x` after `let x`, drop last / add one call argument, add `zzarg = 0`, delete one token, `\\q` into a string literal): \
             {} erroneous programs × up to {} variants {:?} (the first 7 for every mutation; the two in-literal variants where a single-line string literal starts on the site's line at or before the site; \
             the non-ASCII escaped character for the bad-escape mutation); each text and its ASCII twin (non-ASCII char → `@`) analysed with check_lsp; every diagnostic's primary range must be start ≤ end ≤ file length, on char boundaries, \
             cover the same chars as the twin's, and, when it spans more than one token, be balanced in (), [] and {{}} (a construct never cuts through a bracket pair); weak locality only for rename-of-a-use and bad-escape on pure-ASCII texts; \
             plus a generated family of {} erroneous expressions whose offending construct begins or ends with a parenthesised operand, callee or receiver, in three statement forms, with the same variants and oracle (locality: the diagnostic must be on the expression's line); plus {} two-file programs (an implementation of an imported / prelude interface that misses methods, a wrong argument for an imported function, an unknown field of an imported type) whose primary location must be readable in the file its id names and lie in one of the places the error concerns. \
             Non-trivial = comparable pair with non-ASCII text before the end of some main-file diagnostic (distinct by text hash)",
            fs.len() - 5.min(fs.len()),
            fs.iter().filter(|i| !c[**i].name.starts_with("hand/")).map(|i| c[*i].text.len()).max().unwrap_or(0),
            muts,
            NVAR,
            VARIANTS,
            paren_family().len(),
            cross_file_cases().len()
        )
    }
    fn assumptions(&self) -> Vec<String> {
        vec![
            "only the PRIMARY range (first label, as LspAnalysisResult::errors defines it) is judged; malformed secondary labels are only counted".into(),
            "\"covers the token or construct it describes\" is asserted differentially (same chars as in the ASCII twin) plus weak locality for two unambiguous mutation kinds; which construct a type error should underline is left unspecified".into(),
            "texts on which the analysis panics are not judged here (they are C04/C34 findings) but are counted per panic site".into(),
            "a prefix variant may turn the intended error into a parse error (e.g. a string statement between match arms); the differential oracle does not depend on which error is reported".into(),
        ]
    }
}
