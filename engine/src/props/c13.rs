//! C13 — an arm is reported redundant exactly when no value can reach it.
//!
//! Same universe as C12 (pat_util.rs). The set of arms the real checker labels redundant (secondary
//! labels of the redundant-arms diagnostic, attributed by exact byte range) must equal the set of arms
//! that no value of the domain reaches first, literals compared by value (`1.0` = `1.00`).

use super::c12::{cause_keys, is_nontrivial, judge_common, recheck};
use super::pat_util::*;
use crate::fw::{Prop, Tier, UnitOut};
use serde_json::json;

pub struct C13;

fn judge(out: &mut UnitOut, c: &MatchCase, v: &Verdict, mv: &ModelVerdict) {
    let ctx = c.ctx.name();
    if !judge_common(out, "c13", c, v) {
        return;
    }
    let reported: Vec<usize> = v.redundant.clone().unwrap_or_default();
    if v.redundant.is_some() && reported.is_empty() {
        out.class(&format!("{ctx}:violation:empty-redundant-report"));
        out.violation(
            cause_keys("c13", "empty-redundant-report", c),
            format!("{}: a redundant-arms diagnostic that names no arm", c.text()),
            json!({"case": c.text(), "program": standalone(c), "observed": v.summary()}),
        );
        return;
    }
    if reported == mv.unreachable {
        out.class(&format!("{ctx}:agree:{}-redundant-of-{}", reported.len().min(3), c.arms.len().min(4)));
        return;
    }
    let missed: Vec<usize> = mv.unreachable.iter().copied().filter(|a| !reported.contains(a)).collect();
    let spurious: Vec<usize> = reported.iter().copied().filter(|a| !mv.unreachable.contains(a)).collect();
    let sym = if !spurious.is_empty() { "false-redundant" } else { "missed-redundant" };
    out.class(&format!("{ctx}:violation:{sym}"));
    let show = |ix: &[usize]| ix.iter().map(|a| format!("#{a} `{}`", render(&c.arms[*a], &c.ty))).collect::<Vec<_>>();
    out.violation(
        cause_keys("c13", sym, c),
        format!(
            "{}: arms no value reaches first = {:?}, arms reported redundant = {:?} (unreported: {:?}, wrongly reported: {:?})",
            c.text(),
            show(&mv.unreachable),
            show(&reported),
            show(&missed),
            show(&spurious)
        ),
        json!({"case": c.text(), "program": standalone(c), "expected_redundant_arms": mv.unreachable, "observed": v.summary(),
               "first_matching_arm_per_value": format!("{:?}", mv.first)}),
    );
}

impl Prop for C13 {
    fn id(&self) -> &'static str {
        "C13"
    }
    fn level(&self) -> &'static str {
        "model_checking"
    }
    fn n_units(&self, tier: Tier) -> usize {
        plan(tier, true).1.len()
    }
    fn expected_evaluations(&self, tier: Tier) -> Option<u64> {
        Some(total_cases(tier, true))
    }
    fn min_classes(&self) -> usize {
        3
    }
    fn run_unit(&self, tier: Tier, unit: usize, out: &mut UnitOut) {
        let cases = unit_cases(tier, true, unit);
        if cases.is_empty() {
            return;
        }
        let vals = values(&cases[0].ty);
        let mut stats = CheckStats::default();
        let bs = batch_size(out, &cases);
        let mut i = 0;
        while i < cases.len() {
            let j = (i + bs).min(cases.len());
            let sel = select(out, i, j);
            i = j;
            if sel.is_empty() {
                continue;
            }
            if bs == 1 {
                out.describe_case(&format!("{}\n{}", cases[sel[0]].text(), standalone(&cases[sel[0]])));
            }
            let refs: Vec<&MatchCase> = sel.iter().map(|k| &cases[*k]).collect();
            let verdicts = check_cases_w(&refs, &mut stats, false);
            for (n, k) in sel.iter().enumerate() {
                out.begin_case_quiet(*k as u64);
                out.evaluations += 1;
                out.states += 1;
                out.transitions += vals.len() as u64;
                let c = &cases[*k];
                if is_nontrivial(c) && c.arms.len() > 1 {
                    out.nontrivial_text(&c.text());
                }
                let mv = model_verdict(&c.arms, &vals);
                judge(out, c, &verdicts[n], &mv);
                recheck(out, "c13", *k, c, &verdicts[n], &mut stats, false);
                if *k % 701 == 3 {
                    out.sample(json!({"case": c.text(), "checker": verdicts[n].summary(), "model_unreachable_arms": mv.unreachable}));
                }
            }
        }
        out.traces += stats.programs;
        out.count("checker_programs", stats.programs as i64);
    }
    fn rule(&self, tier: Tier) -> String {
        format!(
            "U-pat: {}. Oracle: an arm is redundant iff no value of the domain has it as its first matching arm (brute-force matcher; float literals compared by value, \
             int/float/string domains = every literal of the pattern lists plus one fresh value). The set of arms carrying a secondary label of the redundant-arms diagnostic \
             (attributed by exact byte range; every {}-th case re-checked standalone) must equal that set. Non-trivial: at least two arms, at least one refutable.",
            describe_universe(tier, true),
            super::c12::RECHECK
        )
    }
    fn assumptions(&self) -> Vec<String> {
        vec![
            "redundancy is judged per arm (an or-pattern arm is redundant iff none of its alternatives is reachable), as the diagnostic labels whole arms".into(),
            "states = (placement, type, arm list) explored; transitions = (arm list, value) evaluations of the model; traces = programs analysed by the implementation".into(),
        ]
    }
}
